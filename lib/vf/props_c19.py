import glob
import os
import re

from vf.driver import Harness, Prop
from vf.props import reg, COMMON_ASSUMPTIONS


def _post(prop, tier, seed, rundir, results, violations, inconclusive):
    """ThreadSanitizer log post-processing: count report blocks, deduplicate by the pair of outermost fcppt frames and by
    the stack pair with line numbers stripped; any report with an fcppt frame is a violation."""
    raw = 0
    dedup = {}
    files = sorted(glob.glob(os.path.join(rundir, 'tsan_*')))
    for f in files:
        txt = open(f, errors='replace').read()
        for block in re.split(r'\n(?==================\n)', txt):
            m = re.search(r'WARNING: ThreadSanitizer: ([^\(\n]+)', block)
            if not m:
                continue
            raw += 1
            kind = m.group(1).strip()
            frames = re.findall(r'#\d+ (\S.*?) (?:/|<null>)', block)
            fc = [re.sub(r'\(.*', '', x) for x in frames if 'fcppt::' in x]
            stacks = re.sub(r':\d+', '', ' | '.join(fc[:6]))
            outer = fc[0] if fc else '(no fcppt frame)'
            key = 'c19_tsan:%s/%s' % (kind.replace(' ', '-'), outer[:90])
            d = dedup.setdefault(key, {'n': 0, 'stacks': set(), 'block': block[:3500], 'has_fcppt': bool(fc)})
            d['n'] += 1
            d['stacks'].add(stacks)
    for key, d in dedup.items():
        if not d['has_fcppt']:
            continue
        violations.append({'key': key, 'kind': 'tsan', 'entry': 'log-tsan', 'case': '(see the report)', 'detail': d['block'],
                           'harness': 'c19_tsan', 'part': 0, 'nparts': 1, 'idx': 0,
                           'replay_argv': ['--tier', tier, '--seed', str(seed), '--part', '0/1']})
    return {'counters': {'log/tsan/reports-raw': raw, 'log/tsan/reports-deduplicated': len(dedup),
                         'log/tsan/log-files': len(files)},
            'coverage': {'tsan_reports': {k: {'count': v['n'], 'distinct_stacks': len(v['stacks'])} for k, v in dedup.items()}}}


reg(Prop(
    'C19',
    [Harness('c19_log', libs=('log', 'core'), parts=16, thorough_cfg='asan1'),
     Harness('c19_tsan', cfg='tsan', libs=('log', 'core'), parts=16)],
    rule='Sequential (ASan): a case is one seeded history of up to 60 operations (set incl. the empty level, get, object creation by location / by '
         'context / by parent, level()/enabled() of any live object, log at every level with and without an object formatter) over locations of '
         'depth <= 3 with 3 names; levels, enabled decisions, emission decisions and the emitted bytes are compared with the latest-set-on-a-prefix '
         'model. Concurrent histories (ASan): a case is one recorded history of 2-4 threads x 3-5 operations on one context (hot prefix, optional '
         'spin barrier per step); set/get/create are checked for linearizability by a Wing-Gong search with memoisation, lock-free level() reads '
         'of long-lived objects as regular-register reads, and the levels of all locations read after the threads finished must be explained by one '
         'sequential order; a quarter of these histories are creation storms (4-6 threads create an object for the same missing name at the same '
         'barrier), and after everything was judged a set exactly on the location of every created object must reach all objects created for it. TSan: a case is one round of 2-6 threads x 50-199 mixed operations (half of the rounds barrier-phased); every '
         'ThreadSanitizer report with an fcppt frame is a violation (reports are deduplicated). distinct = history text / interleaving signature / round seed.'
         ' A third of the sequential histories use level streams without a formatter or with a custom one (per level); the emitted text is judged for each kind.'
         ' Spinning lock-free readers: two writers set real levels on prefixes while two readers spin on level() / enabled(fatal) of objects below them; every observed level must be the root level or the level of some set on a prefix (about 7e7 reads per quick run).'
         ' Unnamed components: all 4^4 combinations of the names gfx / (empty) / cache / x at depth 0..3, created through locations and through parent objects; the text carries all named ancestors in order.'
         ' The level macros FCPPT_LOG_DEBUG / FCPPT_LOG_ERROR as the unbraced branches of an if / else, for every object level and both conditions.',
    assumptions=COMMON_ASSUMPTIONS + [
        'operation A precedes B only if A.return + 2us < B.call (clock granularity can only remove constraints)',
        'lock-free reads are judged as regular registers, deliberately weaker than linearizability: set updates a subtree node by node',
        'ThreadSanitizer (gcc 12) only sees the schedules that were produced; a race needing another schedule stays invisible',
        'a linearizability search exceeding 2*10^6 nodes is counted as inconclusive for that history, not as a violation'],
    post=_post,
))
