from vf.driver import Harness, Prop
from vf.props import reg, COMMON_ASSUMPTIONS

reg(Prop(
    'C04',
    [Harness('c04_algebra', parts=16, slices=5),
     # the same harness once more with every lvalue operand passed as a NON-CONST lvalue (the category a library that
     # forwards with the wrong value category can move from); each such operand must hold its value afterwards
     Harness('c04_algebra_nc', src=['c04_algebra.cpp'], parts=16, slices=5, extra_flags='-DC04_NONCONST_LVALUES')],
    rule='Exhaustive over a three-element value domain (distinct wrapper types val<Tag> for successes, failures and the '
         'variant alternatives; a moved-from val is marked, so a continuation that receives an already consumed object is '
         'seen).  Continuations are table-driven function objects; table id t enumerates ALL functions between the finite '
         'domains (27 D->A, 64 D->optional<A>, 216 D->either<E,A>, 8 predicates, 3^9 binary D x D->A, 3^9 V->D on a '
         '3-alternative variant; ternary functions and binary functions on two variants are sampled).  One evaluation = one '
         'library call (or one law instance = two library expressions) on one (function table, value(s), value category '
         'const&/&&); its result is decoded to a code and compared with a tagged-union model written from the documentation, '
         'and the log of continuation calls (role, table, argument codes) is compared with the call list the model produces '
         '(exactly once, order, short-circuit position, never for an absent value).  A case for the distinct count is one '
         'row = (combinator or law, function table id or container index), hashed canonically; all values and value '
         'categories are enumerated inside the row.  quick samples 3000+5 of the 19683 binary tables and every 4th V->D '
         'table; thorough enumerates all of them.'
         ' variant::dynamic_cast_ is judged against the documented first-successful-cast rule (type lists in which several types fit the object, dynamic_fun and dynamic_cross_fun, identity of the referenced object). either::loop additionally runs 1e3, 5e4 and 4e5 (thorough 4e6) successes before the failure.'
         ' either::sequence_error: result and the calls made (f(x_1) .. f(x_i), x_i the first failure) as documented.'
         ' first_success over std::function objects with inner state, called twice over the same container.'
         ' monad::chain judged against bind(bind(m, l_1), l_2) with steps of one type (values and call order), three steps on either.'
         ' monad::do_ judged with std::string values: three steps that read all earlier values, nothing at every step.',
    assumptions=COMMON_ASSUMPTIONS + [
        'the finite domain is what is claimed; the step to all types rests on parametricity of the templates, which an '
        'execution does not show',
        'judged: the combinators the statement names or covers by its general clause (optional: object, map, bind, join, '
        'apply, maybe, maybe_void, maybe_multi, maybe_void_multi, filter, alternative, combine, cat, sequence, from, '
        'make_if, ==/!=/<; either: object, match, map, map_failure, bind, join, apply, sequence, first_success, loop, '
        'from_optional, try_call, success_opt, failure_opt; variant: object, match, apply, to_optional, holds_type, compare, '
        '==/!=/<; monad::bind); observed only: optional to_exception/copy_value/deref/assign/to_container/from_pointer/'
        'to_pointer, either sequence_error/error_from_optional/to_exception/==/construct/make_*, variant free '
        'get_unsafe/to_optional_ref, monad chain/do_/return_, the interleaving of _next and _loop in either::loop',
        'either::sequence is only callable with rvalue sources (its constraints reject lvalue references) and '
        'optional::to_container only with rvalues; these flavours are therefore not exercised',
    ],
    exhaustive_spaces=[
        'all 4 optional<D>, 6 either<E,D>, 9 variant<A,B,C> values (5/9/21 nested ones for join), both value categories',
        'all 27 functions D->A, all 64 D->optional<A>, all 216 D->either<E,A>, all 8 predicates, all 3 constant thunks',
        'all 341 containers of optionals and all 1555 containers of eithers up to length 4 (cat, sequence, first_success, loop scripts x 3 final failures)',
        'functor fusion 27^2, optional monad associativity 64^2 x 4, either monad associativity 216^2 x 6, each for const& and &&',
        'variant::compare: all 512 comparison tables x 81 pairs; comparison operators on all pairs',
        'thorough: all 19683 binary tables D x D->A for apply/maybe_multi/combine and all 19683 functions variant<A,B,C>->D',
    ],
))
