from vf.driver import Harness, Prop
from vf.props import reg, COMMON_ASSUMPTIONS

reg(Prop(
    'C20',
    [Harness('c20_random', parts=16, slices=5, thorough_cfg='asan1')],
    rule='One case = (family, result type, engine, parameters, engine seed, way of construction): the fcppt generator '
         '(minstd_rand / mt19937) and the std engine are seeded with the same value, the fcppt distribution/variate and the '
         'std distribution get the same parameters, and every draw is compared (integers exactly, floating point bit for bit) '
         'after unwrapping with the harness\'s own rule (strong_typedef -> get(), enum -> underlying value); afterwards two raw '
         'draws of both generators are compared (the variate must have advanced the caller\'s generator). Integer-like draws are '
         'also compared with the requested closed interval, and with <= 17 values in the interval both end points must occur in '
         '2000 draws. Families: uniform_int over short/int/long/long long/unsigned/unsigned long/strong typedefs (also chained, and '
         'around an enum): grid = all 153 intervals -8<=a<=b<=8 (0..16 unsigned) x 8 (quick) / 200 (thorough) seeds x 2000 draws; '
         'limits = 22-25 intervals touching min/max of the type; seeds = 3000 / 25000 random seeds per (type, engine) with random '
         'intervals of all magnitudes, 48 draws. Enums of size 1..9 (underlying int, unsigned, short, long, unsigned long, unsigned '
         'short, default) through make_uniform_enum, make_uniform_enum_advanced (std and a user supplied distribution that records '
         'its constructor arguments) and every sub-interval of enumerators. make_uniform_indices(_advanced) and '
         'make_uniform_container(_advanced) over vector<int>, deque<long>, string, vector<string> (const and non-const) of size '
         '0..6, plus uniform_container(ref, [i,j]) for every index sub-interval; a drawn reference is identified by address. '
         'uniform_real / normal over float, double, long double, strong typedef of double with fixed and random parameters, 64 '
         'draws. generator = raw draws of the wrapped engines for 4000 / 200000 seeds incl. 0, 1, max and seed sequences. history = '
         'random interleavings of up to 6 variates (int, chained strong typedef, normal, real, enum; created by all three '
         'constructors, copied, dropped) and raw draws on ONE shared generator against std distributions sharing one std engine. '
         'param-setter = basic::param(p) followed by draws. The four ways of construction (variate(gen,dist(min,max)), '
         'variate(gen,param), make_variate(gen,make_basic(param)), dist(param)(gen)) rotate over the cases. evaluations counts '
         'judged draws; distinct = hash of (family, type, engine, parameters, seed, first drawn values).'
         ' uniform_container behind a user distribution that keeps state between draws (reference: the same class on the std engine). min() / max() of distribution::basic judged against the wrapped distribution after construction, after param(p) and on a copy.'
         ' A user distribution whose param_type is also constructible from an initializer list; three more engines wrapped directly (mt19937_64, ranlux24_base, knuth_b).'
         ' After the container grew by 64 elements (storage moved), 16 draws must be elements of the container at indices of the interval.'
         ' A user engine that throws when its tape runs dry: 40 draws, the tape extended after every exception; same sequence and same number of exceptions as the standard distribution on the bare engine.',
    assumptions=COMMON_ASSUMPTIONS + [
        'the reference is libstdc++\'s std::minstd_rand / std::mt19937 and std::uniform_int_distribution / uniform_real_distribution / '
        'normal_distribution constructed in the harness from the same seed and parameters, as the statement prescribes',
        'the only probabilistic judgement of the suite: an end point of an interval with at most 17 values that is missing in 2000 draws is '
        'reported; for a correct distribution this has probability (16/17)^2000 < 1e-52 per end point (< 1e-45 over a whole thorough run); '
        'everything else is a deterministic comparison',
        'returning nothing for a NON-empty container is also reported (spurious-nothing): the statement quantifies over containers of size 1..6 '
        'whose distribution can only be obtained from these factories',
        'not instantiated because they do not compile (compile-time defects, invisible to any execution): basic::operator()(rng,param) [F16], '
        'basic::param() getter, parameters::{uniform_int,uniform_real,normal}::convert_to, operator>>(istream&, basic&); parameter translation is '
        'observed through basic::distribution() instead',
        'observed only, never judged: basic::min()/max()/==/!=/operator<</reset(), values of uniform_real equal to sup (a property of the std '
        'distribution), the number of times a user supplied distribution is asked',
        'enum underlying types char/unsigned char are not used (std::uniform_int_distribution is not defined for them)',
    ],
    exhaustive_spaces=[
        'all 153 intervals [a,b] with -8 <= a <= b <= 8 for short, int, long, long long, st_int, st_st_long, st_e5 and 0 <= a <= b <= 16 for '
        'unsigned, unsigned long, st_uint, for both engines and all four ways of construction (seeds sampled)',
        'all sub-intervals of enumerators of enums of size 1..9; all index sub-intervals [i,j] of containers of size 1..6',
        'container sizes 0..6 x {vector<int>, deque<long>, string, vector<string>} x {const, non-const} x all factories x both engines',
    ],
))
