from vf.driver import Harness, Prop
from vf.props import reg, COMMON_ASSUMPTIONS

reg(Prop(
    'C15',
    [Harness('c15_roundtrip', parts=16, thorough_cfg='asan1'),
     # thorough only: the quick workload without sanitizer instrumentation under valgrind memcheck (libstdc++.so -
     # iostream, locale, codecvt, the extern-template std::string members - is not ASan-instrumented)
     Harness('c15_roundtrip_memcheck', src=['c15_roundtrip.cpp'], cfg='plain', runner='valgrind', tiers=('thorough',),
             parts=16, run_tier='quick', alarm=900)],
    rule='Cases: chunks of values for io::write->bytes->io::read (+ byte order by shifting, endianness::swap twice, convert twice, convert '
         'vs byte reversal) over all 8/16-bit integers, the 32/64-bit lattice + seeded random values, float/double incl. +-0, denormals, inf and '
         'arbitrary bit patterns (bit comparison); io::read from every short prefix, from a stream with failbit / badbit set before the call and from '
         'a device that throws after k < sizeof(T) bytes must yield nothing; output_to_std_(w)string -> extract_from_string for signed/unsigned char..unsigned long long '
         '(char types: same value or nothing) and malformed texts; enum to_string/from_string/names/output/input on narrow and wide streams for '
         'every enumerator of 3 enums plus non-names; vector/dim << and >> for all vectors over {-2..2}^N, N=1..3, plus malformed texts; '
         'narrow/widen(_locale), to/from_std_wstring(_locale) in C.utf8 for every Unicode scalar value U+0001..U+10FFFF singly, with ASCII '
         'neighbours (every 61st and all below U+0900), and seeded random strings up to 40 characters mixing 1-4 byte characters; incomplete and '
         'invalid UTF-8 must be rejected by widen; io::widen_string/narrow_string on ASCII. distinct = hash of the chunk/block/string.'
         ' io::write to a device that accepts k < sizeof(T) bytes (eof from overflow, or throwing): the stream must not stay good(), only a prefix of the encoding arrives. Wide strings with code units that are not characters (surrogates, > U+10FFFF, negative wchar_t) in six contexts: narrow returns nothing or a string that widens back to the input.'
         ' A codecvt facet that keeps state between calls (UTF-16 surrogate pairs on the wide side): prefixes of every length 0..40 before 1-3 pairs, so that the output buffer fills while the state is non-initial.'
         ' Every tenth integer conversion is preceded, on the same thread, by a conversion whose operator<< leaves hex | showbase | fill set and by one that converts something itself while being written.'
         ' The first conversions of every harness process run under LC_ALL=C; the environment is then switched back to the UTF-8 locale (the locale-less wrappers read the environment at the time of the call).'
         ' One read-write stream as a queue for vectors and dims: write, read back to the end, write, read (three times); the stream stays good().',
    assumptions=COMMON_ASSUMPTIONS + [
        'the UTF-8 locale is C.utf8 (selected explicitly and via LC_ALL for the locale-less overloads); glibc\'s codecvt facet is the codec',
        'for signed/unsigned char the iostream extraction reads a character, so only "the same value or nothing" is required there'],
    exhaustive_spaces=['all 8/16-bit integers for binary io and decimal text', 'all Unicode scalar values singly',
                       'all vectors/dims over {-2..2}^N, N<=3', 'all enumerators of the test enums'],
))
