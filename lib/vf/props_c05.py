import concurrent.futures
import os
import re
import subprocess

from vf.driver import Harness, Prop, VERIF
from vf.props import reg, COMMON_ASSUMPTIONS

_PROBE = r'''
#include <fcppt/optional/object.hpp>
#include <fcppt/optional/to_container.hpp>
#include <vector>
struct s { s(); s(s const &); s(s &&) noexcept; s &operator=(s const &); s &operator=(s &&) noexcept; };
std::vector<s> f(fcppt::optional::object<s> const &o) { return fcppt::optional::to_container<std::vector<s>>(o); }
'''
_probe_result = {}


def _const_to_container_compiles():
    """optional::to_container(const lvalue optional) did not compile before the fix 172391c (a hard error inside
    container::make, not detectable with a requires-expression). The harness must still build against such a tree, so
    the const-lvalue flavour of that one entry is switched off there (and reported as an observation)."""
    from vf import driver
    key = driver.REPO
    if key not in _probe_result:
        cmd = ['g++'] + driver.SAN_COMMON.split() + ['-fsyntax-only', '-x', 'c++', '-'] + driver.include_flags('asan').split()
        try:
            r = subprocess.run(cmd, input=_PROBE, stdout=subprocess.PIPE, stderr=subprocess.STDOUT, text=True, timeout=300)
            _probe_result[key] = r.returncode == 0
        except Exception:  # noqa
            _probe_result[key] = True
    return _probe_result[key]


class _C05Harness(Harness):
    """extra_flags is computed lazily (after the libraries and their generated headers exist)."""

    @property
    def extra_flags(self):
        return self._extra + ('' if _const_to_container_compiles() else ' -DC05_NO_CONST_TO_CONTAINER')

    @extra_flags.setter
    def extra_flags(self, v):
        self._extra = v


SLICES = ['algorithm', 'container', 'optional', 'either', 'variant+tuple', 'record+array', 'grid+tree', 'options', 'parse']


def _post(prop, tier, seed, rundir, results, violations, inconclusive):
    """Compile-time half of C05 ("these operations accept move-only element types"): every slice of the harness is
    compiled once more with -DC05_MO (move-only element types, all-rvalue category combinations only), syntax-only.
    A slice that does not compile is a violation (the library copies where it should move); it is done here and not as
    a second binary so that such a tree still runs the copyable harness and reports the copy at run time as well."""
    from vf import driver
    cfg = 'asan'
    src = os.path.join(VERIF, 'harness', 'c05_conserve.cpp')
    base = ['g++'] + driver.SAN_COMMON.split() + ['-fsyntax-only', '-DC05_MO', '-DVF_NSLICES=%d' % len(SLICES)] + \
        driver.include_flags(cfg).split()
    const_ok = _const_to_container_compiles()

    def one(k):
        cmd = base + ['-DVF_SLICE=%d' % k, src]
        try:
            r = subprocess.run(cmd, stdout=subprocess.PIPE, stderr=subprocess.STDOUT, text=True, timeout=900)
            return k, r.returncode, r.stdout
        except subprocess.TimeoutExpired:
            return k, -1, 'compiler timeout'

    with concurrent.futures.ThreadPoolExecutor(max_workers=min(len(SLICES), driver.NCPU)) as ex:
        rs = list(ex.map(one, range(len(SLICES))))
    ok = 0
    for k, rc, out in rs:
        if rc == 0:
            ok += 1
            continue
        if rc < 0:
            inconclusive.append('move-only compile of slice %s timed out' % SLICES[k])
            continue
        open(os.path.join(rundir, 'move_only_%d.log' % k), 'w').write(out)
        lines = out.splitlines()
        first = next((i for i, l in enumerate(lines) if ' error: ' in l), 0)
        # the library frame the error belongs to: first fcppt header named at or after the first error
        where = None
        for l in lines[max(0, first - 30):first + 60]:
            m = re.search(r'/include/(fcppt/[A-Za-z0-9_/]+\.hpp)', l)
            if m and 'required from' in l or (m and ' error: ' in l):
                where = m.group(1)
                break
        errs = [l for l in lines if ' error: ' in l][:6]
        ctx = [l for l in lines[first:first + 80] if 'required from' in l and '/fcppt/' in l][:8]
        harness_line = next((l for l in lines[first:] if 'c05_conserve.cpp' in l and 'required from here' in l), '')
        key = 'c05_conserve:move-only/%s/does-not-compile' % (where or SLICES[k])
        violations.append({
            'key': key, 'kind': 'compile', 'entry': 'move-only/' + SLICES[k],
            'case': 'g++ -std=c++20 -fsyntax-only -DC05_MO -DVF_SLICE=%d harness/c05_conserve.cpp (slice %s) %s' % (k, SLICES[k], harness_line.strip()[:200]),
            'detail': 'the operations of this slice do not compile with a move-only element type:\n' + '\n'.join(errs + ctx)[:3000],
            'harness': 'c05_conserve', 'part': 0, 'nparts': 1, 'idx': 0,
            'replay_argv': ['--tier', tier, '--seed', str(seed), '--part', '0/1', '--entry', 'move-only/' + SLICES[k]]})
    return {'counters': {'move-only/slices-compiled': len(rs), 'move-only/slices-accepted': ok,
                         'probe/to_container-const-lvalue-compiles': 1 if const_ok else 0},
            'required': ['move-only/slices-compiled'],
            'coverage': {'move_only_compile': {SLICES[k]: ('ok' if rc == 0 else 'failed') for k, rc, _ in rs},
                         'not_compiling_flavours': [] if const_ok else [
                             'optional::to_container(const lvalue optional) does not compile in this tree (hard error in '
                             'container::make): that flavour is not run']}}


reg(Prop(
    'C05',
    [_C05Harness('c05_conserve', libs=('options', 'core'), parts=8, slices=len(SLICES)),
     # thorough only: the same harness without sanitizer instrumentation under valgrind memcheck (uninitialised reads
     # of moved-from storage and leaks that ASan's red zones do not see)
     _C05Harness('c05_conserve_memcheck', src=['c05_conserve.cpp'], cfg='plain', runner='valgrind', tiers=('thorough',),
             libs=('options', 'core'), parts=8, slices=len(SLICES))],
    rule='A case is one call of one registered operation with one combination of value categories (L = non-const lvalue, C = const '
         'lvalue, R = rvalue, for every argument) and one argument shape (sizes 0-3 quick / 0-6 thorough for dynamic containers, fixed '
         'sizes 1-3 for arrays/tuples/records, present/absent, every alternative, failure position patterns). Arguments are built from '
         'instrumented elements (unique object id, unique payload id); every special member, ==, <, hash, <<, >> and the accessor used by '
         'the continuations is logged. After the case the log is replayed with a model of every object (live / moved-from / destroyed) and '
         'judged: no copy of an element of an rvalue argument, no copy of a value produced by a continuation during the call, no read '
         '(copy/move/compare/hash/output/payload read) of a moved-from object, no move-from / assignment / destruction of an element '
         'reachable from an lvalue or const argument, every object destroyed exactly once; the result holds no element twice and holds '
         'exactly the elements the documentation says it keeps; lvalue arguments hold afterwards what they held before. 9 slices: '
         'algorithm (map, map_optional, map_concat, fold, fold_break, reverse, loop, make_move_range over vector/deque/list/std::array/'
         'fcppt::array), container (join 1-3 args, pop_back/front, get_or_insert(_with_result), insert, set_union/difference/intersection, '
         'make, map_values_copy, key_set), optional (map, bind, apply, maybe, maybe_void, maybe_multi, from, alternative, combine, join, '
         'filter, cat, sequence, to_container, to_exception, make_if, assign, copy_value), either (map, map_failure, bind, apply 2/3, match, '
         'sequence, first_success, join, success_opt, failure_opt, from_optional, to_exception, construct, loop), variant (match, apply 1/2, '
         'to_optional, constructor) and tuple (map, push_back, concat, apply, invoke, from_array, make, init, constructor, algorithm::map/'
         'loop over tuples), record (constructor, map, permute, multiply_disjoint, init, set) and array (map, append, join 1-3, push_back, '
         'apply, from_range, make, init, constructor), grid (map, apply 1/2, resize, fill, constructors) and tree (constructors, push_back/'
         'push_front/insert of values and trees, pop_back/pop_front/release, value, operator=, erase, tree::map), options (flag/option '
         'constructors; parse of flag, option, argument, many, optional, apply and their compositions with instrumented values), parse '
         '(repetition, sequence, optional, alternative, separator, convert over results produced by convert). The post step compiles all '
         'slices again with a move-only element type (all-rvalue combinations). distinct = hash of (operation, instantiation, categories, shape).'
         ' container::join over std::set with a function-pointer ordering (first argument lvalue and rvalue): every payload once, in the first argument\'s order, lvalue untouched.'
         ' optional::filter with a by-value predicate that consumes its parameter: the returned optional still holds the payload, an lvalue argument is untouched.'
         ' pop_back / pop_front over std::deque of an element type with a throwing (not noexcept) move constructor: no copies.',
    assumptions=COMMON_ASSUMPTIONS + [
        '"moved at most once" is read as the statement explains it (no object is moved from twice, no element duplicated), not as a bound on the length of a move chain (observed: up to 40 moves of one element through nested records/arrays)',
        'copies of elements of an LVALUE / const argument are allowed (join(lvalue, ...) copies its first container by design); the harness continuations never take a parameter by value and never copy, so every copy in the log was made by library (or standard library, on its behalf) code',
        'functions declared to take `T const &` only (set_union/difference/intersection, map_values_copy, key_set, tree::map, copy_value, get_or_insert key, options/parse parsers) are judged for lvalue and const lvalue arguments only: an rvalue would bind to the const reference and be copied by design',
        'category combinations that do not compile and are therefore absent: lvalue sources for either::sequence, tuple::concat, record::map and grid static-row construction (constraints are evaluated on the deduced reference type); an lvalue FIRST argument for tuple::apply, array::append, array::join (2+ arguments), array::push_back; lvalue values for optional::assign; container::make is documented to move its arguments and is run with rvalues only',
        'containers the operation is documented to modify (pop_back/pop_front, get_or_insert, insert, tree members, grid::fill, record::set, optional::assign, operator=) are "subjects": the elements the documentation says are replaced or removed may be overwritten/destroyed, the popped/released ones must be moved (not copied), all others are pinned like lvalue elements',
        'observed only, never judged: container::join on std::set (set elements are const, join can only copy them - not one of the registered container kinds) and parse::repetition_plus (neither named nor anchored; it copies the first parsed value through an initializer_list)',
        '3-argument operations (either::apply/3, array::join/3, tuple::make, array::make) run a subset of the 27 category combinations (all equal, and the mixed ones listed in the harness)'],
    exhaustive_spaces=['all 3^n value-category combinations that compile, for every registered operation with n <= 2 arguments',
                       'presence patterns of optional::apply/combine/maybe_multi (4), either::apply/2 (4) and /3 (8), every alternative of variant<E,F,G> (3, pairs 9)',
                       'all success positions 0..n for either::first_success, n <= 3 (quick) / 6 (thorough)'],
    post=_post,
))
