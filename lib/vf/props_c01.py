from vf.driver import Harness, Prop
from vf.props import reg, COMMON_ASSUMPTIONS

reg(Prop(
    'C01',
    [Harness('c01_total', libs=('options', 'filesystem', 'core'), parts=16, slices=14, thorough_cfg='asan1'),
     # thorough only: the quick workload once more without sanitizer instrumentation under valgrind memcheck. The standard
     # library (libstdc++.so: filesystem, iostream, codecvt) is not ASan-instrumented, so a bad length or a torn buffer that
     # fcppt hands to it is invisible to the first harness; memcheck watches those frames too.
     Harness('c01_total_memcheck', src=['c01_total.cpp'], cfg='plain', runner='valgrind', tiers=('thorough',),
             libs=('options', 'filesystem', 'core'), parts=16, slices=14, run_tier='quick', alarm=900)],
    rule='One registry entry per function x instantiation (math::{log2,next_power_of_2,is_power_of_2,ceil_div,ceil_div_signed,'
         'div,mod,clamp,diff,power_of_2,interval_distance}, cast::truncation_check (64 pairs), enum_::{from_int,from_string}, '
         'container::{at_optional,maybe_front,maybe_back,pop_back,pop_front,find_opt,find_opt_mapped}, grid::at_optional, '
         'array::from_range, runtime_index, cast::{dynamic,dynamic_cross}, extract_from_string(_locale), narrow/widen(_locale), '
         'io::{stream_to_string,read_chars,get,peek,extract,read}, filesystem::*, options::impl::{is_flag,next_arg}, '
         'options::{parse,parse_help} on 13 parser shapes, parse::{parse_string,phrase_parse_string,grammar_parse_string,'
         'phrase_parse_stream} on fixed grammars incl. JSON). Workload: every value of the 8/16-bit instantiations (all pairs of '
         '8-bit operands; 16-bit pairs on lattice^2, thorough: full range x lattice), boundary lattice {0,+-1,2^k,2^k+-1,min,'
         'min+1,max-1,max} plus seeded random values for 32/64 bit; containers of size 0-4 with every index in [0,size+2] and '
         'indices at the top of size_type; the string lattice (empty, one char, digits, sign only, surrounding whitespace, '
         'overflow-length digit strings, embedded NUL) with string_views over exactly sized heap buffers; the path lattice under '
         'a per-run scratch fixture; all argument vectors of length <= 3 (thorough 4) over a 15-token alphabet; stream doubles '
         'that report EOF / throw from underflow after every position k, seekable or not, with the caller\'s exceptions() off '
         '(judged: nothing may escape) and exceptions(badbit) on (ios_base::failure and the injected type whitelisted). '
         'Oracle: sanitizer/assertion/watchdog silence plus a classifying catch(...) against the per-entry exception whitelist; '
         'returned references/iterators must point into the container. evaluations counts single library calls (or call scripts '
         'on one stream); a distinct case is one (entry, input) or one (entry, row/chunk of operands), hashed canonically.'
         ' Memory helpers: endianness::reverse_mem on every block length 0..17 over exactly sized buffers; raw_vector push_back / insert / insert(n) / resize with every own element as the value, at and below capacity.'
         ' phrase_parse_stream over streams handed over with eofbit, failbit, badbit or eofbit|failbit already set: returns an either.'
         ' io::widen_string objects made from a temporary / a destroyed local and streamed afterwards.'
         ' time::localtime / time::gmtime from four threads at once, 150000 calls each, against the re-entrant C functions.',
    assumptions=COMMON_ASSUMPTIONS + [
        'side conditions taken from the statement ("whose mathematically exact result is representable", "not documented as '
        'unsafe"): inputs whose 128-bit exact result does not fit the return type are skipped and counted (ceil_div_signed/div '
        'min/-1, next_power_of_2(x > 2^(N-1)), power_of_2(e >= digits), signed diff overflow, interval_distance when the result '
        'or one of the quantities of its documented definition overflows); log2(0) is documented as undefined; '
        'filesystem::strip_prefix, every *_unsafe function and cast::to_signed/to_unsigned/size are not in the registry',
        'whitelisted exceptions: std::runtime_error for widen/widen_locale (documented), fcppt::options::exception (incl. '
        'duplicate_names) for ill-formed parser definitions only; std::ios_base::failure and the injected fault type only when '
        'the caller switched exceptions(badbit) on',
        'inputs are small (strings <= 5000 chars, JSON nesting <= 40): resource exhaustion (bad_alloc, stack depth) is not explored',
        'the fault-injecting stream buffers are self-tested against std::basic_stringbuf on fault-free input in every process',
    ],
    exhaustive_spaces=[
        'every value of every 8/16-bit instantiation of the unary functions and of all 32 truncation_check pairs with an 8/16-bit source',
        'all pairs of 8-bit operands for div/mod/diff; all well-formed interval pairs over the 13-point lattice',
        'container sizes 0-4 x every index in [0,size+2]; grids {0..3}^N x positions ([0,size+2] u top-of-size_type)^N, N=1,2,3',
        'all argument vectors of length <= 3 (thorough: <= 4) over the 15-token alphabet for every parser shape',
        'every fault position k in [0,len] x {eof,throw} x {seekable,not} x {exceptions off, badbit} for every io entry and text',
    ],
))
