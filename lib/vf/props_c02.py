import os
import sys

from vf.driver import Harness, Prop, VERIF
from vf.props import reg, COMMON_ASSUMPTIONS


def _gen_static(outdir):
    sys.path.insert(0, os.path.join(VERIF, 'harness', 'gen'))
    import c02_fixtures
    return c02_fixtures.generate(outdir)


reg(Prop(
    'C02',
    [Harness('c02_peg', parts=16, slices=11, thorough_cfg='asan1'),
     # thorough only: the quick workload without sanitizer instrumentation under valgrind memcheck (libstdc++.so -
     # iostream, locale, codecvt, the extern-template std::string members - is not ASan-instrumented)
     Harness('c02_peg_memcheck', src=['c02_peg.cpp'], cfg='plain', runner='valgrind', tiers=('thorough',), parts=16,
             slices=11, run_tier='quick', alarm=900),
     # naturally typed grammars (compile-time result plumbing); -g1: line tables only, the TUs are template heavy
     Harness('c02_static', parts=16, gen=_gen_static, extra_flags='-g1')],
    rule='A case is one seeded random well-formed grammar (1-2 mutually recursive rules, depth <= 4 quick / 5 thorough, built at run time '
         'from the real combinators: literal, char_set, complement, char_, string, epsilon, fail, int_<short/int/long>, uint, float_, sequence, '
         'alternative, repetition, repetition_plus, optional, not_, fatal, lexeme, separator, list, convert, convert_if, construct, ignore, '
         'convert_const, named, recursion through base/grammar) for one of 11 (character type, skipper) worlds (char x 7 skippers, wchar_t x 4). '
         'Every grammar is run on all strings over its own alphabet (ab,x space, plus _ 1 - . where relevant) up to the length that fits the '
         'per-grammar budget, plus strings sampled from the grammar and their mutations (insert/delete/replace/truncate/skipper-fill). '
         'evaluations counts (grammar,input) pairs; success/failure, the value (S-expression) and the fatal flag of phrase_parse_string / '
         'grammar_parse_string are compared with an independent PEG interpreter; every 4th pair is also run through phrase_parse on a recording '
         'basic_stream (rewind protocol, final offset). distinct = hash of (grammar text, input). '
         'Second harness c02_static (naturally typed grammars): 92 fixtures written with the natural operators and unerased result types '
         '(harness/gen/c02_fixtures.py emits, from one description each, the real C++ expression and the AST of the same grammar): sequences of 2-5 '
         'parts with unit parsers in every position, left/right nested sequences, sequences of mixed result types, alternatives of 2-4 branches with '
         'equal / different / convertible / repeated result types and variants on either side, alternatives inside sequences and vice versa, '
         'repetition/optional/separator/list of tuples, units and variants, as_struct (aggregates of 2-5 fields, a class with a constructor, nested), '
         'construct, convert/convert_if on tuples, ignore, convert_const, named, recursive, lexeme, fatal, fail, make_base, the char-only aliases, '
         'and 5 grammar classes with typed (mutually) recursive rules incl. examples/parse/grammar.cpp and the JSON grammar of test/parse/json.cpp; '
         'each in 1-2 of 10 worlds (char/wchar_t x skippers epsilon, space, char_set, *literal, *char_set>>epsilon). A case is one (fixture, world, '
         'input): all token strings over the fixture alphabet (plus skipper characters) up to the length that fits 2500 (quick) / 40000 (thorough), '
         'random longer strings, hand-written positive samples with every skipper filling, seeded random derivations of the grammar, and the 1-edit '
         'neighbours of both. The REAL result of parse_string / phrase_parse_string / grammar_parse_string is printed by a generic printer (unit, '
         'characters, numbers, strings, tuple, variant with index, optional, vector, recursive, map, user structs); the reference interpreter applies the '
         'PEG semantics plus the documented result-type rules (sequence_result.hpp, alternative_result.hpp, repetition_result.hpp, parse.doxygen) and '
         'prints the same canonical form; success/failure, canonical value, fatal flag and the spelled-out result type are compared.'
         ' as_struct<std::vector<int>> over two ints: the documented list-initialisation Result{t_1,t_2} (two elements).'
         ' A user-defined skipper (derived from skipper::tag) whose unclosed comment is a FATAL error, used as *skipper: ten inputs, the parse fails where the documented semantics fail.'
         ' phrase_parse_stream on streams that were already read from (a header line consumed with getline): same outcome as the grammar on the remaining text.',
    assumptions=COMMON_ASSUMPTIONS + [
        'generated grammars are well-formed by construction (no left recursion, no repetition of a nullable parser)',
        'adopted implementation choices that the documentation leaves open: int_/uint/float_ accept only magnitudes that fit the type; a repetition keeps an element only if the skipper after it succeeded; error texts are not compared (C12 owns locations)',
        'c02_static, result-type rules that the documentation leaves open are adopted from the implementation and not judged: an alternative removes duplicate result types keeping the first occurrence (char|int|char is variant<char,int>; the overview only states that variant<digit,...,digit> is simplified to digit); separator accepts the empty sequence, i.e. it is -(inner >> *(sep >> inner)), and always yields std::vector (also of characters); repetition_plus of a parser whose result is a tuple or unit does not compile and is therefore not exercised; float values are compared bit-exactly against strtod of the matched text'],
))
