import os
import sys

from vf.driver import Harness, Prop, VERIF
from vf.props import reg, COMMON_ASSUMPTIONS


def _gen_static(outdir):
    sys.path.insert(0, os.path.join(VERIF, 'harness', 'gen'))
    import c02_fixtures
    return c02_fixtures.generate(outdir)


reg(Prop(
    'C02',
    [Harness('c02_peg', parts=16, slices=11, thorough_cfg='asan1'),
     # naturally typed grammars (compile-time result plumbing); -g1: line tables only, the TUs are template heavy
     Harness('c02_static', parts=16, gen=_gen_static, extra_flags='-g1')],
    rule='A case is one seeded random well-formed grammar (1-2 mutually recursive rules, depth <= 4 quick / 5 thorough, built at run time '
         'from the real combinators: literal, char_set, complement, char_, string, epsilon, fail, int_<short/int/long>, uint, float_, sequence, '
         'alternative, repetition, repetition_plus, optional, not_, fatal, lexeme, separator, list, convert, convert_if, construct, ignore, '
         'convert_const, named, recursion through base/grammar) for one of 11 (character type, skipper) worlds (char x 7 skippers, wchar_t x 4). '
         'Every grammar is run on all strings over its own alphabet (ab,x space, plus _ 1 - . where relevant) up to the length that fits the '
         'per-grammar budget, plus strings sampled from the grammar and their mutations (insert/delete/replace/truncate/skipper-fill). '
         'evaluations counts (grammar,input) pairs; success/failure, the value (S-expression) and the fatal flag of phrase_parse_string / '
         'grammar_parse_string are compared with an independent PEG interpreter; every 4th pair is also run through phrase_parse on a recording '
         'basic_stream (rewind protocol, final offset). distinct = hash of (grammar text, input).',
    assumptions=COMMON_ASSUMPTIONS + [
        'generated grammars are well-formed by construction (no left recursion, no repetition of a nullable parser)',
        'adopted implementation choices that the documentation leaves open: int_/uint/float_ accept only magnitudes that fit the type; a repetition keeps an element only if the skipper after it succeeded; error texts are not compared (C12 owns locations)'],
))
