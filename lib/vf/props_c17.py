from vf.driver import Harness, Prop
from vf.props import reg, COMMON_ASSUMPTIONS

reg(Prop(
    'C17',
    [Harness('c17_coherence', parts=16, slices=6, thorough_cfg='asan1')],
    rule='Part A (transparency): every strong_typedef operator (+ - * unary- & | ^ ~ += -= *= &= |= ^= ++x x++ --x x-- '
         '< <= > >= == !=) is applied to wrapped operands and compared with the same operator on the underlying values: '
         'int over all pairs of [-128,127]^2, wrap-around boundary values of unsigned/uint8_t/uint16_t/uint64_t (0,1,..,max, '
         'max/2, bit patterns; all pairs), a probe type whose operators are unrelated tables (a forwarded other operator or '
         'swapped operands give another result), std::string; reference/recursive/unique_ptr/shared_ptr/type_iso are checked to '
         'expose exactly the wrapped object (addresses owned by the harness) or value. '
         'Part B (coherence): for each listed value type a family = every value with components in {0,1,2} (thorough: {0,1,2,3}), '
         'each reached through several histories (construction, assignment over a different value/alternative, the type\'s own '
         'operators incl. bitfield ~, views vs. static storage, capacities ...). Every operator the type offers (a static_assert '
         'ties the harness table to what the compiler finds) is evaluated on all ordered pairs of the family into relation '
         'matrices; == is judged against equality of the components read back through the public accessors, and for '
         'reflexivity/symmetry/transitivity; != against !(==); < for irreflexivity, asymmetry, transitivity (also of '
         'incomparability), trichotomy with ==, and against the documented (lexicographic) order where the header documents '
         'one; <= > >= against <; hash(x)==hash(y) for all x==y, for every hash object of the type. Triples are checked '
         'exhaustively on the matrices. A case for the distinct count is one row (family, value, history) or one left operand '
         'of the strong_typedef operator tables; evaluations counts single operator/hash/accessor calls judged.'
         ' recursive<T>: copy and move assignment to a moved-from wrapper, std::vector<recursive<T>> insert(n copies) / erase / copy assignment.'
         ' vector<key-tag,3> and dim<key-tag,3> over an element type whose == is finer than its <: agreement with the documented lexicographic comparison and the strict-weak-order axioms over all 64 values.'
         ' tree<int>: every family value attached at depth 1 and 2 of a host tree against every standalone value (== looks below the two nodes, not at where they hang).'
         ' recursive<double> holding NaN: self comparison, alias, copy, inside a std::vector.'
         ' recursive / make_recursive / make_unique_ptr over a JSON-like type that is constructible from an initializer_list of itself.',
    assumptions=COMMON_ASSUMPTIONS + [
        'strong_typedef<uint8_t/uint16_t> arithmetic is accepted by gcc with -Wnarrowing warnings; the expected value is the underlying result converted to the underlying type',
        'operands for which the underlying operator itself is undefined (uint16_t*uint16_t overflowing int) are skipped and counted',
        'only operators that compile are judged: vector/dim operator< between different storage types, bitfield(no_init) and record(no_init) do not compile in this tree and are outside the property',
        'the order of raw_vector operator< is not documented: only the order axioms are judged there, agreement with the lexicographic order is observed',
        'a hash function that maps different values to one hash does not contradict the statement; the number of distinct hashes per family is reported as an observation only',
    ],
    exhaustive_spaces=[
        'all pairs of [-128,127]^2 for every strong_typedef<int> operator; all pairs of the boundary value sets for unsigned/u8/u16/u64',
        'all ordered pairs and all triples of every family listed in the harness registry (all values with components in {0,1,2} for '
        'optional, either, variant, tuple, array, record (also permuted label order), strong_typedef, vector, dim, matrix, box, sphere, '
        'enum array, grid (extents 0-2), tree (<= 4 nodes), raw_vector (length <= 3), bitfield over 3/5-enumerator enums; reference and '
        'shared_ptr over 6-10 object identities)',
        'thorough: the same with components in {0,1,2,3}, trees with <= 5 nodes, raw_vector length <= 4, all 512/256 subsets for the 9/8-enumerator bitfields, all pairs of uint8_t for the strong_typedef operators',
    ],
))
