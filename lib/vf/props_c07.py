from vf.driver import Harness, Prop
from vf.props import reg, COMMON_ASSUMPTIONS

reg(Prop(
    'C07',
    [Harness('c07_rawvec', parts=16, thorough_cfg='asan1'),
     # thorough only: the same harness without sanitizer instrumentation under valgrind memcheck (uninitialised reads and
     # leaks that ASan's red zones do not see), on a reduced number of histories
     Harness('c07_rawvec_memcheck', src=['c07_rawvec.cpp'], cfg='plain', runner='valgrind', tiers=('thorough',), parts=16, args=['--small']),
     # thorough only: the same history runners driven by clang libFuzzer (coverage-guided byte strings instead of the PRNG),
     # 16 independent fuzzers bounded by executions
     Harness('c07_rawvec_fuzz', src=['c07_rawvec.cpp'], cfg='fuzz', runner='libfuzzer', tiers=('thorough',), parts=16, libs=(),
             fuzz_runs=100000)],
    rule='A case is one seeded operation history (up to 41 steps quick / 61 thorough) on a raw_vector<T, ledger allocator> '
         '(T = int, unsigned char, a 24-byte trivial struct) starting from one of 7 constructors, or on a buffer<T>, or one '
         '(length,count) pair for io::read_chars. After every step the real container is compared with a shadow std::vector '
         '(size, contents through every accessor, returned iterator offsets, capacity >= size); at the end of every history the '
         'allocator ledger must be balanced. In one step of eight the ledger allocator fails the first or second allocation (std::bad_alloc): '
         'the vector must then be what it was before the call (for a single-pass input range: the elements inserted before the failure stay, as '
         'in std::vector); likewise buffer::resize_write_area. read_from/read_from_opt (all sizes 0..12 x written 0..size) and dynamic_array (sizes 0..40) are judged too. Positions/counts are always valid for the current size; aliasing arguments refer '
         'to elements before/at/after the position. distinct = hash of the full operation history text.'
         ' The raw_vector histories also run over an allocator whose pointer is a class type (fancy pointer).'
         ' The two buffers of a buffer history live on different arenas (allocator instances that do not compare equal): swap, move assignment and the conversion to raw_vector return every block to the arena it came from.',
    assumptions=COMMON_ASSUMPTIONS + [
        'side conditions as for std::vector: valid positions, inserted ranges do not alias the vector, pop_back needs size > 0; the contents of a moved-from vector are unspecified (the shadow takes over what it reports) but it must be usable: histories continue on moved-from objects',
        'std::vector is the reference for contents and iterator offsets'],
    exhaustive_spaces=['io::read_chars: all (stream length 0..9, count 0..length+2)', 'buffer::read_from/read_from_opt: all (size 0..12, written 0..size)'],
))
