import os
import sys

from vf.driver import Harness, Prop, VERIF
from vf.props import reg, COMMON_ASSUMPTIONS


def _gen(outdir):
    sys.path.insert(0, os.path.join(VERIF, 'harness', 'gen'))
    import c03_shapes
    return c03_shapes.generate(outdir)


reg(Prop(
    'C03',
    [Harness('c03_options', libs=('options', 'core'), parts=16, gen=_gen, thorough_cfg='asan1'),
     # thorough only: the quick workload without sanitizer instrumentation under valgrind memcheck (libstdc++.so -
     # iostream, locale, codecvt, the extern-template std::string members - is not ASan-instrumented)
     Harness('c03_options_memcheck', src=['c03_options.cpp'], libs=('options', 'core'), cfg='plain', runner='valgrind',
             tiers=('thorough',), parts=16, gen=_gen, run_tier='quick', alarm=900)],
    rule='A case is one (parser shape, argument vector) pair. 48 parser shapes are generated from one description each (harness/gen/c03_shapes.py '
         'emits both the real fcppt.options expression and the shape description): every leaf (argument, switch, flag, option, unit, unit_switch) '
         'with value types int/unsigned/std::string/enum, products in both orders, optional/many over leaves, products and sums, sums of products, '
         'commands with common options, type-erased (make_base) and by-reference (make_cref) sub-parsers. Argument vectors: all vectors up to '
         'length 3 (quick) / 5 (thorough, regularly sampled beyond 400000 per length) over the shape\'s own flag/option spellings, command names and '
         '-x --zz - -- 7 -3 w (red), plus seeded random vectors of length 4-9; the help wrapper (parse_help) on the short vectors and on vectors with '
         '--help injected. Judged: success/failure and the canonical record against the reference interpreter; on success the tokens accounted for '
         'by the returned record must equal the vector length; well-formed definitions construct, ill-formed ones throw options::exception. '
         'distinct = hash of (shape, vector).'
         ' Every shape first builds a decoy twin of the same static type with other run-time names and parses with it once (state the library keeps per parser type instead of per object is then wrong for the judged parser). Two sum shapes use the same letters as a long option name and as a short flag name.'
         ' Flags with double values whose two values print alike (0.1 + 0.2 and 0.3): a well-formed definition must be constructible.'
         ' A strictly typed many() with a laxer positional consumer to its right (three shapes): a token the typed argument cannot convert is a hard error of that round.'
         ' A type-erased (make_base) parser holding a positional next to a value-taking option outside of it, both orders.',
    assumptions=COMMON_ASSUMPTIONS + [
        'choices the documentation leaves open are adopted from the implementation and not judged: the long spelling is looked up before the short one, the first occurrence of a spelling is the one consumed, every token beginning with - is flag-like (never positional), an option\'s value is whatever token follows its name',
        'leaf conversion of a token is fcppt::extract_from_string in both worlds (judged by C15/C01)',
        'option defaults (42, "dflt") are outside the token alphabet, so "option given" is decidable from the record'],
))
