from vf.driver import Harness, Prop
from vf.props import reg, COMMON_ASSUMPTIONS

reg(Prop(
    'C16',
    [Harness('c16_algo', parts=16, slices=18)],
    rule='One case = (function entry, source kind, input): every sequence over {0,1,2} up to length 6 (quick) / 7 (thorough) is '
         'enumerated and fed through std::vector/list/deque/forward_list/set/multiset/map, a single-pass input range and an unsized '
         'random-access iterator range (all lengths), std::array/fcppt::array (lengths 0..6), fcppt::tuple (0..5), eight fixed '
         'mpl lists, and fcppt int ranges [b,e) for b,e in [-1,4] / enum ranges over a 3-enumerator enum. Inside a case the '
         'function is called with all 8 predicates / 27 maps / 64 partial maps / 5 equivalence relations over the 3-element '
         'domain, every break position, every subset of positions to erase (map_iteration, sequence_iteration), every probe '
         'value -1..4; each call logs the elements it is handed and is compared with a plain loop written from the '
         'documentation (result, final container state, visit order, stop position where documented). Strings: all strings over '
         '{a,b,delimiter} up to length 7 (quick) / 8 (thorough) for split_string and join_strings(split_string(s)) == s, plus all '
         'field lists over {"","a","b,",","} up to 4 (5) fields with delimiters of length 0,1,2. set_union/intersection/'
         'difference: all pairs of subsets of a 5 (6) element universe. evaluations counts judged library calls; distinct = hash of '
         '(entry, source kind, input). Functions that are anchored but not named by the statement are only observed.'
         ' sequence_iteration with an action that throws at its t-th call (every removal mask): state afterwards as the erase-as-you-go loop leaves it. container::join over sets with stateful / function-pointer comparators. int_range over signed char / unsigned char / short with more elements than the type holds through map (vector, deque), map_optional, map_concat, fold, loop.'
         ' Single-pass input ranges: std::istream_iterator (loop, fold, map, contains_if) and a shared-queue iterator (loop_break, fold_break: visits, value, and what is left in the source after the break).'
         ' join over std::list<std::any> and std::vector<std::any> (lvalue operands).'
         ' map_iteration_second with an action that writes through the reference it is given.'
         ' fold_break whose step hands the state back by reference (std::pair<loop, State &&>); map_optional / map_concat into a vector from istream_iterator and shared-queue ranges.',
    assumptions=COMMON_ASSUMPTIONS + [
        'unique/unique_if are judged against the adjacent-duplicates reading (std::unique) with the 5 equivalence relations over {0,1,2}; arbitrary relations are observed only',
        'binary_search/equal_range are judged on inputs that are partitioned with respect to the probe value (every sorted input is); other inputs are skipped and counted',
        'where a function does not document where it stops (all_of, contains_if, find_if_opt, find_by_opt) the visit log is only required to be an in-order prefix that justifies the result; the exact stop is observed',
        'only the value categories that compile are exercised: array::append/join/push_back need an rvalue first operand, tuple::concat needs rvalue operands',
    ],
    exhaustive_spaces=[
        'all sequences over {0,1,2} of length <= 6 (quick) / 7 (thorough) for every dynamic source kind; length <= 6 for std::array/fcppt::array, <= 5 for tuples',
        'all 8 predicates, 27 maps, 64 partial maps, 5 equivalence relations over {0,1,2}; all break positions; all erase subsets',
        'all strings over {a,b,delimiter} of length <= 7 (quick) / 8 (thorough)',
        'all pairs of subsets of {0..4} (quick) / {0..5} (thorough) for the set operations',
        'all int ranges [b,e) with b,e in [-1,4] (int), [0,4] (unsigned), counts 0..6; all enum ranges of a 3-enumerator enum',
    ],
))
