from vf.driver import Harness, Prop
from vf.props import reg, COMMON_ASSUMPTIONS

reg(Prop(
    'C14',
    [Harness('c14_linalg', parts=16, slices=11, thorough_cfg='asan1')],
    rule='Operands are built as plain nested arrays of long long and handed to the library in every registered storage '
         'variant (static storage, a view over a foreign row-major array, rows of a static / of a view matrix as vectors, '
         'a byte view with proxy references for element access). Every library result is read back element by element '
         'from its storage and compared with the plain-array model (component-wise loops, triple-loop product, Leibniz '
         'permutation sum for the determinant, cofactors by skipping a row and a column); the ring/module identities '
         '((AB)C=A(BC), A(B+C)=AB+AC, (A+B)C=AC+BC, (AB)^T=B^T A^T, (A^T)^T=A, det(AB)=det A det B, det A^T=det A, '
         'A adj(A)=adj(A) A=det(A) I, A(u+v)=Au+Av, (AB)u=A(Bu), dot/cross identities) are judged on the library results '
         'themselves. Space: all 256 2x2 int matrices over {-1,0,1,2}: every matrix alone, every ordered pair in all four '
         'storage combinations, triples (3 seeded C per (A,B) in quick, all 16.7M in thorough), every matrix with all '
         '16x16 vector pairs; 10^4/10^6 seeded random cases for each of 3x3 int, 4x4 long (algebra and product entries), '
         'vector<int,1..4> and dim<int,1..4> with entries in [-9,9] (mixture: uniform, sparse, singular, symmetric, '
         'triangular, signed permutation, small entries; second operands are often a one-component perturbation or a copy '
         'of the first so that == and < see near misses); dimension-1 vectors/dims all 19^2 pairs in every storage '
         'combination, dimension 2 all u with 24 seeded v (quick) or all 361^2 pairs (thorough); translation/scaling for '
         'all (x,y,z) in [-9,9]^3. evaluations counts cases (one operand tuple under one storage combination; rows of the '
         'exhaustive enumerations count every tuple); judged/model-comparisons and judged/identities count single judged '
         'comparisons. A case is distinct by the hash of (entry, operands, storage configuration).'
         ' Instantiation with the heap-backed scalar vf::heavy (matrices 2x2, 3x3, vectors, dims); rows passed as named non-const lvalues twice. Nine rectangular shapes (1x3 ... 5x2): identity, init, transpose, sums, products between compatible shapes, matrix * vector, comparison.'
         ' A non-commutative exact scalar (upper triangular 2x2 integer matrices): s * M, M * s, s * v, v * s, A * B, A * v element by element with the factors in the documented order.'
         ' A trivially copyable padding-free scalar whose == is coarser than byte equality (unreduced residues mod 7): == / != of vector, dim, matrix and (A+B)*s == A*s+B*s.'
         ' vector (+ - *) dim with different value types (long/unsigned, size_t/unsigned, int/short, long/int): per component in the usual arithmetic conversion.'
         ' vector / dim / matrix init with functions that have state (an input iterator, a counter): called for index 0, 1, 2, ... (row-major).',
    assumptions=COMMON_ASSUMPTIONS + [
        'matrices are row-major (documented): element (r,c) is element r*C+c of the storage; results are read back through storage()[i]',
        'entries in [-9,9] (2x2: {-1,0,1,2}); scalar types int (2x2, 3x3, vectors, dims) and long (4x4) so that no product or determinant overflows; UBSan would report an overflow as a violation',
        'only square matrices are instantiated (the quantifier names 2x2, 3x3, 4x4); 3xN matrices only serve as hosts for row views',
        'storages with proxy references (raw_view) are exercised only through element access, same-type copy, assignment and ==; '
        'arithmetic on them is outside the documented storage interface (linear_access returns value_type&) and is not executed',
        'ordering comparisons need both operands of the same type (array_less is declared that way), so <,>,<=,>= are judged for static/static, view/view and row/row pairs',
        'operator/, vector (+-*) dim, to_vector/to_dim, map, bit_strings, inverse (unimodular matrices only) are observed, not judged',
    ],
    exhaustive_spaces=[
        'all 256 2x2 int matrices over {-1,0,1,2}: unary laws in both storages, all 65536 ordered pairs in all 4 storage combinations',
        'all 256 x 16 x 16 (matrix, vector, vector) combinations over {-1,0,1,2} for the matrix-vector laws',
        'thorough: all 256^3 triples of 2x2 matrices over {-1,0,1,2} for associativity and distributivity',
        'all pairs of 1-dimensional vectors/dims over [-9,9] in every storage combination; thorough: all pairs of 2-dimensional ones',
        'translation/scaling builders for all (x,y,z) in [-9,9]^3',
    ],
))
