from vf.driver import Harness, Prop
from vf.props import reg, COMMON_ASSUMPTIONS

reg(Prop(
    'C11',
    [Harness('c11_intrusive', parts=16, thorough_cfg='asan1'),
     # thorough only: the same harness without sanitizer instrumentation under valgrind memcheck (uninitialised reads and
     # leaks that ASan's red zones do not see), on a reduced number of histories
     Harness('c11_intrusive_memcheck', src=['c11_intrusive.cpp'], cfg='plain', runner='valgrind', tiers=('thorough',), parts=16, args=['--small']),
     # thorough only: the same history runners driven by clang libFuzzer (coverage-guided byte strings instead of the PRNG)
     Harness('c11_intrusive_fuzz', src=['c11_intrusive.cpp'], cfg='fuzz', runner='libfuzzer', tiers=('thorough',), parts=16, libs=(), fuzz_runs=400000)],
    rule='A case is one seeded history of up to 50 steps (plus a random-order teardown) over 3 individually heap-allocated '
         'intrusive lists and 8 elements (create in list, destroy, unlink, element move construction/assignment between linked and '
         'unlinked elements of the same or different lists incl. adjacent ones, list move construction/assignment from/to empty and '
         'non-empty lists, destruction of a list before its elements), or over 3 signals and 8 connections for object<void(int)>, '
         'object<int(int)> (non-commutative combiner) and their unregister::base variants (connect, drop, call, signal move '
         'construction/assignment with live connections, destruction before connections). After every step every live list is iterated '
         'forward (mutable and const) and backward and compared with the model; every usable signal is called and the logged callback '
         'sequence, the folded result and the per-connection unregister counters are compared. distinct = hash of the history text.'
         ' By-value class-type arguments: signals taking std::string / shared_ptr<int> / a heap-backed number by value, callbacks that move their parameter on, lvalue and rvalue call arguments; every callback sees the call\'s argument, the result is the left fold.'
         ' Callbacks with an inner call counter (the signal invokes the callback object the connection owns, not a copy).'
         ' Scopes holding 1-3 connections of an unregister signal that are left by an exception (and normally, as the control): unregister callbacks ran exactly once, membership afterwards.',
    assumptions=COMMON_ASSUMPTIONS + [
        'model: a list move assignment drops the target\'s previous members from every list; elements of a destroyed list are in no list; moving from an unlinked element yields an unlinked element',
        'side condition: a moved-from signal object is only destroyed or assigned to (its combiner is moved-from)'],
))
