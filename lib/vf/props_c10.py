from vf.driver import Harness, Prop
from vf.props import reg, COMMON_ASSUMPTIONS

reg(Prop(
    'C10',
    [Harness('c10_bitfield', parts=16, slices=6, thorough_cfg='asan1')],
    rule='Configurations: enums with 1, 3, 8, 9, 17 enumerators x storage words u8/u16/u32/u64 (20 core configurations) '
         'plus extras (other underlying enum types, 16/33/65 enumerators, the default word type). Model of a bitfield = '
         'integer mask restricted to the enum size; the canonical real bitfield of a set is built by set() on null(). '
         'Per configuration four entries: construct (every subset for <= 9 enumerators, thorough: every subset for 16/17, '
         'otherwise seeded subsets; each built in 13 different ways: set ascending/descending, initializer lists with '
         'permutations and duplicates, init, clearing from the full set, operator[] assignment, |= / | with elements, '
         '~ of the complement, ~~, ^ with the full set, &= ~, | of two halves), pairs (all ordered pairs of subsets for '
         '<= 9 enumerators, seeded rows of 256 right operands incl. equal/complement/sub-/superset/one-apart for larger '
         'enums; | & ^ |= &= ^= ~ and a & ~b, is_subset_eq both ways, == and != both ways, hash for equal sets), trees '
         '(random expression trees over | & ^ ~, assigning and non-assigning forms, literals built in the 13 ways, up to '
         '6 operator levels, every intermediate result judged) and history (48 mutating steps on one bitfield, judged '
         'after every step). Every judged result is compared through get() on every enumerator and through ==, != and '
         'hash with the canonical bitfield of the expected set; a result that failed is not fed into further judged '
         'operations (attribution to the first diverging operation). evaluations = judged results; a case for the distinct '
         'count is one subset, one row (left operand, right operand set), one tree (its expression text) or one history '
         '(its step sequence), hashed canonically.'
         ' A 300-enumerator enum in 8-, 32- and 64-bit words against std::bitset (set/get, init, ~, |, &, ^, ==, hash, is_subset_eq; members k and k+256).'
         ' A construction route through object(array_type const &) from the storage array of another bitfield.'
         ' A construction route that passes truth values other than 0/1 (masked flag words) to set and operator[]=.',
    assumptions=COMMON_ASSUMPTIONS + [
        'enumerators are the values 0..size-1 of an enum that follows the fcppt.enum convention (fcppt_maximum)',
        'std::hash specialisation, underlying_value, the array constructor/accessor, proxy-to-proxy assignment and hash '
        'collisions between different sets are observed only, not judged',
    ],
    exhaustive_spaces=[
        'all ordered pairs of subsets of enums with 1, 3, 8 and 9 enumerators for each of the word types u8/u16/u32/u64 '
        '(and e9 over uint8_t with u8/u32 words), every operator and relation',
        'all subsets of enums with 1, 3, 8, 9 enumerators x 13 construction paths; thorough: all subsets for 16 and 17 enumerators',
    ],
))
