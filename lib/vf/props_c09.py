from vf.driver import Harness, Prop
from vf.props import reg, COMMON_ASSUMPTIONS

reg(Prop(
    'C09',
    [Harness('c09_tree', parts=16, thorough_cfg='asan1'),
     # thorough only: the same harness without sanitizer instrumentation under valgrind memcheck (uninitialised reads and
     # leaks that ASan's red zones do not see), on a reduced number of histories
     Harness('c09_tree_memcheck', src=['c09_tree.cpp'], cfg='plain', runner='valgrind', tiers=('thorough',), parts=16, args=['--small']),
     # thorough only: the same history runners driven by clang libFuzzer (coverage-guided byte strings instead of the PRNG)
     Harness('c09_tree_fuzz', src=['c09_tree.cpp'], cfg='fuzz', runner='libfuzzer', tiers=('thorough',), parts=16, libs=(), fuzz_runs=20000)],
    rule='A case is one seeded history of up to 40 operations over a forest of 4 individually heap-allocated tree::object<int> roots '
         '(push/pop front/back with values and subtrees, insert, erase position/range, release (+re-attach), clear, sort, value, member and '
         'free swap, copy/move construction from any node, copy/move assignment between any two nodes; operands are chosen among all '
         'current nodes, roots and inner nodes). After every step the whole forest is compared with a back-link-free reference forest: '
         'serialisation, &child.parent()==&node for every node, roots without parent, depth, pre_order (const and mutable), to_root and '
         'level from every node, child_position of every child, front/back/size/empty/reverse iteration, tree::map, ==/!= between all roots. '
         'A second family of histories (tree-fault-history) uses a value type whose k-th copy after arming throws (there is no cheaper move): 14 operations '
         '(push/insert value, swap, copy/move assign, copy/move construct, release, pop_back, push_back of a copied subtree, sort with a throwing '
         'predicate, value(), map) end in an exception in about half of the steps; after every step - thrown or not - every child must point at the '
         'node listing it, roots have no parent and the number of nodes reachable from the roots equals the number of live values. '
         'distinct = hash of the full operation history text.'
         ' pre_order iterators: a copy taken at every position is walked to the end, the original continues, saved positions stay valid. child_position is identity: a free-standing deep copy of a child is not found, deep-equal siblings are found at their own positions.'
         ' tree::map with a numbering function: the plain recursive model (node, then children left to right) numbers in pre-order.'
         ' tree<double> with NaN values at every depth: == is the conjunction of the value comparisons and != its negation, also for a tree compared with itself.'
         ' push_back / push_front of a node that is still attached to another root (moved from in place): the moved-from node keeps its parent link while it is listed.',
    assumptions=COMMON_ASSUMPTIONS + [
        'tree::map applies its function to a node before its children and to the children from left to right (what the recursive definition with a braced initializer evaluates; it decides the result only for functions with state)',
        'side condition: swap is only applied to operands that are distinct and not in an ancestor/descendant relation; move assignment to unrelated operands and to a target whose strict descendant is the source (hoisting), never from an ancestor (that would make a node its own child); copy assignment is applied to any two distinct nodes',
        'node payloads are unique ints (copies are relabelled in both worlds), so the pre-order id sequence identifies the shape'],
))
