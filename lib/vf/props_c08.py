from vf.driver import Harness, Prop
from vf.props import reg, COMMON_ASSUMPTIONS

reg(Prop(
    'C08',
    [Harness('c08_grid', parts=16, slices=3)],
    rule='Oracle: literal nested for-loops over std::array<long long,N> (x fastest) and a std::map<position,index> as grid '
         'model. For N in {1,2,3} and every size with extents in 0..E (E=4 in quick = the quantifier of the property; E=5 in '
         'thorough): offset<u8/u32/u64> of every in-range position against the running index of the model enumeration '
         '(row-major, injective, inside [0,content)); math::dim::contents/content(); object(size,function) call set, storage '
         'order, object(size,value); at_optional (mutable and const) for every position of [-1,E+1]^N with -1 as unsigned wrap '
         '(presence, identity of the referenced cell, value); make_pos_range of every size (set, multiplicity, order, size()); '
         'pos_range<u8/u32/u64> for all (min,sup) with components in 0..E+1 (set, multiplicity, size(); iteration capped at '
         'expected+600 steps -> "runaway"); pos_ref_range and pos_ref_crange for every in-grid (min,sup) of every size '
         '(positions, address of the referenced cell, writes through the mutable references land exactly in the box) and for '
         'the whole grid (order judged); signed (min,sup) from [-1,E+1]^N clamped with clamped_min/clamped_sup_signed and '
         'iterated with pos_ref_crange (all pairs for N<=2 and in thorough, 20000 seeded pairs per size for N=3 in quick); '
         'clamped_min<i8,i32,i64>, clamped_sup<u8,u32,u64>, clamped_sup_signed on a lattice {min,min+1,-2..6,max-1,max}^N x every '
         'size; fill, map (lvalue/rvalue), apply with 1-3 grids of equal size and with unequal sizes (neighbouring sizes, '
         'reversed extents = same content, null) -> empty grid; resize (lvalue and rvalue) between all pairs of sizes, cell by '
         'cell. Result grids are read through their storage iterators (k-th element = k-th model position) and through '
         'at_optional. evaluations = judged library results (one range, one clamp call, one at_optional, one result grid ...); '
         'a case for the distinct count is one (entry, size[, min]) batch, hashed canonically. Callbacks given to the library '
         'carry a call budget (cells+600) so that a non-terminating range inside the library is a classified violation.'
         ' Interrupted assignments: copy assignment between all small sizes with a cell type whose k-th copy throws, for every k; afterwards the target is a consistent grid (content() = product of size() = stored cells, every in-range position dereferenceable).'
         ' fill with a function that reads the grid being filled: a running number computed from the cell before (in storage order) must come out as 1..n.'
         ' All pairs of iterators of a position range (up to 40 positions): equal exactly when advanced equally far.'
         ' Self move assignment of a grid.',
    assumptions=COMMON_ASSUMPTIONS + [
        'order inside sub-ranges, in_range/in_range_dim, min_less_sup, range_dim, range_size, end_position and next_position '
        'called directly are observed only (the statement judges them through the ranges, size() and at_optional)',
        'offset is judged for in-range positions only; get_unsafe is never called outside the grid (documented undefined)',
        'pos_range<u8>::size() / range_dim<u8> do not compile (integer promotion inside range_dim), so size() is judged for '
        'u32/u64 only; iteration is judged for u8 too',
    ],
    exhaustive_spaces=[
        'all sizes with every extent in 0..4 for N in {1,2,3} (quick and thorough; thorough also 0..5)',
        'offset: all in-range positions of all those sizes, size types u8/u32/u64',
        'at_optional: all positions of [-1,5]^N for all sizes (mutable and const)',
        'pos_range: all (min,sup) with components in 0..5, N in {1,2,3}, size types u8/u32/u64',
        'pos_ref_range / pos_ref_crange: all (min,sup) with 0 <= min,sup <= size for all sizes',
        'clamped ranges: all signed (min,sup) in [-1,5]^N x [-1,5]^N for N <= 2 (N = 3: thorough only)',
        'resize: all ordered pairs of sizes, N in {1,2,3}',
        'fill/map/apply: all sizes',
    ],
))
