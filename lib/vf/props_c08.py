from vf.driver import Harness, Prop
from vf.props import reg, COMMON_ASSUMPTIONS

reg(Prop(
    'C08',
    [Harness('c08_grid', parts=16, slices=3)],
    rule='TODO',
    assumptions=COMMON_ASSUMPTIONS,
    exhaustive_spaces=[],
))
