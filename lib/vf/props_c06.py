from vf.driver import Harness, Prop
from vf.props import reg, COMMON_ASSUMPTIONS

reg(Prop(
    'C06',
    [Harness('c06_exact', parts=16, slices=6, thorough_cfg='asan1')],
    rule='Every registered function x instantiation is evaluated on: all values of the 8/16-bit types (all pairs of 8-bit '
         'values; 16-bit pairs on lattice+random in quick, all pairs in thorough), the [0,2047]^2 / [-1024,1023]^2 squares '
         'for ceil_div/ceil_div_signed<32 bit>, the boundary lattice (0,+-1,2^k+-2,min,max) and seeded random values for '
         '32/64-bit types. The result is compared with __int128 arithmetic. evaluations counts single library calls judged; '
         'a case for the distinct count is one row (function, instantiation, first operand, set of second operands) or one '
         'chunk of unary inputs, hashed canonically; inputs whose exact result is not representable are skipped and counted.'
         ' mod<float> and mod<long double> (operands beyond double precision) against std::fmod of the same type.'
         ' ceil_div_static<T, a, b> for 11 dividends (0 .. max) x 6 divisors, T = unsigned, uint64_t.',
    assumptions=COMMON_ASSUMPTIONS + ['inputs whose mathematically exact result (or the machine quotient a/b) is not representable are out of scope by the statement and skipped; log2(0) is documented as undefined and skipped'],
    exhaustive_spaces=['all values of every 8/16-bit source type for all 64 truncation_check pairs',
                       'all pairs of 8-bit operands for mod/div/diff/clamp',
                       'ceil_div<u32> on [0,2047]^2, ceil_div_signed<i32> on [-1024,1023]^2',
                       'thorough: all pairs of 16-bit operands for mod/div/diff'],
))
