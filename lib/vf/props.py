"""Registry: property -> harnesses, evidence rule text, assumptions."""
from vf.driver import Harness, Prop

COMMON_ASSUMPTIONS = [
    'gcc 12 AddressSanitizer/UndefinedBehaviorSanitizer/LeakSanitizer runtimes and libstdc++ assertions (-D_GLIBCXX_ASSERTIONS) report what they claim to report',
    'the harness oracle/reference model (source under /verif/harness) is itself correct; it was written from the documentation and the property text',
    'only the instantiations named in the harness registry are exercised; verdict = held on the executions listed here, nothing more',
]

PROPS = {}


def reg(p):
    PROPS[p.pid] = p


# every lib/vf/props_cNN.py module registers its property by calling reg(Prop(...))
import glob as _glob
import importlib as _importlib
import os as _os

for _f in sorted(_glob.glob(_os.path.join(_os.path.dirname(__file__), 'props_c*.py'))):
    try:
        _importlib.import_module('vf.' + _os.path.basename(_f)[:-3])
    except Exception as _e:  # a broken registry module must not take the other properties down
        import sys as _sys
        _sys.stderr.write('registry module %s failed to load: %r\n' % (_f, _e))
