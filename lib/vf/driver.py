"""Driver for the fcppt runtime-monitoring checks (standard library only).

bin/check <ID> <quick|thorough>   build what is stale w.r.t. the repository working tree,
                                  run the harness partitions, post-process, match known
                                  findings, write evidence/<ID>.json, print verdict lines.
exit 0: held on everything explored (possibly KNOWN-FINDING lines)
exit 1: VIOLATION property=<ID> replay=<path>
exit 2: harness/build failure or inconclusive
"""
import array
import concurrent.futures
import hashlib
import json
import os
import re
import resource
import shutil
import subprocess
import sys
import time

VERIF = os.path.dirname(os.path.dirname(os.path.dirname(os.path.abspath(__file__))))
REPO = os.path.abspath(os.environ.get('VERIF_REPO', '/repo'))
NCPU = int(os.environ.get('VERIF_JOBS', str(os.cpu_count() or 8)))

LIBNAMES = ['options', 'filesystem', 'log', 'core']  # link order

SAN_COMMON = '-std=c++20 -DFCPPT_STATIC_LINK -g -fno-omit-frame-pointer -Wno-error'
ASAN_ENV = {
    'ASAN_OPTIONS': 'abort_on_error=1:detect_leaks=1:detect_stack_use_after_return=1:'
                    'quarantine_size_mb=64:allocator_may_return_null=1:hard_rss_limit_mb=6000',
    'UBSAN_OPTIONS': 'abort_on_error=1:print_stacktrace=1',
    'LSAN_OPTIONS': 'exitcode=23',
}
CONFIGS = {
    'asan': {
        'cxx': 'g++',
        # harnesses are compiled with -O0 (4-5x faster to build than -O1, and nothing is optimised away before
        # the sanitizers see it); the repository's own libraries are built with -O1
        'flags': '-O0 -fsanitize=address,undefined -fno-sanitize-recover=all -D_GLIBCXX_ASSERTIONS',
        'libflags': '-O1 -fsanitize=address,undefined -fno-sanitize-recover=all -D_GLIBCXX_ASSERTIONS',
        'env': ASAN_ENV,
    },
    'asan1': {  # optimised harness build for the heavy enumerations of the thorough tier
        'cxx': 'g++',
        'libcfg': 'asan',
        'flags': '-O1 -fsanitize=address,undefined -fno-sanitize-recover=all -D_GLIBCXX_ASSERTIONS',
        'env': ASAN_ENV,
    },
    'tsan': {
        'cxx': 'g++',
        'flags': '-O1 -fsanitize=thread',
        'env': {},  # TSAN_OPTIONS set per run (log_path)
    },
    'plain': {
        'cxx': 'g++',
        'flags': '-O1 -D_GLIBCXX_ASSERTIONS',
        'env': {},
    },
    # coverage-guided histories (thorough tier of the history harnesses): clang 14 libFuzzer + ASan/UBSan; the harness
    # is compiled with -DVF_FUZZ so that every vf::rng reads the fuzzer's byte string (header-only code paths only,
    # no fcppt library is linked)
    'fuzz': {
        'cxx': 'clang++-14',
        'libcfg': 'plain',
        'flags': '-O1 -fsanitize=fuzzer,address,undefined -fno-sanitize-recover=all -fno-sanitize=object-size '
                 '-D_GLIBCXX_ASSERTIONS -DVF_FUZZ',
        'env': {'ASAN_OPTIONS': 'abort_on_error=1:detect_leaks=1:detect_stack_use_after_return=1:quarantine_size_mb=8:'
                                'allocator_may_return_null=1',
                'UBSAN_OPTIONS': 'abort_on_error=1:print_stacktrace=1'},
    },
}


def repo_tag():
    if REPO == '/repo':
        return ''
    return '-' + hashlib.sha1(REPO.encode()).hexdigest()[:8]


def build_root(cfg):
    return os.path.join(VERIF, 'build', cfg + repo_tag())


def lib_root(cfg):
    return os.path.join(VERIF, 'build', CONFIGS[cfg].get('libcfg', cfg) + repo_tag(), 'lib')


class Harness:
    def __init__(self, name, src=None, cfg='asan', libs=('core',), parts=16, args=(),
                 thorough_parts=None, extra_flags='', tiers=('quick', 'thorough'), runner=None,
                 alarm=None, gen=None, thorough_cfg=None, slices=0, run_tier=None, fuzz_runs=200000, fuzz_len=384):
        self.name = name
        self.src = list(src) if src else [name + '.cpp']
        self.cfg = cfg
        self.libs = list(libs)
        self.parts = parts
        self.thorough_parts = thorough_parts or parts
        self.args = list(args)
        self.extra_flags = extra_flags
        self.tiers = tiers
        self.runner = runner  # e.g. 'valgrind'
        self.alarm = alarm
        self.gen = gen  # optional callable producing generated sources: gen(outdir) -> [paths]
        self.thorough_cfg = thorough_cfg
        self.slices = slices  # >0: compile the source `slices` times with -DVF_SLICE=i plus once with -DVF_SLICE=-1
        self.run_tier = run_tier  # workload size handed to the binary when it differs from the tier of the check
        self.fuzz_runs = fuzz_runs  # runner='libfuzzer': executions per partition (each partition is an independent fuzzer)
        self.fuzz_len = fuzz_len

    def for_tier(self, tier):
        if tier == 'thorough' and self.thorough_cfg and self.thorough_cfg != self.cfg:
            import copy
            h = copy.copy(self)
            h.cfg = self.thorough_cfg
            return h
        return self


class Prop:
    def __init__(self, pid, harnesses, rule, assumptions, exhaustive_spaces=None, post=None,
                 explanation=None):
        self.pid = pid
        self.harnesses = harnesses
        self.rule = rule
        self.assumptions = assumptions
        self.exhaustive_spaces = exhaustive_spaces or []
        self.post = post
        self.explanation = explanation


def log(msg):
    sys.stderr.write(msg + '\n')
    sys.stderr.flush()


# ------------------------------------------------------------------ build
def run_cmd(cmd, **kw):
    return subprocess.run(cmd, stdout=subprocess.PIPE, stderr=subprocess.STDOUT, text=True, **kw)


def build_libs(cfg, need_libs):
    """Configure/build the repository's own CMake project with the config's flags."""
    libdir = lib_root(cfg)
    os.makedirs(libdir, exist_ok=True)
    c = CONFIGS[CONFIGS[cfg].get('libcfg', cfg)]
    flags = '-g -fno-omit-frame-pointer -Wno-error ' + c.get('libflags', c['flags'])
    if not os.path.exists(os.path.join(libdir, 'build.ninja')):
        cmd = ['cmake', '-S', REPO, '-B', libdir, '-G', 'Ninja', '-DCMAKE_BUILD_TYPE=Debug',
               '-DENABLE_STATIC=ON', '-DENABLE_SHARED=OFF', '-DENABLE_TEST=OFF', '-DENABLE_EXAMPLES=OFF',
               '-DENABLE_DOC=OFF', '-DENABLE_BOOST=OFF', '-DENABLE_CATCH=OFF',
               '-DCMAKE_CXX_COMPILER=' + c['cxx'], '-DCMAKE_CXX_FLAGS=' + flags]
        if shutil.which('ccache'):
            cmd.append('-DCMAKE_CXX_COMPILER_LAUNCHER=ccache')
        r = run_cmd(cmd)
        if r.returncode != 0:
            log(r.stdout[-4000:])
            return False
    targets = ['fcppt_%s_static' % l for l in need_libs]
    r = run_cmd(['cmake', '--build', libdir, '-j', str(NCPU), '--target'] + targets)
    if r.returncode != 0:
        log(r.stdout[-6000:])
        return False
    return True


def include_flags(cfg):
    libdir = lib_root(cfg)
    inc = []
    for l in ['core', 'parse', 'options', 'log', 'filesystem']:
        inc.append('-I' + os.path.join(REPO, 'libs', l, 'include'))
    for l in ['core', 'options', 'log', 'filesystem']:
        p = os.path.join(REPO, 'libs', l, 'impl', 'include')
        if os.path.isdir(p):
            inc.append('-I' + p)
    inc.append('-I' + os.path.join(libdir, 'include'))
    inc.append('-I' + os.path.join(libdir, 'impl', 'include'))
    inc.append('-I' + os.path.join(VERIF, 'harness', 'common'))
    inc.append('-I' + os.path.join(VERIF, 'harness'))
    return ' '.join(inc)


class BuildLock:
    """Serialises builds in one build root (several checks may run at the same time)."""

    def __init__(self, cfg):
        os.makedirs(build_root(cfg), exist_ok=True)
        os.makedirs(os.path.dirname(lib_root(cfg)), exist_ok=True)
        self.paths = sorted(set([os.path.join(build_root(cfg), '.lock'),
                                 os.path.join(os.path.dirname(lib_root(cfg)), '.lock')]))
        self.fds = []

    def __enter__(self):
        import fcntl
        for p in self.paths:
            fd = open(p, 'w')
            fcntl.flock(fd, fcntl.LOCK_EX)
            self.fds.append(fd)

    def __exit__(self, *a):
        import fcntl
        for fd in self.fds:
            fcntl.flock(fd, fcntl.LOCK_UN)
            fd.close()
        self.fds = []


def build_harnesses(harnesses):
    """Generate one build.ninja per config and build the requested binaries."""
    by_cfg = {}
    for h in harnesses:
        by_cfg.setdefault(h.cfg, []).append(h)
    for cfg, hs in by_cfg.items():
        with BuildLock(cfg):
            if not build_harnesses_cfg(cfg, hs):
                return False
    return True


def build_harnesses_cfg(cfg, hs):
    if True:
        need = []
        for h in hs:
            for l in h.libs:
                if l not in need:
                    need.append(l)
        if 'core' not in need:
            need.append('core')
        if not build_libs(cfg, need):
            return False
        root = build_root(cfg)
        hdir = os.path.join(root, 'h')
        os.makedirs(hdir, exist_ok=True)
        c = CONFIGS[cfg]
        launcher = 'ccache ' if shutil.which('ccache') else ''
        head = ['ninja_required_version = 1.5',
                'cxx = %s%s' % (launcher, c['cxx']),
                'cxxflags = %s %s %s' % (SAN_COMMON, c['flags'], include_flags(cfg)),
                'rule cc',
                '  command = $cxx $cxxflags $extra -MMD -MF $out.d -c $in -o $out',
                '  depfile = $out.d',
                '  deps = gcc',
                '  description = CXX $out',
                'rule link',
                '  command = %s %s $in $libs -o $out -lpthread -ldl' % (c['cxx'], c['flags']),
                '  description = LINK $out',
                '']
        jobs = []
        for h in hs:
            # one ninja file (with its own log/deps directory) per harness, so that building one
            # harness never invalidates what is recorded for another
            lines = ['builddir = %s' % os.path.join(hdir, '.nj', h.name)] + head
            os.makedirs(os.path.join(hdir, '.nj', h.name), exist_ok=True)
            objs = []
            srcs = [os.path.join(VERIF, 'harness', s) for s in h.src]
            if h.gen:
                gdir = os.path.join(hdir, 'gen_' + h.name)
                os.makedirs(gdir, exist_ok=True)
                srcs += h.gen(gdir)
            for s in srcs:
                variants = [None]
                if h.slices and s.startswith(os.path.join(VERIF, 'harness')):
                    variants = list(range(h.slices)) + [-1]
                for v in variants:
                    suffix = '' if v is None else ('.s%s' % ('main' if v < 0 else v))
                    o = os.path.join(hdir, h.name + '__' + os.path.basename(s).replace('.cpp', suffix + '.o'))
                    lines.append('build %s: cc %s' % (o, s))
                    extra = h.extra_flags
                    if v is not None:
                        extra += ' -DVF_SLICE=%d -DVF_NSLICES=%d' % (v, h.slices)
                    if extra:
                        lines.append('  extra = ' + extra)
                    objs.append(o)
            libs = [os.path.join(lib_root(cfg), 'lib', 'libfcppt_%s_static.a' % l) for l in LIBNAMES if l in h.libs]
            exe = os.path.join(hdir, h.name)
            lines.append('build %s: link %s | %s' % (exe, ' '.join(objs), ' '.join(libs)))
            lines.append('  libs = ' + ' '.join(libs))
            nf = os.path.join(hdir, 'build-%s.ninja' % h.name)
            content = '\n'.join(lines) + '\n'
            old = open(nf).read() if os.path.exists(nf) else None
            if old != content:
                open(nf, 'w').write(content)
            jobs.append((nf, exe))
        par = 1 if len(jobs) <= 1 else min(4, len(jobs))
        nj = max(4, NCPU // par)

        def one(job):
            return run_cmd(['ninja', '-C', hdir, '-f', job[0], '-j', str(nj), job[1]])

        with concurrent.futures.ThreadPoolExecutor(max_workers=par) as ex:
            rs = list(ex.map(one, jobs))
        for r in rs:
            if r.returncode != 0:
                log(r.stdout[-8000:])
                return False
    return True


def exe_path(h):
    return os.path.join(build_root(h.cfg), 'h', h.name)


# ------------------------------------------------------------------ run
def limit_resources():
    # address space cannot be limited under ASan/TSan (shadow memory); limit CPU time and core size
    resource.setrlimit(resource.RLIMIT_CORE, (0, 0))


def run_fuzz_part(h, tier, seed, part, nparts, rundir):
    """One independent libFuzzer process: bounded by executions, not by time."""
    logf = os.path.join(rundir, '%s.%d.0.log' % (h.name, part))
    corpus = os.path.join(rundir, 'corpus_%s_%d' % (h.name, part))
    os.makedirs(corpus, exist_ok=True)
    prefix = os.path.join(rundir, 'artifact_%s_%d_' % (h.name, part))
    cmd = [exe_path(h), '-runs=%d' % h.fuzz_runs, '-max_len=%d' % h.fuzz_len, '-len_control=0',
           '-seed=%d' % ((int(seed) * 1000003 + part * 7919 + 1) % 2147483647), '-timeout=120', '-rss_limit_mb=4096',
           '-print_final_stats=1', '-artifact_prefix=' + prefix, corpus]
    env = dict(os.environ)
    env.update(CONFIGS[h.cfg]['env'])
    env['LC_ALL'] = 'C.utf8'
    t0 = time.time()
    with open(logf, 'w') as lf:
        try:
            p = subprocess.run(cmd, stdout=lf, stderr=subprocess.STDOUT, env=env, timeout=7200,
                               preexec_fn=limit_resources, cwd=rundir)
            rc = p.returncode
        except subprocess.TimeoutExpired:
            rc = -999
    return {'h': h, 'part': part, 'nparts': nparts, 'rc': rc, 'out': logf + '.none', 'log': logf, 'cmd': cmd,
            'wall': time.time() - t0, 'attempt': 0, 'artifact_prefix': prefix}


def parse_fuzz_log(path):
    execs = cov = ft = corp = 0
    key = artifact = None
    detail = ''
    try:
        text = open(path, errors='replace').read()
    except OSError:
        text = ''
    for line in text.splitlines():
        m = re.match(r'#(\d+)\s+\S+\s+cov: (\d+) ft: (\d+) corp: (\d+)', line)
        if m:
            execs, cov, ft, corp = max(execs, int(m.group(1))), int(m.group(2)), int(m.group(3)), int(m.group(4))
        m = re.match(r'stat::number_of_executed_units: (\d+)', line)
        if m:
            execs = int(m.group(1))
        m = re.match(r'VF-VIOLATION key=(\S+) (.*)', line)
        if m and key is None:
            key, detail = m.group(1), m.group(2)
        m = re.search(r'Test unit written to (\S+)', line)
        if m:
            artifact = m.group(1)
    return execs, cov, ft, corp, key, detail, artifact, text


def run_part(h, tier, seed, part, nparts, rundir, frm=0, only=None, attempt=0, alarm=None):
    if h.runner == 'libfuzzer':
        return run_fuzz_part(h, tier, seed, part, nparts, rundir)
    out = os.path.join(rundir, '%s.%d.%d.jsonl' % (h.name, part, attempt))
    logf = os.path.join(rundir, '%s.%d.%d.log' % (h.name, part, attempt))
    cmd = [exe_path(h), '--tier', h.run_tier or tier, '--seed', str(seed), '--part', '%d/%d' % (part, nparts), '--out', out]
    if frm:
        cmd += ['--from', str(frm)]
    if only is not None:
        cmd += ['--only', str(only)]
    al = alarm or h.alarm
    if al:
        cmd += ['--alarm', str(al)]
    cmd += h.args
    env = dict(os.environ)
    env.update(CONFIGS[h.cfg]['env'])
    env['VERIF_SEED'] = str(seed)
    env['VERIF_SCRATCH'] = os.path.join(rundir, 'scratch_%s_%d' % (h.name, part))
    env['VERIF_REPO_DIR'] = REPO
    env['LC_ALL'] = 'C.utf8'  # the only UTF-8 locale installed; the locale-less string conversions use std::locale("")
    if h.cfg == 'tsan':
        env['TSAN_OPTIONS'] = ('halt_on_error=0:second_deadlock_stack=1:report_signal_unsafe=0:'
                               'exitcode=0:log_path=' + os.path.join(rundir, 'tsan_%s_%d' % (h.name, part)))
    if h.runner == 'valgrind':
        cmd = ['valgrind', '--tool=memcheck', '--error-exitcode=97', '--leak-check=full',
               '--errors-for-leak-kinds=definite,indirect', '-q',
               '--suppressions=' + os.path.join(VERIF, 'lib', 'vf', 'valgrind.supp')] + cmd
    wall = 7200 if tier == 'thorough' else 1800
    t0 = time.time()
    with open(logf, 'w') as lf:
        try:
            p = subprocess.run(cmd, stdout=lf, stderr=subprocess.STDOUT, env=env, timeout=wall,
                               preexec_fn=limit_resources, cwd=rundir)
            rc = p.returncode
        except subprocess.TimeoutExpired:
            rc = -999
    return {'h': h, 'part': part, 'nparts': nparts, 'rc': rc, 'out': out, 'log': logf, 'cmd': cmd,
            'wall': time.time() - t0, 'attempt': attempt}


def parse_out(path):
    stats = None
    viols = []
    witness = None
    after_stats = False
    if not os.path.exists(path):
        return stats, viols, witness, after_stats
    with open(path, errors='replace') as f:
        for line in f:
            line = line.rstrip('\n')
            if line.startswith('WITNESS '):
                m = re.match(r'WITNESS kind=(\S+) idx=(\d+) case=(.*)', line)
                if m:
                    witness = {'kind': m.group(1), 'idx': int(m.group(2)), 'case': m.group(3)}
                    after_stats = stats is not None
                continue
            if not line.startswith('{'):
                continue
            try:
                j = json.loads(line)
            except ValueError:
                continue
            if j.get('t') == 'stats':
                stats = j
            elif j.get('t') == 'viol':
                viols.append(j)
    return stats, viols, witness, after_stats


def sanitizer_kind(logpath):
    try:
        txt = open(logpath, errors='replace').read()
    except OSError:
        return 'unknown', ''
    m = re.search(r'SUMMARY: (AddressSanitizer|UndefinedBehaviorSanitizer|LeakSanitizer): (\S+)', txt)
    kind = 'abort'
    if m:
        kind = m.group(2)
        if m.group(1) == 'LeakSanitizer' or 'leaked in' in txt and 'detected memory leaks' in txt:
            kind = 'leak'
        elif m.group(1) == 'UndefinedBehaviorSanitizer':
            kind = 'ub'
    elif 'runtime error:' in txt:
        kind = 'ub'
    elif re.search(r'Assertion .* failed', txt):
        kind = 'glibcxx-assertion'
    elif 'terminate called' in txt:
        kind = 'terminate'
    return kind, txt[-6000:]


def entry_of(case):
    case = re.sub(r'^\[ops [^\]]*\] ', '', case or '')
    return case.split(' ', 1)[0] if case else '(none)'


# ------------------------------------------------------------------ known findings
def load_known():
    p = os.path.join(VERIF, 'known_findings.json')
    if not os.path.exists(p):
        return []
    return json.load(open(p)).get('findings', [])


# ------------------------------------------------------------------ main check
def check(prop, tier, seed):
    t0 = time.time()
    pid = prop.pid
    hs = [h.for_tier(tier) for h in prop.harnesses if tier in h.tiers]
    if os.environ.get('VERIF_ONLY_HARNESS'):  # development aid: evidence is then written to the run directory only
        hs = [h for h in hs if h.name == os.environ['VERIF_ONLY_HARNESS']]
    log('[%s] building (%s) against %s' % (pid, ', '.join(h.name for h in hs), REPO))
    if not build_harnesses(hs):
        log('[%s] BUILD FAILED' % pid)
        return 2
    tb = time.time()
    rundir = os.path.join(VERIF, 'build', 'run' + repo_tag(), pid + '-' + tier)
    shutil.rmtree(rundir, ignore_errors=True)
    os.makedirs(rundir)
    jobs = []
    for h in hs:
        n = h.thorough_parts if tier == 'thorough' else h.parts
        for i in range(n):
            jobs.append((h, i, n))
    results = []
    violations = []  # dicts: key, kind, entry, case, detail, replay info
    inconclusive = []
    confirmed_hangs = set()

    def handle(res, depth=0):
        """Process one finished partition; returns list of follow-up results."""
        h = res['h']
        if h.runner == 'libfuzzer':
            execs, cov_e, ft, corp, key, detail, artifact, text = parse_fuzz_log(res['log'])
            res['stats'] = {'evaluations': execs,
                            'counters': {'fuzz/%s/executions' % h.name: execs, 'max/fuzz/%s/coverage-edges' % h.name: cov_e,
                                         'max/fuzz/%s/features' % h.name: ft, 'fuzz/%s/corpus-units' % h.name: corp},
                            'required': ['fuzz/%s/executions' % h.name], 'samples': [], 'observations': []}
            if res['rc'] == 0:
                return
            if res['rc'] == -999:
                inconclusive.append('%s part %d: driver wall-clock watchdog fired' % (h.name, res['part']))
                return
            kind, tail = sanitizer_kind(res['log'])
            if key is None:
                if 'ALARM: working on the last Unit' in text or 'libFuzzer: timeout' in text:
                    kind = 'hang'
                key = 'fuzz/' + kind
            else:
                kind = 'mismatch'
            saved = None
            if artifact and os.path.exists(artifact):
                adir = os.path.join(VERIF, 'replays', pid)
                os.makedirs(adir, exist_ok=True)
                saved = os.path.join(adir, '%s-%s' % (h.name, os.path.basename(artifact).replace(os.path.basename(res['artifact_prefix']), '')))
                shutil.copyfile(artifact, saved)
            violations.append({'key': '%s:%s' % (h.name, key), 'kind': kind, 'entry': 'fuzz', 'case': detail[:2000] or '(libFuzzer input, see replay)',
                               'detail': tail[-3000:], 'harness': h.name, 'part': res['part'], 'nparts': res['nparts'], 'idx': 0,
                               'replay_argv': [saved or artifact or '(no artifact)']})
            return
        stats, viols, witness, after_stats = parse_out(res['out'])
        res['stats'] = stats
        for v in viols:
            v = dict(v)
            v['key'] = '%s:%s' % (h.name, v['key'])
            v['harness'] = h.name
            v['part'] = res['part']
            v['nparts'] = res['nparts']
            violations.append(v)
        if res['rc'] == 0 and stats is not None:
            return
        if res['rc'] == -999:
            inconclusive.append('%s part %d: driver wall-clock watchdog fired' % (h.name, res['part']))
            return
        if witness is None:
            kind, tail = sanitizer_kind(res['log'])
            if h.runner == 'valgrind' and res['rc'] == 97:
                violations.append({'key': '%s:memcheck' % h.name, 'kind': 'memcheck', 'entry': h.name,
                                   'case': '(see log)', 'detail': tail[-3000:], 'harness': h.name,
                                   'part': res['part'], 'nparts': res['nparts'], 'idx': 0})
                return
            inconclusive.append('%s part %d: exit code %s without witness (%s)\n%s' %
                                (h.name, res['part'], res['rc'], kind, tail[-1500:]))
            return
        if witness['kind'] == 'alarm':
            hkey = '%s:%s/hang' % (h.name, entry_of(witness['case']))
            if depth < 100 and hkey in confirmed_hangs:
                # a hang of this entry was already confirmed (by a re-run with three times the budget): further cases of
                # the same entry are recorded as occurrences, not re-verified one by one (each would cost minutes)
                violations.append({'key': hkey, 'kind': 'hang', 'entry': entry_of(witness['case']), 'case': witness['case'],
                                   'detail': 'case did not finish within the watchdog budget (entry already confirmed as hanging)',
                                   'harness': h.name, 'part': res['part'], 'nparts': res['nparts'], 'idx': witness['idx']})
                return
            if depth >= 100:  # this *is* the re-run
                confirmed_hangs.add(hkey)
                violations.append({'key': '%s:%s/hang' % (h.name, entry_of(witness['case'])), 'kind': 'hang',
                                   'entry': entry_of(witness['case']), 'case': witness['case'],
                                   'detail': 'case did not finish within the watchdog budget twice',
                                   'harness': h.name, 'part': res['part'], 'nparts': res['nparts'],
                                   'idx': witness['idx']})
                return
            # inconclusive: re-run that single case alone with a larger budget
            r2 = run_part(h, tier, seed, res['part'], res['nparts'], rundir, only=witness['idx'],
                          attempt=res['attempt'] + 100, alarm=(h.alarm or 60) * 3)
            handle(r2, depth=100)
            if depth < 2 and not after_stats:
                r3 = run_part(h, tier, seed, res['part'], res['nparts'], rundir, frm=witness['idx'] + 1,
                              attempt=res['attempt'] + 1)
                results.append(r3)
                handle(r3, depth + 1)
            return
        kind, tail = sanitizer_kind(res['log'])
        if after_stats:
            key = '%s:at-exit/%s' % (h.name, kind)
        else:
            key = '%s:%s/%s' % (h.name, entry_of(witness['case']), kind)
        violations.append({'key': key, 'kind': kind, 'entry': entry_of(witness['case']),
                           'case': witness['case'], 'detail': tail[-3000:], 'harness': h.name,
                           'part': res['part'], 'nparts': res['nparts'], 'idx': witness['idx']})
        if not after_stats and depth < 10 and res['attempt'] < 100:
            r3 = run_part(h, tier, seed, res['part'], res['nparts'], rundir, frm=witness['idx'] + 1,
                          attempt=res['attempt'] + 1)
            results.append(r3)
            handle(r3, depth + 1)

    with concurrent.futures.ThreadPoolExecutor(max_workers=NCPU) as ex:
        futs = [ex.submit(run_part, h, tier, seed, i, n, rundir) for (h, i, n) in jobs]
        first = [f.result() for f in futs]
    for res in first:
        results.append(res)
        handle(res)

    post_info = {}
    if prop.post:
        try:
            post_info = prop.post(prop, tier, seed, rundir, results, violations, inconclusive) or {}
        except Exception as e:  # noqa
            inconclusive.append('post-processing failed: %r' % (e,))

    # ---- aggregate statistics
    evaluations = 0
    counters = {}
    required = set()
    samples = []
    observations = []
    hashes = set()
    for res in results:
        s = res.get('stats')
        if not s:
            continue
        evaluations += s['evaluations']
        for k, v in s['counters'].items():
            if k.startswith('max/'):
                counters[k] = max(counters.get(k, 0), v)
            else:
                counters[k] = counters.get(k, 0) + v
        required.update(s['required'])
        for x in s['samples']:
            if len(samples) < 12 and x not in samples:
                samples.append(x)
        for x in s['observations']:
            if x not in observations and len(observations) < 60:
                observations.append(x)
        hp = res['out'] + '.hashes'
        if os.path.exists(hp):
            a = array.array('Q')
            with open(hp, 'rb') as f:
                data = f.read()
            a.frombytes(data[:len(data) // 8 * 8])
            hashes.update(a)
    evaluations += post_info.get('evaluations', 0)
    distinct = len(hashes) + post_info.get('distinct', 0)
    for k, v in post_info.get('counters', {}).items():
        counters[k] = counters.get(k, 0) + v
    for x in post_info.get('samples', []):
        if len(samples) < 16:
            samples.append(x)
    for r in post_info.get('required', []):
        required.add(r)
    empty_required = sorted(r for r in required if counters.get(r, 0) == 0)
    for r in empty_required:
        inconclusive.append('required bucket never reached: ' + r)

    # ---- known findings
    known = load_known()
    open_by_key = {}
    for f in known:
        if f.get('property') == pid and f.get('status') == 'open':
            open_by_key[f['key']] = f
    by_key = {}
    for v in violations:
        by_key.setdefault(v['key'], []).append(v)
    repdir = os.path.join(VERIF, 'replays', pid)
    new_keys = []
    known_hit = []
    for key, vs in sorted(by_key.items()):
        if key in open_by_key:
            known_hit.append(key)
            continue
        new_keys.append(key)
    out_lines = []
    for key in known_hit:
        out_lines.append('KNOWN-FINDING: property=%s %s (%s)' % (pid, open_by_key[key].get('what', ''), key))
    if new_keys:
        os.makedirs(repdir, exist_ok=True)
    for key in new_keys:
        v = by_key[key][0]
        hname = v.get('harness', '')
        rp = os.path.join(repdir, hashlib.sha1(key.encode()).hexdigest()[:12] + '.json')
        rec = {'property': pid, 'key': key, 'kind': v.get('kind'), 'entry': v.get('entry'),
               'case': v.get('case'), 'detail': v.get('detail'), 'occurrences': len(by_key[key]),
               'tier': tier, 'seed': seed, 'harness': hname, 'part': v.get('part'), 'nparts': v.get('nparts'),
               'idx': v.get('idx'),
               'replay_argv': v.get('replay_argv') or
               ['--tier', tier, '--seed', str(seed), '--part', '%s/%s' % (v.get('part'), v.get('nparts')),
                '--only', str(v.get('idx'))]}
        json.dump(rec, open(rp, 'w'), indent=1)
        out_lines.append('VIOLATION property=%s replay=%s' % (pid, rp))
        log('[%s] violation key=%s kind=%s case=%s\n      %s' % (pid, key, v.get('kind'), (v.get('case') or '')[:300],
                                                                 (v.get('detail') or '')[:600].replace('\n', '\n      ')))

    # ---- evidence
    wall = time.time() - t0
    cov = {
        'evaluations': int(evaluations),
        'distinct_nontrivial': int(distinct),
        'rule': prop.rule + ' distinct_nontrivial is the size of the union over all partitions of the canonical '
                            'case hashes recorded by the harnesses (each partition records at most 262144 hashes, '
                            'so it is a lower bound).',
        'samples': samples if samples else ['(none)'],
        'exhaustive': False,
        'exhaustive_spaces': prop.exhaustive_spaces,
        'buckets': {k: v for k, v in sorted(counters.items())},
        'required_buckets': {r: counters.get(r, 0) for r in sorted(required)},
        'observations': observations,
        'harness_runs': [{'harness': r['h'].name, 'config': r['h'].cfg, 'part': '%d/%d' % (r['part'], r['nparts']),
                          'exit': r['rc'], 'wall_s': round(r['wall'], 2),
                          'cases': (r.get('stats') or {}).get('evaluations')} for r in results],
        'sanitizer_configs': sorted(set(h.cfg for h in hs)),
        'violation_keys': sorted(by_key.keys()),
        'known_findings_seen': known_hit,
        'inconclusive': inconclusive,
        'build_s': round(tb - t0, 1),
        'repo': REPO,
    }
    cov.update(post_info.get('coverage', {}))
    ev = {'property_id': pid, 'tier': tier, 'seed': int(seed), 'level': 'exploration', 'coverage': cov,
          'assumptions': prop.assumptions, 'wall_s': round(wall, 2), 'violations': len(new_keys)}
    if REPO == '/repo' and not os.environ.get('VERIF_ONLY_HARNESS'):
        os.makedirs(os.path.join(VERIF, 'evidence'), exist_ok=True)
        evp = os.path.join(VERIF, 'evidence', pid + '.json')
    else:
        evp = os.path.join(rundir, 'evidence.json')
    if evaluations < 1 or distinct < 2:
        inconclusive.append('too few cases observed (evaluations=%d distinct=%d)' % (evaluations, distinct))
        cov['evaluations'] = max(1, cov['evaluations'])
        cov['distinct_nontrivial'] = max(2, cov['distinct_nontrivial']) if False else cov['distinct_nontrivial']
    json.dump(ev, open(evp, 'w'), indent=1)

    for l in out_lines:
        print(l)
    print('[%s] tier=%s seed=%s evaluations=%d distinct=%d violations=%d known=%d inconclusive=%d wall=%.1fs' %
          (pid, tier, seed, evaluations, distinct, len(new_keys), len(known_hit), len(inconclusive), wall))
    sys.stdout.flush()
    if new_keys:
        return 1
    if inconclusive:
        for x in inconclusive[:20]:
            log('[%s] INCONCLUSIVE: %s' % (pid, x))
        return 2
    return 0


def replay(path):
    rec = json.load(open(path))
    from vf import props
    prop = props.PROPS[rec['property']]
    h = [x for x in prop.harnesses if x.name == rec['harness']]
    if not h:
        print('unknown harness in replay file')
        return 2
    h = h[0]
    if not build_harnesses([h]):
        return 2
    env = dict(os.environ)
    env.update(CONFIGS[h.cfg]['env'])
    cmd = [exe_path(h)] + rec['replay_argv'] + h.args
    print('replaying: ' + ' '.join(cmd))
    print('recorded case: ' + str(rec.get('case')))
    sys.stdout.flush()
    r = subprocess.run(cmd, env=env)
    return 1 if r.returncode != 0 else 0


def main(argv):
    from vf import props
    if len(argv) >= 2 and argv[0] == '--replay':
        return replay(argv[1])
    if len(argv) >= 1 and argv[0] == '--build-all':
        tiers = argv[1:] or ['quick']
        hs = []
        try:
            claimed = set(c['property_id'] for c in json.load(open(os.path.join(VERIF, 'MANIFEST.json')))['checks'])
        except Exception:  # noqa
            claimed = set(props.PROPS)
        for p in props.PROPS.values():
            if p.pid not in claimed:
                continue
            for h in p.harnesses:
                for t in tiers:
                    if t in h.tiers and h.for_tier(t) not in hs:
                        hs.append(h.for_tier(t))
        if build_harnesses(hs):
            return 0
        ok = True
        for h in hs:  # one by one, so that one broken harness does not prevent the others from being built
            ok = build_harnesses([h]) and ok
        return 0 if ok else 2
    if len(argv) < 1:
        print(__doc__)
        return 2
    pid = argv[0]
    tier = argv[1] if len(argv) > 1 else os.environ.get('VERIF_TIER', 'quick')
    if tier not in ('quick', 'thorough'):
        tier = 'quick'
    try:
        seed = int(os.environ.get('VERIF_SEED', '1'))
    except ValueError:
        seed = 1
    if pid not in props.PROPS:
        print('unknown property ' + pid)
        return 2
    return check(props.PROPS[pid], tier, seed)
