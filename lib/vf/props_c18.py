from vf.driver import Harness, Prop
from vf.props import reg, COMMON_ASSUMPTIONS

reg(Prop(
    'C18',
    [Harness('c18_ranges', parts=16, slices=3, thorough_cfg='asan1')],
    rule='make_int_range(b,e): every (b,e) of int8_t, uint8_t and of strong typedefs of both (4 x 65536 pairs, one case = one row '
         'b with all 256 e); for 16/32/64-bit plain and strong-typedef types all pairs of a boundary lattice (min..min+3, max-3..max, '
         '-3..3, +-2^k+-1) plus seeded random pairs with short spans around lattice points (thorough: also every b of the 16-bit '
         'types with e in {b-1,b,b+1,b+3,min,max}); one case = a chunk of 64 pairs. Every range is enumerated with a bound '
         '(expected count + 1) by pre-increment, post-increment and range-for and compared with b,b+1,..,e-1 computed in __int128; '
         'ranges longer than the prefix bound (40 quick / 300 thorough) are judged on that prefix only. size() is compared with the '
         'count only when the count is representable in the range\'s integer type; otherwise it is observed (narrow types) or not '
         'called (int and wider: the subtraction would overflow). make_int_range_count(n): all n of the 8-bit types, lattice + '
         '[-prefix-2,prefix+2] + random n for wider types. Enum ranges: 73 enum types (1..9 enumerators; underlying int32/uint8/int8/'
         'uint16/uint32/int64/uint64 scoped, plain enums with named enumerators), every closed sub-range [s,e], every make_range_start(s), '
         'make_range(). Cyclic iterator: boundaries of length 1..6 inside vector/const vector/deque/string/int[]/std::array storage '
         '(with and without padding around the boundary; list and forward_list for single steps), every start offset, n in [-24,24] '
         '(thorough [-120,120]) plus +-{60,64,100,120,300,720,1000,1001,4096}: advance, +=, +, n+it, -=, -, [] against |n| single '
         'steps each checked against floor-mod arithmetic. Spiral: origins [-2,2]^2, near the type limits and random, distances 0..6 '
         '(thorough 0..10), positions int/long/long long. Neighbours: lattice x lattice positions. iterator::range/make_range/'
         'adapt_range: all sub-ranges [i,j) of containers of length 0..6 (thorough 0..10), elements compared by address. '
         'distinct = canonical hash of (entry, row/chunk contents | enum,s,e | len,pad,start | origin,dist).'
         ' cyclic_iterator over a bidirectional iterator whose ++ / -- throw at every point of every 5-step direction pattern: the iterator stays inside its boundary and keeps cycling. Enums that fill uint8_t / uint16_t / the positive side of int8_t: sub-ranges ending at the maximum (a sub-range whose enumerator count is not representable in the enum\'s size_type is not judged).'
         ' iterator::range == / != between every pair of sub-ranges of the same container.'
         ' A 256-enumerator uint8_t enum whose fcppt::enum_::size_type_impl is specialised to unsigned: whole range and sub-ranges.'
         ' cyclic_iterator over list / forward_list: equality against every position of the boundary and the full-cycle loop do ++it; while (it != start).'
         ' All pairs of iterators of an int range (both operand orders): equal exactly when advanced equally far.',
    assumptions=COMMON_ASSUMPTIONS + [
        'an enum sub-range is judged when its enumerator count is representable in the enum\'s size_type (the whole range of an enum that fills its underlying type is not: fcppt::enum_::size is 0 for it)',
        'int_range::size() is judged only when the number of elements is representable in the range\'s own integer type (side condition of the statement); for int and wider types it is not even called otherwise because end - begin overflows (undefined)',
        'ranges with more elements than the prefix bound are judged on their first 40 (quick) / 300 (thorough) elements only; termination at e is then not observed',
        'enum ranges are judged for closed sub-ranges s <= e only; enum_::range::size(), cyclic iterator difference/ordering, range::size, math::int_range_count and the iterator::base operator set are observed, not judged',
        'cyclic iterators start inside their boundary [first, second) and the boundary is non-empty (length 1..6 as quantified)',
        'neighbour helpers are documented as unchecked: positions whose +-1 is not representable (and 0 for unsigned coordinates) are not generated',
        'spiral origins keep the ball and the first point of the next ring representable (distance + 3 away from the limits of the coordinate type)',
    ],
    exhaustive_spaces=['all (begin, end) pairs of int8_t, uint8_t, strong_typedef<int8_t>, strong_typedef<uint8_t> for make_int_range',
                       'all counts of the 8-bit types for make_int_range_count',
                       'all closed sub-ranges of 73 enum types with 1..9 enumerators',
                       'all boundaries of length 1..6 x all start offsets x all step counts in [-24,24] (quick) for 6 random access iterator kinds',
                       'all spiral distances 0..6 for all origins in [-2,2]^2',
                       'all sub-ranges [i,j) of containers of length 0..6 for iterator::range / make_range'],
))
