from vf.driver import Harness, Prop
from vf.props import reg, COMMON_ASSUMPTIONS

reg(Prop(
    'C13',
    [Harness('c13_box', parts=16, slices=4, thorough_cfg='asan1')],
    rule='Value types int, long, unsigned (unsigned shifted by +3). N=1 and N=2: every box with corners in [-3,3] and pos<=max '
         '(28 / 784 boxes) is judged against the explicit set of lattice points in [-7,7]^N (std::bitset): points<T,N> = '
         'one box x every lattice point (contains_point, size/pos/max for three ways of building the box, corner_points); '
         'pairs<T,N> = one row (box a) x every box b (intersection incl. null box, intersects, contains(a,b), '
         'extend_bounding_box(a,b); all 784 / 614656 ordered pairs in both tiers); '
         'inverted<T,N> = every box with max < pos in some coordinate (21 / 1617 boxes): contains_point false on the whole lattice, intersection '
         'with every 5th regular box has no point, an inverted outer box contains no non-empty box; '
         'resize<T,N> = one box x every vector in [-3,3]^N ([0,3]^N unsigned) for shrink/stretch_absolute. N=3: seeded random '
         'boxes with corners in [-3,3] on the lattice [-6,6]^3 (random3; 12000 / 800000 (a,b,v) triples per type in quick / '
         'thorough) and boxes with coordinates up to 10^6 judged on the 512 face-adjacent candidate points and the extreme '
         'points of the operands (random3-wide; 4000 / 200000 per type). evaluations counts judged '
         'library calls; a case for the distinct count is a (type,N,box) for points/resize, an ordered pair of non-empty boxes '
         'for pairs, a (a,b,v) triple for random3.'
         ' Instantiation with a heap-backed scalar whose move is not a copy (vf::heavy: a moved-from operand reads as 7777). Floating point boxes over coordinates for which x + (y - x) != y: intersection / extend_bounding_box must select corner coordinates exactly, contains / contains_point / intersects are comparisons.'
         ' Instantiation with vf::natural, an exact scalar without negative values (negation and subtraction below zero saturate and are counted).'
         ' Boxes with one NaN bound (empty point sets): contains_point false for every probe, intersections with them contain no point, both operand orders.'
         ' contains() with non-empty inner boxes whose volume is not representable in T (65536 x 65536 in unsigned, 1e-30 x 1e-30 in float).'
         ' Inverted boxes: pos + size == max and box(pos, size) reproduces the box (not for vf::natural).',
    assumptions=COMMON_ASSUMPTIONS + [
        'vf::natural: only calls whose exact result is a natural number are judged (the unsigned side conditions); intermediate results below zero are counted, not judged',
        'side conditions taken from the statement: intersects and extend_bounding_box are judged only for two non-empty boxes, '
        'contains only for a non-empty inner box, "intersection is the null box" only for two non-empty boxes without a common '
        'point; with empty operands only point-set equality of intersection is judged and the other calls are executed and counted',
        'unsigned: shrink/stretch_absolute inputs whose exact corner would be negative (wrap-around) are skipped and counted',
        'observed only, never judged: extend_bounding_box(box,point), center, stretch_relative, distance/interval_distance, '
        'interval, init_max, init_dim, structure_cast, left/right/top/bottom/front/back, == of two equal boxes',
        'math::box does not instantiate for short; value types are int, long, unsigned',
    ],
    exhaustive_spaces=[
        'N=1: all 28 boxes with corners in [-3,3] x all 15 lattice points, all 784 ordered pairs, all 7 resize values (int, long; unsigned on [0,6])',
        'N=2: all 784 boxes x all 225 lattice points and x all 49 resize vectors (int, long; unsigned on [0,6]^2)',
        'N=2: all 614656 ordered pairs of boxes for int, long, unsigned (both tiers)',
    ],
))
