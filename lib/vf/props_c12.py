from vf.driver import Harness, Prop
from vf.props import reg, COMMON_ASSUMPTIONS

reg(Prop(
    'C12',
    [Harness('c12_stream', parts=16, thorough_cfg='asan1'),
     # thorough only: the quick workload without sanitizer instrumentation under valgrind memcheck (libstdc++.so -
     # iostream, locale, codecvt, the extern-template std::string members - is not ASan-instrumented)
     Harness('c12_stream_memcheck', src=['c12_stream.cpp'], cfg='plain', runner='valgrind', tiers=('thorough',), parts=16,
             run_tier='quick', alarm=900)],
    rule='A case is one text: every text over {a, newline, space, tab} up to length 7 (char) / 6 (wchar_t) in quick and 12 / 10 in '
         'thorough (exhaustive), plus seeded random texts up to 60 (200 over a file stream) characters incl. CR. Per text: forward pass saving '
         'the position at every offset and reading past the end twice; for every saved position restore (directly after a failed read at end of '
         'input), compare get_position and read to the end; a double restore; seeded random interleavings of get_char/get_position/set_position; '
         'at every offset the error message of literal, char_set and the two character skippers must carry the location right after the '
         'offending character (EOF at the end). The expected offset/line/column/character is computed from the definition for the offset. '
         'Failing streams: streambufs that end, throw (badbit) or refuse to seek after k characters. distinct = hash of the text.'
         ' Devices that can only be positioned absolutely (seekpos works, relative seekoff is refused) for both character types, and wide file streams reading UTF-8 (C.utf8 facet and std::codecvt_utf8) with 1- to 4-byte characters: same interleavings, offsets judged for consistency only (they are positions in the file).'
         ' Streams imbued with a ctype facet that widens newline to another character occurring in the text; char16_t / char32_t streams (no ctype facet exists).'
         ' phrase_parse_stream with a skipper that reads the stream over devices failing at the first read or inside leading white space: a failure result, never an exception of the stream layer.'
         ' A device whose seek fails once for a good position: set_position reports it, and after the caller cleared the state the reported offset / line / column are those of the place the stream is at; a later restore succeeds.',
    assumptions=COMMON_ASSUMPTIONS + [
        'set_position is only called with positions previously returned by get_position on the same stream (documented precondition)',
        'failing streams are judged with the caller\'s stream exceptions() left at the default (off)'],
    exhaustive_spaces=['quick: all texts over {a,\\n,space,tab} of length <= 7 (char) and <= 6 (wchar_t)',
                       'thorough: length <= 12 (char, the bound the property names) and <= 10 (wchar_t)'],
))
