// C05 support: instrumented element types, the event log and the offline checker.
//
// tk<Tag, Copyable> is an element type with a unique object id and a payload id.  Every special
// member, ==, <, hash, operator<<, operator>> and the accessor read() used by the harness'
// continuations appends (event, this-id, other-id, payload) to one global log.  The objects keep no
// verdict state of their own: after each case the checker REPLAYS the log with its own model of
// every object (live / moved-from / destroyed, payload) and applies the rules of the property.
#ifndef C05_TRACKED_HPP_INCLUDED
#define C05_TRACKED_HPP_INCLUDED

#include <vf.hpp>

#include <array>
#include <cstddef>
#include <cstdint>
#include <functional>
#include <istream>
#include <map>
#include <memory>
#include <ostream>
#include <set>
#include <string>
#include <tuple>
#include <type_traits>
#include <utility>
#include <vector>

namespace c05
{
// A continuation that is handed an lvalue builds a NEW value whose payload is old + derived_offset
// (it never copies); x % derived_offset is the element the value descends from.
constexpr int derived_offset = 1000000;

enum class ek : std::uint8_t
{
  make,        // harness (or a continuation) created a value with a fresh payload
  defctor,     // default constructor (payload 0)
  copy,        // copy constructor: self <- other
  move,        // move constructor: self <- other
  assign_copy, // copy assignment
  assign_move, // move assignment
  dtor,
  eq,
  lt,
  hash,
  print,
  read,  // payload accessor used by continuations / predicates
  reset, // operator>> stored a freshly extracted payload in self
  call_begin,
  call_end
};

struct event
{
  ek kind;
  std::uint32_t self;
  std::uint32_t other;
  int payload;
};

struct log_t
{
  std::vector<event> ev;
  std::uint32_t next_id = 1;
  void reset()
  {
    ev.clear();
    next_id = 1;
  }
};
inline log_t &the_log()
{
  static log_t l;
  return l;
}
inline void put(ek k, std::uint32_t self, std::uint32_t other, int payload)
{
  the_log().ev.push_back(event{k, self, other, payload});
}

struct make_t
{
};
struct derive_t
{
};
struct convert_t
{
};

class tkb
{
public:
  // harness-only inspection, never logged: -1 for a moved-from object
  [[nodiscard]] int peek() const noexcept { return moved_ ? -1 : payload_; }
  [[nodiscard]] std::uint32_t oid() const noexcept { return id_; }
  // the accessor continuations use: logged
  [[nodiscard]] int read() const
  {
    put(ek::read, id_, 0, payload_);
    return payload_;
  }
  void log_eq(tkb const &o) const { put(ek::eq, id_, o.id_, payload_); }
  void log_lt(tkb const &o) const { put(ek::lt, id_, o.id_, payload_); }
  void log_hash() const { put(ek::hash, id_, 0, payload_); }
  void log_print() const { put(ek::print, id_, 0, payload_); }
  void reset_payload(int p)
  {
    payload_ = p;
    moved_ = false;
    put(ek::reset, id_, 0, p);
  }
  [[nodiscard]] int raw_payload() const noexcept { return payload_; }

protected:
  tkb() : id_(the_log().next_id++), payload_(0), moved_(false) { put(ek::defctor, id_, 0, 0); }
  tkb(make_t, int p) : id_(the_log().next_id++), payload_(p), moved_(false) { put(ek::make, id_, 0, p); }
  tkb(tkb const &o) : id_(the_log().next_id++), payload_(o.payload_), moved_(o.moved_)
  {
    put(ek::copy, id_, o.id_, o.payload_);
  }
  tkb(tkb &&o) noexcept : id_(the_log().next_id++), payload_(o.payload_), moved_(o.moved_)
  {
    put(ek::move, id_, o.id_, o.payload_);
    o.moved_ = true;
  }
  tkb &operator=(tkb const &o)
  {
    put(ek::assign_copy, id_, o.id_, o.payload_);
    payload_ = o.payload_;
    moved_ = o.moved_;
    return *this;
  }
  tkb &operator=(tkb &&o) noexcept
  {
    put(ek::assign_move, id_, o.id_, o.payload_);
    if (this != &o)
    {
      payload_ = o.payload_;
      moved_ = o.moved_;
      o.moved_ = true;
    }
    return *this;
  }
  ~tkb() { put(ek::dtor, id_, 0, payload_); }

private:
  std::uint32_t id_;
  int payload_;
  bool moved_;
};

template <bool Copyable>
struct copy_ctl
{
};
template <>
struct copy_ctl<false>
{
  copy_ctl() = default;
  copy_ctl(copy_ctl const &) = delete;
  copy_ctl(copy_ctl &&) noexcept = default;
  copy_ctl &operator=(copy_ctl const &) = delete;
  copy_ctl &operator=(copy_ctl &&) noexcept = default;
  ~copy_ctl() = default;
};

// Tag distinguishes element types (either<F,S> and variant need distinct types)
template <int Tag, bool Copyable>
class tk : public tkb, private copy_ctl<Copyable>
{
public:
  static constexpr int tag = Tag;
  static constexpr bool copyable = Copyable;
  tk() = default;
  tk(make_t, int p) : tkb(make_t{}, p) {}
  // a new value made from (a read of) another one; no copy involved
  tk(derive_t, tkb const &o) : tkb(make_t{}, o.read() + derived_offset) {}
  // move across element types (continuations that change the type of an rvalue element)
  template <int U, bool C2>
  tk(convert_t, tk<U, C2> &&o) : tkb(std::move(static_cast<tkb &>(o)))
  {
  }
  tk(tk const &) = default;
  tk(tk &&) noexcept = default;
  tk &operator=(tk const &) = default;
  tk &operator=(tk &&) noexcept = default;
  ~tk() = default;

  friend bool operator==(tk const &a, tk const &b)
  {
    a.log_eq(b);
    return a.raw_payload() == b.raw_payload();
  }
  friend bool operator!=(tk const &a, tk const &b)
  {
    a.log_eq(b);
    return a.raw_payload() != b.raw_payload();
  }
  friend bool operator<(tk const &a, tk const &b)
  {
    a.log_lt(b);
    return a.raw_payload() < b.raw_payload();
  }
  template <typename Ch, typename Tr>
  friend std::basic_ostream<Ch, Tr> &operator<<(std::basic_ostream<Ch, Tr> &s, tk const &a)
  {
    a.log_print();
    return s << a.raw_payload();
  }
  template <typename Ch, typename Tr>
  friend std::basic_istream<Ch, Tr> &operator>>(std::basic_istream<Ch, Tr> &s, tk &a)
  {
    int p = 0;
    if (s >> p)
      a.reset_payload(p);
    return s;
  }
};
}

namespace std
{
template <int Tag, bool C>
struct hash<c05::tk<Tag, C>>
{
  std::size_t operator()(c05::tk<Tag, C> const &a) const noexcept
  {
    a.log_hash();
    return static_cast<std::size_t>(a.raw_payload()) * 0x9E3779B97F4A7C15ULL;
  }
};
}

namespace c05
{
// ------------------------------------------------------------------ value categories
// 0 = non-const lvalue, 1 = const lvalue, 2 = rvalue
constexpr int cat_l = 0, cat_c = 1, cat_r = 2;
template <int Cat, class A>
decltype(auto) fwd(A &a)
{
  if constexpr (Cat == cat_l)
    return (a);
  else if constexpr (Cat == cat_c)
    return std::as_const(a);
  else
    return std::move(a);
}
inline char cat_char(int c) { return c == cat_l ? 'L' : c == cat_c ? 'C' : 'R'; }
template <class... Cs>
std::string cats_str(Cs... cs)
{
  std::string r;
  ((r += cat_char(static_cast<int>(cs)), r += ','), ...);
  if (!r.empty())
    r.pop_back();
  return r;
}
template <int V>
using ic = std::integral_constant<int, V>;

#ifdef C05_MO
constexpr bool move_only_build = true;
#else
constexpr bool move_only_build = false;
#endif

// for_cats<N>(f): f(ic<c0>{}, ..., ic<cN-1>{}) for every combination of categories.
// In the move-only build (compile-time half) only the all-rvalue combination is instantiated.
template <int N, class F, int... Cs>
void for_cats_impl(F &f)
{
  if constexpr (sizeof...(Cs) == static_cast<std::size_t>(N))
    f(ic<Cs>{}...);
  else if constexpr (move_only_build)
    for_cats_impl<N, F, Cs..., cat_r>(f);
  else
  {
    for_cats_impl<N, F, Cs..., cat_l>(f);
    for_cats_impl<N, F, Cs..., cat_c>(f);
    for_cats_impl<N, F, Cs..., cat_r>(f);
  }
}
template <int N, class F>
void for_cats(F f)
{
  for_cats_impl<N, F>(f);
}

// ------------------------------------------------------------------ collecting payloads (never logged)
// structure markers (negative, so that they can never collide with payload ids)
constexpr int mk_nothing = -100, mk_some = -101, mk_failure = -102, mk_success = -103, mk_seq = -200,
              mk_alt = -300, mk_node = -400, mk_end = -401;

template <class X, class Enable = void>
struct collector; // specialised next to the fcppt headers each slice includes

template <class X>
void collect(X const &x, std::vector<int> &out);

template <class X>
concept tracked_type = std::is_base_of_v<tkb, X>;
template <class X>
concept plain_range = requires(X const &x)
{
  x.begin();
  x.end();
};
template <class X>
struct is_std_tuple : std::false_type
{
};
template <class... Ts>
struct is_std_tuple<std::tuple<Ts...>> : std::true_type
{
};
template <class A, class B>
struct is_std_tuple<std::pair<A, B>> : std::true_type
{
};
template <class X>
struct is_unique_ptr : std::false_type
{
};
template <class T, class D>
struct is_unique_ptr<std::unique_ptr<T, D>> : std::true_type
{
};
template <class X>
concept has_collector = requires(X const &x, std::vector<int> &o)
{
  collector<X>::run(x, o);
};

template <class X>
void collect(X const &x, std::vector<int> &out)
{
  if constexpr (tracked_type<X>)
    out.push_back(x.peek());
  else if constexpr (has_collector<X>)
    collector<X>::run(x, out);
  else if constexpr (std::is_arithmetic_v<X> || std::is_enum_v<X> || std::is_same_v<X, std::string>)
    ;
  else if constexpr (is_std_tuple<X>::value)
    std::apply([&out](auto const &...e) { (collect(e, out), ...); }, x);
  else if constexpr (is_unique_ptr<X>::value)
  {
    if (x)
      collect(*x, out);
  }
  else if constexpr (plain_range<X>)
  {
    std::size_t n = 0;
    std::size_t const at = out.size();
    out.push_back(mk_seq);
    for (auto const &e : x)
    {
      collect(e, out);
      ++n;
    }
    out[at] = mk_seq - static_cast<int>(n);
  }
  else
    static_assert(sizeof(X) == 0, "c05::collect: no rule for this type");
}
template <class X>
std::vector<int> snapshot(X const &x)
{
  std::vector<int> r;
  collect(x, r);
  return r;
}
inline std::vector<int> payloads_of(std::vector<int> const &snap)
{
  std::vector<int> r;
  for (int v : snap)
    if (v > 0)
      r.push_back(v);
  return r;
}
inline std::string show(std::vector<int> const &v)
{
  std::string r = "[";
  for (std::size_t i = 0; i < v.size(); ++i)
  {
    if (i)
      r += ' ';
    r += std::to_string(v[i]);
  }
  return r + "]";
}

// ------------------------------------------------------------------ the per-case checker
enum class role : std::uint8_t
{
  none,
  rv,  // element of an argument passed as rvalue: must not be copied
  lv,  // element reachable from an lvalue / const argument: must not be moved from, assigned to, destroyed
  free // element the operation is documented to consume or overwrite although its container is an lvalue
};

struct stats_t
{
  vf::counter copies{"events/copy"}, copies_lv{"events/copy-of-lvalue-element"}, moves{"events/move"},
      assigns{"events/assign"}, dtors{"events/dtor"}, makes{"events/make"}, reads{"events/read"},
      compares{"events/compare"}, hashes{"events/hash"}, prints{"events/print"}, calls{"calls/judged"},
      in_call{"events/inside-calls"}, objects{"ledger/objects-created"}, destroyed{"ledger/objects-destroyed"},
      rv_moved{"elements/rvalue-moved"}, lv_kept{"arguments/lvalue-unchanged-checks"},
      results{"results/checked"}, results_all{"results/keep-all-checked"}, selfmove{"events/self-move-assign"},
      chain1{"move-chain/1"}, chain2{"move-chain/2-3"}, chain4{"move-chain/4-7"}, chain8{"move-chain/8-15"},
      chain16{"move-chain/16+"};
};
inline stats_t &stats()
{
  static stats_t s;
  return s;
}

class case_t
{
public:
  case_t(std::string entry, std::string cats, std::uint64_t seed)
      : entry_(std::move(entry)), cats_(std::move(cats)), g_(seed)
  {
    next_payload_ = 1 + 10 * static_cast<int>(g_.below(5000));
  }
  vf::rng &rng() { return g_; }
  // a fresh payload id (never reused within a case)
  int fresh() { return next_payload_++; }
  void set_role(int payload, role r) { roles_[payload] = r; }

  // Registers argument number idx, passed with category cat: its elements get the role that follows
  // from the category and, for lvalues, the contents are remembered for unchanged().
  template <class A>
  void arg(int idx, int cat, A const &a)
  {
    std::vector<int> s = snapshot(a);
    for (int p : payloads_of(s))
      roles_[p] = cat == cat_r ? role::rv : role::lv;
    if (before_.size() <= static_cast<std::size_t>(idx))
      before_.resize(static_cast<std::size_t>(idx) + 1);
    before_[static_cast<std::size_t>(idx)] = std::move(s);
    vf::extend_case(" arg%d=%c%s", idx, cat_char(cat), show(before_[static_cast<std::size_t>(idx)]).c_str());
  }
  // a container the operation is documented to modify (pop_back, tree::push_back, ...): elements are
  // pinned like lvalue elements unless released explicitly with set_role(p, role::free)
  template <class A>
  void subject(int idx, A const &a)
  {
    arg(idx, cat_l, a);
  }
  void begin()
  {
    put(ek::call_begin, 0, 0, 0);
    ++stats().calls;
  }
  void end() { put(ek::call_end, 0, 0, 0); }

  std::string key(std::string const &cls) const { return entry_ + "[" + cats_ + "]/" + cls; }
  // observed-only cases (operations / container kinds outside the judged registry): never a violation
  void observed_only(bool b) { observed_ = b; }
  void viol(std::string const &cls, std::string const &kind, std::string const &detail)
  {
    if (observed_)
    {
      vf::count("finding-" + key(cls));
      // stable text (no object numbers), so that equal observations are merged
      std::string::size_type const cut = detail.find(": object #");
      vf::observation(key(cls) + ": " + (cut == std::string::npos ? std::string(kind) : detail.substr(0, cut)) +
                      " (observed only, not judged)");
    }
    else
      vf::violation(key(cls), kind, detail);
  }

  // an lvalue / const argument must hold exactly what it held before the call
  template <class A>
  void unchanged(int idx, A const &a)
  {
    std::vector<int> now = snapshot(a);
    ++stats().lv_kept;
    if (now != before_.at(static_cast<std::size_t>(idx)))
      viol("lvalue-argument-changed", "mismatch",
                    "argument " + std::to_string(idx) + " before=" + show(before_[static_cast<std::size_t>(idx)]) +
                        " after=" + show(now));
  }
  // Result conservation.  got: payloads found in the result (and in whatever else the operation
  // leaves elements in); no element may occur twice.  want != nullptr: the operation is documented
  // to keep exactly these elements (compared as multisets of x % derived_offset).
  void result(std::vector<int> const &got_snap, std::vector<int> const *want)
  {
    ++stats().results;
    std::vector<int> got;
    for (int p : payloads_of(got_snap))
      got.push_back(p % derived_offset);
    for (int v : got_snap)
      if (v == -1)
        viol("moved-from-object-in-result", "mismatch", "result=" + show(got_snap));
    std::vector<int> sorted = got;
    std::sort(sorted.begin(), sorted.end());
    if (std::adjacent_find(sorted.begin(), sorted.end()) != sorted.end())
      viol("element-duplicated-in-result", "mismatch", "result=" + show(got_snap));
    if (want)
    {
      ++stats().results_all;
      std::vector<int> w;
      for (int p : *want)
        w.push_back(p % derived_offset);
      std::sort(w.begin(), w.end());
      if (w != sorted)
      {
        bool lost = false;
        for (int p : w)
          if (!std::binary_search(sorted.begin(), sorted.end(), p))
            lost = true;
        viol(lost ? "element-lost" : "unexpected-element-in-result", "mismatch",
                      "result=" + show(got_snap) + " documented to hold " + show(*want));
      }
    }
    vf::extend_case(" result=%s", show(got_snap).c_str());
  }
  template <class R>
  void result_of(R const &r, std::vector<int> const *want)
  {
    result(snapshot(r), want);
  }

  // Replays the log (called after every object of the case has gone out of scope).
  void finish()
  {
    struct ost
    {
      std::uint8_t st = 0; // 0 unborn, 1 live, 2 moved-from, 3 destroyed
      int payload = 0;
      bool pinned = false;
      bool born_in_call = false;
    };
    log_t &lg = the_log();
    std::vector<ost> o(lg.next_id + 1);
    std::map<int, unsigned> chain; // payload -> moves inside calls
    bool in_call = false;
    stats_t &s = stats();
    auto role_of = [&](int payload) {
      auto it = roles_.find(payload);
      return it == roles_.end() ? role::none : it->second;
    };
    auto bad = [&](char const *cls, event const &e, char const *what) {
      viol(cls, "event-log",
           std::string(what) + ": object #" + std::to_string(e.self) + " other #" + std::to_string(e.other) +
                        " payload " + std::to_string(e.payload) + (in_call ? " (inside the call)" : " (outside the call)"));
    };
    // source of a copy / move / comparison / read must be a live object
    auto source_ok = [&](std::uint32_t id, event const &e, char const *how) {
      if (id >= o.size() || o[id].st == 0 || o[id].st == 3)
      {
        bad("use-of-dead-object", e, how);
        return false;
      }
      if (o[id].st == 2)
      {
        bad((std::string("read-of-moved-from-object/") + how).c_str(), e, "source was moved from and never reassigned");
        return false;
      }
      return true;
    };
    for (event const &e : lg.ev)
    {
      if (in_call)
        ++s.in_call;
      switch (e.kind)
      {
      case ek::call_begin:
        in_call = true;
        for (ost &x : o)
          x.pinned = x.st == 1 && role_of(x.payload) == role::lv;
        break;
      case ek::call_end:
        in_call = false;
        for (ost &x : o)
          x.pinned = false;
        break;
      case ek::make:
      case ek::defctor:
        ++s.makes;
        ++s.objects;
        o[e.self] = ost{1, e.payload, false, in_call};
        break;
      case ek::copy:
      {
        ++s.copies;
        ++s.objects;
        bool ok = source_ok(e.other, e, "copy");
        ost const src = e.other < o.size() ? o[e.other] : ost{};
        if (ok && in_call)
        {
          role r = role_of(src.payload);
          if (r == role::rv)
            bad("copy-of-rvalue-element", e, "an element of an rvalue argument was copied");
          else if (r == role::lv || r == role::free)
            ++s.copies_lv;
          else if (src.born_in_call)
            bad("copy-of-produced-value", e, "a value produced during the call (continuation result) was copied");
        }
        o[e.self] = ost{static_cast<std::uint8_t>(src.st == 2 ? 2 : 1), src.payload, false, in_call};
        break;
      }
      case ek::move:
      {
        ++s.moves;
        ++s.objects;
        bool ok = source_ok(e.other, e, "move");
        ost src = e.other < o.size() ? o[e.other] : ost{};
        if (ok && in_call)
        {
          if (src.pinned)
            bad("moved-from-lvalue-element", e, "an element reachable from an lvalue/const argument was moved from");
          ++chain[src.payload];
          if (role_of(src.payload) == role::rv)
            ++s.rv_moved;
        }
        o[e.self] = ost{static_cast<std::uint8_t>(src.st == 2 ? 2 : 1), src.payload, false, in_call};
        if (e.other < o.size() && o[e.other].st == 1)
          o[e.other].st = 2;
        break;
      }
      case ek::assign_copy:
      case ek::assign_move:
      {
        ++s.assigns;
        if (e.self == e.other)
        {
          ++s.selfmove;
          break;
        }
        bool const is_move = e.kind == ek::assign_move;
        bool ok = source_ok(e.other, e, is_move ? "move-assign" : "copy-assign");
        ost src = e.other < o.size() ? o[e.other] : ost{};
        if (e.self >= o.size() || o[e.self].st == 0 || o[e.self].st == 3)
          bad("use-of-dead-object", e, "assignment to an object that is not alive");
        if (in_call && e.self < o.size() && o[e.self].pinned)
          bad("assigned-to-lvalue-element", e, "an element reachable from an lvalue/const argument was overwritten");
        if (ok && in_call)
        {
          if (is_move)
          {
            if (src.pinned)
              bad("moved-from-lvalue-element", e, "an element reachable from an lvalue/const argument was moved from");
            ++chain[src.payload];
          }
          else
          {
            role r = role_of(src.payload);
            if (r == role::rv)
              bad("copy-of-rvalue-element", e, "an element of an rvalue argument was copy-assigned");
            else if (r == role::lv || r == role::free)
              ++s.copies_lv;
            else if (src.born_in_call)
              bad("copy-of-produced-value", e, "a value produced during the call was copy-assigned");
          }
        }
        if (e.self < o.size())
        {
          o[e.self].st = static_cast<std::uint8_t>(src.st == 2 ? 2 : 1);
          o[e.self].payload = src.payload;
        }
        if (is_move && e.other < o.size() && o[e.other].st == 1)
          o[e.other].st = 2;
        break;
      }
      case ek::reset:
        if (e.self < o.size())
        {
          if (in_call && o[e.self].pinned)
            bad("assigned-to-lvalue-element", e, "an element reachable from an lvalue/const argument was overwritten");
          o[e.self].st = 1;
          o[e.self].payload = e.payload;
          o[e.self].born_in_call = in_call;
        }
        break;
      case ek::dtor:
        ++s.dtors;
        if (e.self >= o.size() || o[e.self].st == 0)
          bad("use-of-dead-object", e, "destructor of an object that was never constructed");
        else if (o[e.self].st == 3)
          bad("destroyed-twice", e, "destructor ran twice");
        else
        {
          if (in_call && o[e.self].pinned)
            bad("lvalue-element-destroyed", e, "an element reachable from an lvalue/const argument was destroyed");
          o[e.self].st = 3;
          ++s.destroyed;
        }
        break;
      case ek::eq:
      case ek::lt:
        ++s.compares;
        source_ok(e.self, e, "compare");
        source_ok(e.other, e, "compare");
        break;
      case ek::hash:
        ++s.hashes;
        source_ok(e.self, e, "hash");
        break;
      case ek::print:
        ++s.prints;
        source_ok(e.self, e, "output");
        break;
      case ek::read:
        ++s.reads;
        source_ok(e.self, e, "payload-read");
        break;
      }
    }
    // ledger: everything constructed during the case has been destroyed exactly once
    unsigned alive = 0;
    for (std::size_t i = 1; i < o.size(); ++i)
      if (o[i].st == 1 || o[i].st == 2)
        ++alive;
    if (alive)
      viol("never-destroyed", "event-log",
                    std::to_string(alive) + " object(s) constructed during the case were never destroyed");
    unsigned mx = 0;
    for (auto const &kv : chain)
    {
      mx = std::max(mx, kv.second);
      if (kv.second >= 16)
        ++s.chain16;
      else if (kv.second >= 8)
        ++s.chain8;
      else if (kv.second >= 4)
        ++s.chain4;
      else if (kv.second >= 2)
        ++s.chain2;
      else
        ++s.chain1;
    }
    vf::count_max("max/move-chain-length", mx);
    vf::count_max("max/events-per-case", lg.ev.size());
  }

private:
  std::string entry_, cats_;
  vf::rng g_;
  int next_payload_ = 1;
  std::map<int, role> roles_;
  std::vector<std::vector<int>> before_;
  bool observed_ = false;
};

// while an observed_scope is alive every case is observed only (entry names get the prefix observed/)
inline bool &observed_flag()
{
  static bool b = false;
  return b;
}
struct observed_scope
{
  observed_scope() { observed_flag() = true; }
  ~observed_scope() { observed_flag() = false; }
};
inline std::uint64_t &case_counter()
{
  static std::uint64_t c = 0;
  return c;
}

// One judged case: body(cx) builds the arguments, calls the operation between cx.begin()/cx.end(),
// hands the result to cx.result*(), and lets everything go out of scope; then the log is replayed.
template <class Body>
void run_case(std::string const &entry_name, std::string const &cats, std::string const &shape, Body &&body)
{
  std::string const entry = observed_flag() ? "observed/" + entry_name : entry_name;
  std::uint64_t const idx = case_counter()++;
  if (!vf::entry_enabled(entry) || !vf::mine(idx))
    return;
  vf::set_entry(entry);
  if (!vf::begin_case("[%s] %s", cats.c_str(), shape.c_str()))
    return;
  vf::sample_case(1);
  std::uint64_t const h = vf::hash_mix(vf::hash_str(entry), vf::hash_str(cats + "|" + shape));
  vf::note_distinct(h);
  vf::count("cases/cat-" + cats);
  the_log().reset();
  case_t cx(entry, cats, vf::seed_for(entry, h));
  cx.observed_only(observed_flag());
  vf::count(observed_flag() ? "cases/observed-only" : "cases/judged");
  {
    body(cx);
  }
  cx.finish();
}

// ------------------------------------------------------------------ building arguments
template <class T>
T mk(case_t &cx)
{
  return T(make_t{}, cx.fresh());
}
// sequence containers with push_back
template <class C>
C make_seq(case_t &cx, unsigned n)
{
  C c;
  using T = typename C::value_type;
  for (unsigned i = 0; i < n; ++i)
    c.push_back(T(make_t{}, cx.fresh()));
  return c;
}
template <class T, std::size_t... I>
std::array<T, sizeof...(I)> make_std_array_impl(case_t &cx, std::index_sequence<I...>)
{
  return std::array<T, sizeof...(I)>{{((void)I, T(make_t{}, cx.fresh()))...}};
}
template <class T, std::size_t N>
std::array<T, N> make_std_array(case_t &cx)
{
  return make_std_array_impl<T>(cx, std::make_index_sequence<N>{});
}

// ------------------------------------------------------------------ continuations (never take by value, never copy)
// rvalue in -> moved into the result (payload kept); lvalue in -> new derived value
template <class Out>
struct conv
{
  template <class X>
  Out operator()(X &&x) const
  {
    using in = std::remove_reference_t<X>;
    if constexpr (std::is_rvalue_reference_v<X &&> && !std::is_const_v<in>)
    {
      if constexpr (std::is_same_v<in, Out>)
        return Out(std::move(x));
      else
        return Out(convert_t{}, std::move(x));
    }
    else
      return Out(derive_t{}, x);
  }
};
// the set of payloads a predicate accepts is drawn per case
struct keep_set
{
  std::set<int> keep;
  bool operator()(tkb const &x) const { return keep.count(x.read() % derived_offset) != 0; }
};
}

#endif
