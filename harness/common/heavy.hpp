// vf::heavy - an exact integer scalar whose value lives on the heap and whose MOVE IS NOT A COPY.
//
// Why: the value-driven harnesses instantiate the math / container templates with int, long, unsigned ...;
// for those a move is a copy, a moved-from operand still holds its value and reading an object after moving from
// it is invisible.  A number class that owns its representation (big integer, rational, decimal) is an ordinary
// instantiation of the same templates ("every scalar type") and makes all of that observable:
//   * a moved-from heavy reads as the poison value `heavy::poison` (and the read is counted), so an operand that
//     was moved although it was passed as an lvalue, or that is read after it was moved, changes a judged value;
//   * every construction, copy, move and destruction is counted; live objects are tracked in a ledger, so a
//     leaked or doubly destroyed element shows as an imbalance at the end of the run (heavy_ledger_balanced()).
// The type is deliberately small: + - * / % unary-, comparisons, stream i/o, std::hash, fcppt::make_literal.
#ifndef VF_HEAVY_HPP_INCLUDED
#define VF_HEAVY_HPP_INCLUDED

#include <fcppt/make_literal_fwd.hpp>

#include <cstddef>
#include <cstdint>
#include <functional>
#include <istream>
#include <memory>
#include <ostream>
#include <type_traits>
#include <utility>

namespace vf
{
struct heavy_stats_t
{
  std::uint64_t constructed = 0, copied = 0, moved = 0, destroyed = 0, moved_from_reads = 0;
  std::int64_t live = 0;
};
inline heavy_stats_t &heavy_stats()
{
  static heavy_stats_t s;
  return s;
}

class heavy
{
public:
  using rep = long long;
  static constexpr rep poison = 7777;

  heavy() : p_(new rep(0)) { born(); }
  // implicit from every arithmetic type, like a big-integer class (fcppt code writes T(0), static_cast<T>(x), T{1})
  template <typename A, typename = std::enable_if_t<std::is_arithmetic_v<A>>>
  heavy(A const v) : p_(new rep(static_cast<rep>(v))) // NOLINT
  {
    born();
  }
  heavy(heavy const &o) : p_(new rep(o.get()))
  {
    born();
    ++heavy_stats().copied;
  }
  heavy(heavy &&o) noexcept : p_(o.p_)
  {
    o.p_ = nullptr;
    ++heavy_stats().constructed;
    ++heavy_stats().live;
    ++heavy_stats().moved;
  }
  heavy &operator=(heavy const &o)
  {
    if (this != &o)
    {
      rep const v = o.get();
      delete p_;
      p_ = new rep(v);
      ++heavy_stats().copied;
    }
    return *this;
  }
  heavy &operator=(heavy &&o) noexcept
  {
    if (this != &o)
    {
      delete p_;
      p_ = o.p_;
      o.p_ = nullptr;
      ++heavy_stats().moved;
    }
    return *this;
  }
  ~heavy()
  {
    delete p_;
    p_ = nullptr;
    ++heavy_stats().destroyed;
    --heavy_stats().live;
  }

  [[nodiscard]] bool moved_from() const { return p_ == nullptr; }
  [[nodiscard]] rep get() const
  {
    if (p_ == nullptr)
    {
      ++heavy_stats().moved_from_reads;
      return poison;
    }
    return *p_;
  }
  explicit operator rep() const { return get(); }
  explicit operator long() const { return static_cast<long>(get()); }
  explicit operator int() const { return static_cast<int>(get()); }
  explicit operator unsigned() const { return static_cast<unsigned>(get()); }
  explicit operator unsigned long() const { return static_cast<unsigned long>(get()); }
  explicit operator double() const { return static_cast<double>(get()); }

  heavy &operator+=(heavy const &o) { return set(get() + o.get()); }
  heavy &operator-=(heavy const &o) { return set(get() - o.get()); }
  heavy &operator*=(heavy const &o) { return set(get() * o.get()); }
  heavy &operator/=(heavy const &o) { return set(get() / o.get()); }
  heavy &operator%=(heavy const &o) { return set(get() % o.get()); }
  heavy &operator++() { return set(get() + 1); }
  heavy &operator--() { return set(get() - 1); }
  heavy operator++(int)
  {
    heavy r(*this);
    set(get() + 1);
    return r;
  }

private:
  heavy &set(rep const v)
  {
    if (p_ == nullptr)
      p_ = new rep(v);
    else
      *p_ = v;
    return *this;
  }
  void born()
  {
    ++heavy_stats().constructed;
    ++heavy_stats().live;
  }
  rep *p_;
};

inline heavy operator+(heavy const &a, heavy const &b) { return heavy(a.get() + b.get()); }
inline heavy operator-(heavy const &a, heavy const &b) { return heavy(a.get() - b.get()); }
inline heavy operator*(heavy const &a, heavy const &b) { return heavy(a.get() * b.get()); }
inline heavy operator/(heavy const &a, heavy const &b) { return heavy(a.get() / b.get()); }
inline heavy operator%(heavy const &a, heavy const &b) { return heavy(a.get() % b.get()); }
inline heavy operator-(heavy const &a) { return heavy(-a.get()); }
inline heavy operator+(heavy const &a) { return heavy(a.get()); }
inline bool operator==(heavy const &a, heavy const &b) { return a.get() == b.get(); }
inline bool operator!=(heavy const &a, heavy const &b) { return a.get() != b.get(); }
inline bool operator<(heavy const &a, heavy const &b) { return a.get() < b.get(); }
inline bool operator<=(heavy const &a, heavy const &b) { return a.get() <= b.get(); }
inline bool operator>(heavy const &a, heavy const &b) { return a.get() > b.get(); }
inline bool operator>=(heavy const &a, heavy const &b) { return a.get() >= b.get(); }
template <typename Ch, typename Tr>
std::basic_ostream<Ch, Tr> &operator<<(std::basic_ostream<Ch, Tr> &s, heavy const &v)
{
  return s << v.get();
}
template <typename Ch, typename Tr>
std::basic_istream<Ch, Tr> &operator>>(std::basic_istream<Ch, Tr> &s, heavy &v)
{
  heavy::rep r{};
  if (s >> r)
    v = heavy(r);
  return s;
}
// true when every heavy that was constructed has been destroyed exactly once (call at a quiescent point)
inline bool heavy_ledger_balanced() { return heavy_stats().live == 0; }

// vf::natural - an exact scalar for the natural numbers 0, 1, 2, ...: there is no negative value, so negation is NOT the
// additive inverse (-n saturates to 0 for n != 0, as does a - b for b > a; both are counted as domain errors).  Code that
// is written for "an unsigned scalar" and whose mathematically exact result is a natural number must not depend on
// wrap-around: built-in unsigned types forgive  x + (-v)  for  x - v, this type does not.
inline std::uint64_t &natural_domain_errors()
{
  static std::uint64_t n = 0;
  return n;
}
class natural
{
public:
  using rep = unsigned long long;
  natural() = default;
  template <typename A, typename = std::enable_if_t<std::is_arithmetic_v<A>>>
  natural(A const v) : v_(v < A(0) ? (++natural_domain_errors(), rep{0}) : static_cast<rep>(v)) // NOLINT
  {
  }
  [[nodiscard]] rep get() const { return v_; }
  explicit operator long long() const { return static_cast<long long>(v_); }
  explicit operator unsigned long long() const { return v_; }
  explicit operator long() const { return static_cast<long>(v_); }
  explicit operator int() const { return static_cast<int>(v_); }
  explicit operator unsigned() const { return static_cast<unsigned>(v_); }
  explicit operator unsigned long() const { return static_cast<unsigned long>(v_); }
  explicit operator double() const { return static_cast<double>(v_); }
  natural &operator+=(natural const &o)
  {
    v_ += o.v_;
    return *this;
  }
  natural &operator-=(natural const &o)
  {
    if (o.v_ > v_)
    {
      ++natural_domain_errors();
      v_ = 0;
    }
    else
      v_ -= o.v_;
    return *this;
  }
  natural &operator*=(natural const &o)
  {
    v_ *= o.v_;
    return *this;
  }
  natural &operator/=(natural const &o)
  {
    v_ /= o.v_;
    return *this;
  }
  natural &operator%=(natural const &o)
  {
    v_ %= o.v_;
    return *this;
  }
  natural &operator++()
  {
    ++v_;
    return *this;
  }

private:
  rep v_ = 0;
};
inline natural operator+(natural a, natural const &b) { return a += b; }
inline natural operator-(natural a, natural const &b) { return a -= b; }
inline natural operator*(natural a, natural const &b) { return a *= b; }
inline natural operator/(natural a, natural const &b) { return a /= b; }
inline natural operator%(natural a, natural const &b) { return a %= b; }
inline natural operator-(natural const &a)
{
  if (a.get() != 0)
    ++natural_domain_errors();
  return natural();
}
inline natural operator+(natural const &a) { return a; }
inline bool operator==(natural const &a, natural const &b) { return a.get() == b.get(); }
inline bool operator!=(natural const &a, natural const &b) { return a.get() != b.get(); }
inline bool operator<(natural const &a, natural const &b) { return a.get() < b.get(); }
inline bool operator<=(natural const &a, natural const &b) { return a.get() <= b.get(); }
inline bool operator>(natural const &a, natural const &b) { return a.get() > b.get(); }
inline bool operator>=(natural const &a, natural const &b) { return a.get() >= b.get(); }
template <typename Ch, typename Tr>
std::basic_ostream<Ch, Tr> &operator<<(std::basic_ostream<Ch, Tr> &s, natural const &v)
{
  return s << v.get();
}
}

namespace std
{
inline vf::natural abs(vf::natural const &v) { return v; }
}
namespace std
{
template <>
struct hash<vf::natural>
{
  std::size_t operator()(vf::natural const &v) const noexcept { return std::hash<unsigned long long>{}(v.get()); }
};
}

namespace fcppt
{
template <>
struct make_literal<vf::natural, void>
{
  using decorated_type = vf::natural;
  template <typename Arg>
  static decorated_type get(Arg const v)
  {
    return vf::natural(v);
  }
};
}

namespace vf
{
}

// library code written for "a scalar" may call std::abs on it (fcppt::math::diff does): a number class brings its own.
// (Declared here, ahead of the library headers, so that a qualified std::abs inside a library template finds them; a
// harness that does not compile on some tree decides nothing.)
namespace std
{
inline vf::heavy abs(vf::heavy const &v) { return vf::heavy(v.get() < 0 ? -v.get() : v.get()); }
}
namespace std
{
template <>
struct hash<vf::heavy>
{
  std::size_t operator()(vf::heavy const &v) const noexcept { return std::hash<long long>{}(v.get()); }
};
}

namespace fcppt
{
template <>
struct make_literal<vf::heavy, void>
{
  using decorated_type = vf::heavy;
  template <typename Arg>
  static decorated_type get(Arg const v)
  {
    return vf::heavy(static_cast<long long>(v));
  }
};
}

#endif
