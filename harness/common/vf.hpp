// Common harness runtime for the fcppt runtime-monitoring checks.
//
// Every harness is a deterministic function of (tier, seed, part i/n).  It reports
//   * violations  : JSON lines {"t":"viol",...} on the --out file
//   * statistics  : one JSON line {"t":"stats",...} at normal exit
//   * a witness   : "WITNESS kind=<abort|segv|alarm|...> idx=<n> case=<...>" written with
//                   write(2) from a signal handler, so that every sanitizer / libstdc++
//                   assertion abort is attributed to the case that was running.
// Header-only on purpose: a harness is one translation unit plus this file.
#ifndef VF_HPP_INCLUDED
#define VF_HPP_INCLUDED

#include <algorithm>
#include <cinttypes>
#include <csignal>
#include <cstdarg>
#include <cstdint>
#include <cstdio>
#include <cstdlib>
#include <cstring>
#include <fcntl.h>
#include <map>
#include <sstream>
#include <string>
#include <string_view>
#include <type_traits>
#include <unistd.h>
#include <unordered_set>
#include <vector>

namespace vf
{

// ---------------------------------------------------------------- PRNG
inline std::uint64_t splitmix(std::uint64_t &s)
{
  std::uint64_t z = (s += 0x9E3779B97F4A7C15ULL);
  z = (z ^ (z >> 30)) * 0xBF58476D1CE4E5B9ULL;
  z = (z ^ (z >> 27)) * 0x94D049BB133111EBULL;
  return z ^ (z >> 31);
}

inline std::uint64_t hash_bytes(void const *p, std::size_t n, std::uint64_t h = 0xcbf29ce484222325ULL)
{
  auto const *c = static_cast<unsigned char const *>(p);
  for (std::size_t i = 0; i < n; ++i)
  {
    h ^= c[i];
    h *= 0x100000001b3ULL;
  }
  return h;
}
inline std::uint64_t hash_str(std::string_view s, std::uint64_t h = 0xcbf29ce484222325ULL)
{
  return hash_bytes(s.data(), s.size(), h);
}
inline std::uint64_t hash_mix(std::uint64_t a, std::uint64_t b)
{
  std::uint64_t s = a ^ (b + 0x9E3779B97F4A7C15ULL + (a << 6) + (a >> 2));
  return splitmix(s);
}

// Fuzz mode (-DVF_FUZZ, clang libFuzzer builds of the history harnesses): every rng draws its values from the fuzzer's
// byte string instead of from the PRNG, so that a history is a function of the bytes and coverage feedback steers the
// histories. An exhausted byte string yields zeros (the generators' loops are bounded by their own lengths).
struct fuzz_src_t
{
  std::uint8_t const *p = nullptr;
  std::size_t n = 0, i = 0;
  bool active = false;
  std::uint64_t take(unsigned bytes)
  {
    std::uint64_t v = 0;
    for (unsigned k = 0; k < bytes; ++k)
      v |= static_cast<std::uint64_t>(i < n ? p[i++] : 0) << (8 * k);
    return v;
  }
};
inline fuzz_src_t &fuzz_src()
{
  static fuzz_src_t f;
  return f;
}

struct rng
{
  std::uint64_t s;
  explicit rng(std::uint64_t seed) : s(seed) {}
  std::uint64_t next()
  {
#ifdef VF_FUZZ
    if (fuzz_src().active)
      return fuzz_src().take(8);
#endif
    return splitmix(s);
  }
  // uniform in [0,n)  (n > 0); modulo bias is irrelevant here
  std::uint64_t below(std::uint64_t n)
  {
#ifdef VF_FUZZ
    if (fuzz_src().active)
      return fuzz_src().take(n <= 256 ? 1 : n <= 65536 ? 2 : 8) % n;
#endif
    return next() % n;
  }
  // uniform in [lo,hi]
  long long range(long long lo, long long hi)
  {
    return lo + static_cast<long long>(below(static_cast<std::uint64_t>(hi - lo) + 1U));
  }
  bool chance(unsigned num, unsigned den) { return below(den) < num; }
  template <typename C>
  auto const &pick(C const &c)
  {
    return c[below(c.size())];
  }
};

// ---------------------------------------------------------------- options
struct options_t
{
  bool thorough = false;
  std::uint64_t seed = 1;
  unsigned part = 0, nparts = 1;
  std::uint64_t from = 0;              // skip cases with index < from
  std::uint64_t until = ~std::uint64_t{0}; // skip cases with index > until
  std::string out;
  std::string only_entry;              // run only entries whose name starts with this
  unsigned alarm_s = 60;
  std::vector<std::string> extra;      // harness specific
};
inline options_t &opts()
{
  static options_t o;
  return o;
}
inline bool thorough() { return opts().thorough; }
template <typename T>
inline T tier(T quick, T thorough_v)
{
  return opts().thorough ? thorough_v : quick;
}
inline bool has_extra(std::string const &s)
{
  return std::find(opts().extra.begin(), opts().extra.end(), s) != opts().extra.end();
}

// ---------------------------------------------------------------- state
struct state_t
{
  int out_fd = 1;
  char witness[8192];
  std::uint64_t case_idx = 0; // index of the running case (1-based once started)
  std::uint64_t evaluations = 0;
  std::uint64_t skipped = 0;
  std::map<std::string, std::uint64_t> counters;
  std::vector<std::string> required;
  std::vector<std::string> samples;
  std::vector<std::string> observations;
  std::unordered_set<std::uint64_t> distinct;
  std::map<std::string, std::uint64_t> viol_counts;
  std::uint64_t viol_total = 0;
  std::string entry; // current registry entry
  // operand slots for hot loops: cheap to update per evaluation, printed by the signal handler
  volatile long long op[4] = {0, 0, 0, 0};
};
inline state_t &st()
{
  static state_t s;
  return s;
}
constexpr std::size_t distinct_cap = std::size_t{1} << 18;

inline std::string json_escape(std::string_view s)
{
  std::string r;
  r.reserve(s.size() + 8);
  for (unsigned char c : s)
  {
    switch (c)
    {
    case '"': r += "\\\""; break;
    case '\\': r += "\\\\"; break;
    case '\n': r += "\\n"; break;
    case '\r': r += "\\r"; break;
    case '\t': r += "\\t"; break;
    default:
      if (c < 0x20 || c >= 0x7f)
      {
        char b[8];
        std::snprintf(b, sizeof b, "\\u%04x", c);
        r += b;
      }
      else
        r += static_cast<char>(c);
    }
  }
  return r;
}

inline void write_all(int fd, char const *p, std::size_t n)
{
  while (n > 0)
  {
    ssize_t w = ::write(fd, p, n);
    if (w <= 0)
      return;
    p += w;
    n -= static_cast<std::size_t>(w);
  }
}
inline void emit_line(std::string const &s)
{
  std::string l = s;
  l += '\n';
  write_all(st().out_fd, l.data(), l.size());
}

// ---------------------------------------------------------------- cases
// Seed for an entry / case that does not depend on the position in the registry.
inline std::uint64_t seed_for(std::string_view entry, std::uint64_t idx = 0)
{
  return hash_mix(hash_mix(opts().seed, hash_str(entry)), hash_mix(opts().part, idx));
}

inline void set_entry(std::string const &e) { st().entry = e; }

// Starts a case: returns false if the case is to be skipped (resume/replay window).
// The description is what ends up in the WITNESS line.
__attribute__((format(printf, 1, 2))) inline bool begin_case(char const *fmt, ...)
{
  state_t &s = st();
  ++s.case_idx;
  if (s.case_idx < opts().from || s.case_idx > opts().until)
  {
    ++s.skipped;
    return false;
  }
  va_list ap;
  va_start(ap, fmt);
  int n = std::snprintf(s.witness, sizeof s.witness, "%s ", s.entry.c_str());
  if (n < 0)
    n = 0;
  std::vsnprintf(s.witness + n, sizeof s.witness - static_cast<std::size_t>(n), fmt, ap);
  va_end(ap);
  ++s.evaluations;
#ifndef VF_FUZZ
  ::alarm(opts().alarm_s);
#endif
  return true;
}
// Appends to the witness of the running case (operation histories grow step by step,
// so that an abort a few steps after the faulty operation still shows the history).
__attribute__((format(printf, 1, 2))) inline void extend_case(char const *fmt, ...)
{
  state_t &s = st();
  std::size_t l = std::strlen(s.witness);
  if (l + 2 >= sizeof s.witness)
    return;
  va_list ap;
  va_start(ap, fmt);
  std::vsnprintf(s.witness + l, sizeof s.witness - l, fmt, ap);
  va_end(ap);
}
inline char const *current_case() { return st().witness; }
inline void add_evals(std::uint64_t n) { st().evaluations += n; }
inline void operands(long long a, long long b = 0, long long c = 0, long long d = 0)
{
  state_t &s = st();
  s.op[0] = a;
  s.op[1] = b;
  s.op[2] = c;
  s.op[3] = d;
}

// Records the canonical hash of a (non-trivial) case for the distinct count.
inline void note_distinct(std::uint64_t h)
{
  state_t &s = st();
  if (s.distinct.size() < distinct_cap)
    s.distinct.insert(h);
}
inline void count(std::string const &bucket, std::uint64_t n = 1) { st().counters[bucket] += n; }
// A counter for hot loops: a plain integer that is merged into the bucket map at exit.
struct counter
{
  char const *name;
  std::uint64_t n = 0;
  explicit counter(char const *nm);
  void operator++() { ++n; }
  void operator+=(std::uint64_t k) { n += k; }
};
inline std::vector<counter *> &fast_counters()
{
  static std::vector<counter *> v;
  return v;
}
inline counter::counter(char const *nm) : name(nm) { fast_counters().push_back(this); }
inline void count_max(std::string const &bucket, std::uint64_t v)
{
  auto &c = st().counters[bucket];
  if (v > c)
    c = v;
}
inline void require_bucket(std::string const &bucket)
{
  state_t &s = st();
  if (std::find(s.required.begin(), s.required.end(), bucket) == s.required.end())
    s.required.push_back(bucket);
  s.counters[bucket] += 0;
}
inline void sample(std::string const &txt, std::size_t max_samples = 6)
{
  state_t &s = st();
  if (s.samples.size() < max_samples)
    s.samples.push_back(txt);
}
// sample the first few cases of each entry
inline void sample_case(std::size_t per_entry = 2)
{
  state_t &s = st();
  std::string k = "_samples/" + s.entry;
  auto &c = s.counters[k];
  if (c < per_entry && s.samples.size() < 40)
  {
    ++c;
    s.samples.push_back(s.witness);
  }
}
inline void observation(std::string const &txt)
{
  state_t &s = st();
  if (s.observations.size() < 50 &&
      std::find(s.observations.begin(), s.observations.end(), txt) == s.observations.end())
    s.observations.push_back(txt);
}

// A model/monitor mismatch.  key: stable, specific; detail: what was seen vs expected.
inline void violation(std::string const &key, std::string const &kind, std::string const &detail)
{
  state_t &s = st();
#ifdef VF_FUZZ
  if (fuzz_src().active)
  {
    // libFuzzer keeps the input of a crashing run as an artifact: a violation ends the process
    std::string l = "VF-VIOLATION key=" + key + " kind=" + kind + " case=" + s.witness + " detail=" + detail + "\n";
    write_all(2, l.data(), l.size());
    std::abort();
  }
#endif
  ++s.viol_total;
  auto &c = s.viol_counts[key];
  ++c;
  if (c > 3 || s.viol_counts.size() > 200)
    return;
  std::string l = "{\"t\":\"viol\",\"key\":\"" + json_escape(key) + "\",\"kind\":\"" + json_escape(kind) +
                  "\",\"entry\":\"" + json_escape(s.entry) + "\",\"idx\":" + std::to_string(s.case_idx) +
                  ",\"case\":\"" + json_escape(s.witness) + "\",\"detail\":\"" + json_escape(detail) + "\"}";
  emit_line(l);
}
template <typename A, typename B>
inline bool check_eq(A const &got, B const &want, std::string const &key, char const *what = "")
{
  if (got == want)
    return true;
  std::ostringstream o;
  o << what << " got=" << got << " want=" << want;
  violation(key, "mismatch", o.str());
  return false;
}
inline bool check(bool ok, std::string const &key, std::string const &detail = "")
{
  if (!ok)
    violation(key, "mismatch", detail);
  return ok;
}

// ---------------------------------------------------------------- signals
inline void sig_handler(int sig)
{
  char const *kind = sig == SIGABRT   ? "abort"
                     : sig == SIGSEGV ? "segv"
                     : sig == SIGBUS  ? "bus"
                     : sig == SIGFPE  ? "fpe"
                     : sig == SIGILL  ? "ill"
                     : sig == SIGALRM ? "alarm"
                                      : "signal";
  state_t &s = st();
  char buf[9000];
  int n = std::snprintf(buf, sizeof buf, "WITNESS kind=%s idx=%" PRIu64 " case=[ops %lld %lld %lld %lld] ", kind,
                        s.case_idx, s.op[0], s.op[1], s.op[2], s.op[3]);
  if (n < 0)
    n = 0;
  std::size_t l = std::strlen(s.witness);
  if (l > sizeof buf - static_cast<std::size_t>(n) - 2)
    l = sizeof buf - static_cast<std::size_t>(n) - 2;
  std::memcpy(buf + n, s.witness, l);
  for (std::size_t i = static_cast<std::size_t>(n); i < static_cast<std::size_t>(n) + l; ++i)
    if (buf[i] == '\n' || buf[i] == '\r')
      buf[i] = ' ';
  buf[static_cast<std::size_t>(n) + l] = '\n';
  write_all(s.out_fd, buf, static_cast<std::size_t>(n) + l + 1);
  ::_exit(sig == SIGALRM ? 98 : 99);
}
inline void install_handlers()
{
#if defined(__SANITIZE_ADDRESS__) || defined(__SANITIZE_THREAD__)
  // the sanitizer runtime handles SEGV/BUS/FPE itself, prints its report and then aborts
  for (int sig : {SIGABRT, SIGILL, SIGALRM})
#else
  for (int sig : {SIGABRT, SIGSEGV, SIGBUS, SIGFPE, SIGILL, SIGALRM})
#endif
  {
    struct sigaction sa;
    std::memset(&sa, 0, sizeof sa);
    sa.sa_handler = &sig_handler;
    sa.sa_flags = SA_NODEFER;
    sigaction(sig, &sa, nullptr);
  }
}

inline void emit_stats()
{
  state_t &s = st();
  for (counter *c : fast_counters())
  {
    s.counters[c->name] += c->n;
    c->n = 0;
  }
  std::ostringstream o;
  o << "{\"t\":\"stats\",\"evaluations\":" << s.evaluations << ",\"skipped\":" << s.skipped
    << ",\"distinct\":" << s.distinct.size() << ",\"violations\":" << s.viol_total << ",\"counters\":{";
  bool first = true;
  for (auto const &kv : s.counters)
  {
    if (kv.first.rfind("_samples/", 0) == 0)
      continue;
    if (!first)
      o << ',';
    first = false;
    o << '"' << json_escape(kv.first) << "\":" << kv.second;
  }
  o << "},\"required\":[";
  first = true;
  for (auto const &r : s.required)
  {
    if (!first)
      o << ',';
    first = false;
    o << '"' << json_escape(r) << '"';
  }
  o << "],\"samples\":[";
  first = true;
  for (auto const &r : s.samples)
  {
    if (!first)
      o << ',';
    first = false;
    o << '"' << json_escape(r) << '"';
  }
  o << "],\"observations\":[";
  first = true;
  for (auto const &r : s.observations)
  {
    if (!first)
      o << ',';
    first = false;
    o << '"' << json_escape(r) << '"';
  }
  o << "],\"viol_keys\":{";
  first = true;
  for (auto const &kv : s.viol_counts)
  {
    if (!first)
      o << ',';
    first = false;
    o << '"' << json_escape(kv.first) << "\":" << kv.second;
  }
  o << "}}";
  emit_line(o.str());
  // distinct hashes for the cross-partition union
  if (!opts().out.empty())
  {
    std::string hf = opts().out + ".hashes";
    int fd = ::open(hf.c_str(), O_WRONLY | O_CREAT | O_TRUNC, 0644);
    if (fd >= 0)
    {
      std::vector<std::uint64_t> v(s.distinct.begin(), s.distinct.end());
      write_all(fd, reinterpret_cast<char const *>(v.data()), v.size() * sizeof(std::uint64_t));
      ::close(fd);
    }
  }
}

inline bool entry_enabled(std::string const &name)
{
  return opts().only_entry.empty() || name.rfind(opts().only_entry, 0) == 0;
}

// A partition filter for enumerations: item i belongs to this partition?
inline bool mine(std::uint64_t i) { return i % opts().nparts == opts().part; }

inline int run_main(int argc, char **argv, void (*body)())
{
  options_t &o = opts();
  if (char const *e = std::getenv("VERIF_SEED"))
    o.seed = std::strtoull(e, nullptr, 10);
  for (int i = 1; i < argc; ++i)
  {
    std::string a = argv[i];
    auto next = [&]() -> std::string { return i + 1 < argc ? argv[++i] : std::string(); };
    if (a == "--tier")
      o.thorough = next() == "thorough";
    else if (a == "--seed")
      o.seed = std::strtoull(next().c_str(), nullptr, 10);
    else if (a == "--part")
    {
      std::string p = next();
      std::sscanf(p.c_str(), "%u/%u", &o.part, &o.nparts);
      if (o.nparts == 0)
        o.nparts = 1;
    }
    else if (a == "--from")
      o.from = std::strtoull(next().c_str(), nullptr, 10);
    else if (a == "--until")
      o.until = std::strtoull(next().c_str(), nullptr, 10);
    else if (a == "--only")
    {
      o.from = o.until = std::strtoull(next().c_str(), nullptr, 10);
    }
    else if (a == "--entry")
      o.only_entry = next();
    else if (a == "--alarm")
      o.alarm_s = static_cast<unsigned>(std::strtoul(next().c_str(), nullptr, 10));
    else if (a == "--out")
      o.out = next();
    else
      o.extra.push_back(a);
  }
  if (!o.out.empty())
  {
    int fd = ::open(o.out.c_str(), O_WRONLY | O_CREAT | O_TRUNC | O_APPEND, 0644);
    if (fd < 0)
    {
      std::perror("open --out");
      return 2;
    }
    st().out_fd = fd;
  }
  std::snprintf(st().witness, sizeof st().witness, "(startup)");
  install_handlers();
  ::alarm(o.alarm_s);
  body();
  ::alarm(0);
  emit_stats();
  return 0;
}

} // namespace vf

// counts into a bucket from a hot loop (the literal is the bucket name)
#define VF_COUNT(name)                                                                                       \
  do                                                                                                         \
  {                                                                                                          \
    static vf::counter vf_c_(name);                                                                          \
    ++vf_c_;                                                                                                 \
  } while (false)

#ifdef VF_FUZZ
// libFuzzer entry: the harness defines  void vf_fuzz_one();  which runs ONE history with every vf::rng reading the input
#define VF_MAIN(body)                                                                                        \
  extern "C" int LLVMFuzzerTestOneInput(std::uint8_t const *data, std::size_t size)                          \
  {                                                                                                          \
    vf::fuzz_src_t &f = vf::fuzz_src();                                                                      \
    f.p = data;                                                                                              \
    f.n = size;                                                                                              \
    f.i = 0;                                                                                                 \
    f.active = true;                                                                                         \
    vf::st().out_fd = -1;                                                                                    \
    vf::st().counters.clear();                                                                               \
    vf::st().distinct.clear();                                                                               \
    vf::st().samples.clear();                                                                                \
    vf::st().observations.clear();                                                                           \
    vf_fuzz_one();                                                                                           \
    return 0;                                                                                                \
  }
#else
#define VF_MAIN(body)                                                                                        \
  int main(int argc, char **argv) { return vf::run_main(argc, argv, &body); }
#endif

#endif
