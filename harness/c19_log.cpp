// C19 (ASan build): (1) sequential histories against the "latest set on a prefix wins" model incl. emitted bytes;
// (2) recorded concurrent histories of set/get/create/level checked offline: operations that go through the
// context mutex must be linearizable w.r.t. the sequential model (Wing-Gong search with memoisation), lock-free
// reads through long-lived log objects must be regular-register reads.
#include <c19_model.hpp>
#include <fcppt/log/debug.hpp>
#include <fcppt/log/error.hpp>

#include <atomic>
#include <map>
#include <set>
#include <thread>
#include <time.h>
#include <unordered_set>

namespace
{
using namespace c19;

// ------------------------------------------------------------------ sequential part
void sequential(std::uint64_t total)
{
  std::string e = "log-sequential";
  if (!vf::entry_enabled(e))
    return;
  vf::set_entry(e);
  std::uint64_t per = total / vf::opts().nparts + 1;
  for (std::uint64_t h = 0; h < per; ++h)
  {
    if (!vf::begin_case("seed=%" PRIu64 " part=%u h=%" PRIu64 ":", vf::opts().seed, vf::opts().part, h))
      continue;
    vf::sample_case(2);
    vf::rng g(vf::seed_for(e, h));
    sinks_t sinks;
    int rootlvl = static_cast<int>(g.below(7));
    vf::extend_case(" root=%d", rootlvl);
    // every third history has level streams without a formatter or with a custom one
    stream_kinds kinds{};
    if (h % 3 == 2)
    {
      vf::extend_case(" streams=");
      for (int &k : kinds)
      {
        k = static_cast<int>(g.below(3));
        vf::extend_case("%d", k);
      }
    }
    l::context ctx{toopt(rootlvl), make_streams(sinks, kinds)};
    std::vector<std::pair<Loc, int>> sets;
    auto model = [&](Loc const &loc) {
      int v = rootlvl;
      for (auto const &s : sets)
        if (is_prefix(s.first, loc))
          v = s.second;
      return v;
    };
    struct Obj
    {
      std::unique_ptr<l::object> o;
      std::vector<std::string> loc; // names from the root to the object (may be deeper than 3)
      Loc mloc;                     // the same as indices
      bool fmt;
    };
    std::vector<Obj> objs;
    bool ok = true;
    auto fail = [&](std::string const &cls, std::string const &d) {
      vf::violation("log/" + cls, "mismatch", d);
      ok = false;
    };
    unsigned len = static_cast<unsigned>(g.below(60)) + 1;
    for (unsigned st = 0; st < len && ok; ++st)
    {
      switch (g.below(8))
      {
      case 0:
      case 1:
      {
        Loc v = random_loc(g);
        int lv = static_cast<int>(g.below(7));
        vf::extend_case(" set(%s,%d)", show(v).c_str(), lv);
        ctx.set(mkloc(v), toopt(lv));
        sets.emplace_back(v, lv);
        if (lv == NLEVELS)
          VF_COUNT("log/seq/set-empty-level");
        else
          VF_COUNT("log/seq/set");
      }
      break;
      case 2:
      {
        Loc v = random_loc(g);
        vf::extend_case(" get(%s)", show(v).c_str());
        int got = fromopt(ctx.get(mkloc(v)));
        int want = model(v);
        VF_COUNT("log/seq/get");
        if (got != want)
          fail("get", "get(" + show(v) + ") = " + std::to_string(got) + " want " + std::to_string(want));
      }
      break;
      case 3:
      {
        Loc v = random_loc(g, 2);
        int n = static_cast<int>(g.below(3));
        bool fm = g.chance(1, 2);
        auto fmt = fm ? l::format::optional_function{l::format::function{[](fcppt::string const &s) { return fcppt::string("<") + s + ">"; }}}
                      : l::format::optional_function{};
        unsigned how = static_cast<unsigned>(g.below(3));
        Obj ob;
        if (how == 0)
        {
          vf::extend_case(" create(at %s name %s)", show(v).c_str(), names[n]);
          ob.o = std::make_unique<l::object>(fcppt::make_ref(ctx), mkloc(v), l::parameters{l::name{names[n]}, std::move(fmt)});
          ob.mloc = v;
          ob.mloc.push_back(n);
          VF_COUNT("log/seq/create-by-location");
        }
        else if (how == 1 || objs.empty())
        {
          vf::extend_case(" create(context name %s)", names[n]);
          ob.o = std::make_unique<l::object>(fcppt::make_ref(ctx), l::parameters{l::name{names[n]}, std::move(fmt)});
          ob.mloc = Loc{n};
          VF_COUNT("log/seq/create-by-context");
        }
        else
        {
          auto const &par = objs[g.below(objs.size())];
          vf::extend_case(" create(parent %s name %s)", show(par.mloc).c_str(), names[n]);
          ob.o = std::make_unique<l::object>(*par.o, l::parameters{l::name{names[n]}, std::move(fmt)});
          ob.mloc = par.mloc;
          ob.mloc.push_back(n);
          VF_COUNT("log/seq/create-by-parent");
        }
        for (int i : ob.mloc)
          ob.loc.push_back(names[i]);
        ob.fmt = fm;
        objs.push_back(std::move(ob));
      }
      break;
      case 4:
        if (!objs.empty())
        {
          auto &ob = objs[g.below(objs.size())];
          vf::extend_case(" level(%s)", show(ob.mloc).c_str());
          int want = model(ob.mloc);
          int got = fromopt(ob.o->level());
          VF_COUNT("log/seq/object-level");
          if (got != want)
            fail("object-level", "level() of object at " + show(ob.mloc) + " = " + std::to_string(got) + " want " + std::to_string(want));
          for (int lv = 0; lv < NLEVELS; ++lv)
          {
            bool en = ob.o->enabled(static_cast<l::level>(lv));
            bool we = want != NLEVELS && lv >= want;
            if (en != we)
              fail("object-enabled", "enabled(" + std::to_string(lv) + ") at " + show(ob.mloc) + " with level " + std::to_string(want));
          }
        }
        break;
      default:
        if (!objs.empty())
        {
          auto &ob = objs[g.below(objs.size())];
          int lv = static_cast<int>(g.below(NLEVELS));
          vf::extend_case(" log(%s,%d)", show(ob.mloc).c_str(), lv);
          int cur = model(ob.mloc);
          std::array<std::string, NLEVELS> before;
          for (int k = 0; k < NLEVELS; ++k)
            before[static_cast<std::size_t>(k)] = sinks.s[static_cast<std::size_t>(k)].str();
          std::string msg = "m" + std::to_string(st);
          ob.o->log(static_cast<l::level>(lv), l::out << msg);
          bool should = cur != NLEVELS && lv >= cur;
          std::string after = sinks.s[static_cast<std::size_t>(lv)].str();
          std::string emitted = after.substr(before[static_cast<std::size_t>(lv)].size());
          if (should)
            VF_COUNT("log/seq/log-emitted");
          else
            VF_COUNT("log/seq/log-suppressed");
          if (should != !emitted.empty())
            fail(should ? "log/missing-message" : "log/message-although-disabled",
                 "level " + std::to_string(lv) + " at " + show(ob.mloc) + " (current level " + std::to_string(cur) + ")");
          else if (should)
          {
            // documented composition: object formatter( location prefixes root->leaf + level formatter(message) )
            int const kind = kinds[static_cast<std::size_t>(lv)];
            std::string inner = kind == 0   ? std::string(l::level_to_string(static_cast<l::level>(lv))) + ": " + msg + "\n"
                                : kind == 1 ? msg
                                            : "[" + msg + "]";
            if (kind == 1)
              VF_COUNT("log/seq/log-through-a-level-stream-without-formatter");
            std::string pre;
            for (auto const &n : ob.loc)
              pre += n + ": ";
            std::string want = pre + inner;
            if (ob.fmt)
              want = "<" + want + ">";
            if (emitted != want)
              fail("log/text", "got [" + emitted + "] want [" + want + "]");
          }
          for (int k = 0; k < NLEVELS; ++k)
            if (k != lv && sinks.s[static_cast<std::size_t>(k)].str() != before[static_cast<std::size_t>(k)])
              fail("log/wrong-sink", "a message of level " + std::to_string(lv) + " reached the sink of level " + std::to_string(k));
        }
        break;
      }
    }
    vf::note_distinct(vf::hash_str(vf::current_case()));
  }
}

// ------------------------------------------------------------------ concurrent histories
enum class OpK
{
  Set, Get, Create, Read
};
struct Op
{
  OpK k;
  Loc loc;
  int arg = 0; // Set: level;  Create: object slot
  int res = -1;
  std::int64_t call = 0, ret = 0;
  int thread = 0;
};
std::int64_t now_ns()
{
  timespec ts;
  clock_gettime(CLOCK_MONOTONIC, &ts);
  return static_cast<std::int64_t>(ts.tv_sec) * 1000000000LL + ts.tv_nsec;
}
constexpr std::int64_t MARGIN = 2000; // A precedes B only if A.ret + 2us < B.call: can only remove constraints

struct barrier_t
{
  std::atomic<unsigned> count{0}, phase{0};
  unsigned n;
  explicit barrier_t(unsigned k) : n(k) {}
  void wait()
  {
    unsigned p = phase.load();
    if (count.fetch_add(1) + 1 == n)
    {
      count.store(0);
      phase.fetch_add(1);
    }
    else
      while (phase.load() == p)
      {
      }
  }
};

using State = std::array<std::int8_t, NLOCS>;
void apply_set(State &s, Loc const &p, int lv, std::vector<Loc> const &locs)
{
  for (std::size_t i = 0; i < locs.size(); ++i)
    if (is_prefix(p, locs[i]))
      s[static_cast<std::size_t>(loc_index(locs[i]))] = static_cast<std::int8_t>(lv);
}

struct lin_checker
{
  std::vector<Op> const &ops; // only the operations that go through the mutex
  std::vector<Loc> const &locs;
  std::unordered_set<std::uint64_t> seen;
  std::uint64_t nodes = 0;
  bool timeout = false;

  bool go(std::uint64_t done, State const &st)
  {
    if (done == (std::uint64_t{1} << ops.size()) - 1U)
      return true;
    if (++nodes > 2000000)
    {
      timeout = true;
      return false;
    }
    std::uint64_t key = vf::hash_mix(done, vf::hash_bytes(st.data(), st.size()));
    if (!seen.insert(key).second)
      return false;
    for (std::size_t i = 0; i < ops.size(); ++i)
    {
      if (done & (std::uint64_t{1} << i))
        continue;
      // i can be next only if no other pending operation entirely precedes it
      bool minimal = true;
      for (std::size_t j = 0; j < ops.size() && minimal; ++j)
        if (j != i && !(done & (std::uint64_t{1} << j)) && ops[j].ret + MARGIN < ops[i].call)
          minimal = false;
      if (!minimal)
        continue;
      Op const &o = ops[i];
      State next = st;
      bool consistent = true;
      if (o.k == OpK::Set)
        apply_set(next, o.loc, o.arg, locs);
      else
        consistent = st[static_cast<std::size_t>(loc_index(o.loc))] == o.res;
      if (consistent && go(done | (std::uint64_t{1} << i), next))
        return true;
      if (timeout)
        return false;
    }
    return false;
  }
};

std::string show_history(std::vector<Op> const &ops, std::int64_t t0)
{
  std::string s;
  for (auto const &o : ops)
  {
    char b[160];
    char const *k = o.k == OpK::Set ? "set" : o.k == OpK::Get ? "get" : o.k == OpK::Create ? "create+level" : "level";
    std::snprintf(b, sizeof b, "[T%d %s %s %s%d @%lld..%lld] ", o.thread, k, show(o.loc).c_str(), o.k == OpK::Set ? "arg=" : "->",
                  o.k == OpK::Set ? o.arg : o.res, static_cast<long long>(o.call - t0), static_cast<long long>(o.ret - t0));
    s += b;
  }
  return s;
}

void concurrent(std::uint64_t total)
{
  std::string e = "log-concurrent-history";
  if (!vf::entry_enabled(e))
    return;
  vf::set_entry(e);
  std::vector<Loc> const locs = all_locs();
  std::uint64_t per = total / vf::opts().nparts + 1;
  std::set<std::uint64_t> signatures;
  for (std::uint64_t h = 0; h < per; ++h)
  {
    if (!vf::begin_case("seed=%" PRIu64 " part=%u h=%" PRIu64, vf::opts().seed, vf::opts().part, h))
      continue;
    vf::rng g(vf::seed_for(e, h));
    unsigned nthreads = static_cast<unsigned>(g.below(3)) + 2; // 2..4
    unsigned nops = static_cast<unsigned>(g.below(3)) + 3;     // 3..5 per thread
    int rootlvl = static_cast<int>(g.below(7));
    bool use_barrier = g.chance(2, 3);
    // every fourth history is a creation storm: all threads create an object for the SAME not yet existing name at the
    // same barrier, step after step (lookup-or-create must be one atomic step; two nodes for one name would detach an object)
    bool const storm = g.chance(1, 4);
    if (storm)
    {
      nthreads = static_cast<unsigned>(g.below(3)) + 4; // 4..6
      nops = 5;
      use_barrier = true;
      VF_COUNT("log/conc/creation-storm-histories");
    }
    // few locations, so that the threads collide: one random top-level name and its subtree
    int top = static_cast<int>(g.below(3));
    sinks_t sinks;
    l::context ctx{toopt(rootlvl), make_streams(sinks)};
    // a creation-heavy first phase (sequential): nodes below the hot prefix exist, long-lived objects on some of them
    struct LObj
    {
      std::unique_ptr<l::object> o;
      Loc loc;
    };
    std::vector<LObj> long_lived;
    for (int b = 0; b < 3; ++b)
      for (int c = 0; c < 3; ++c)
      {
        if (storm || g.chance(1, 3))
          continue;
        Loc at{top, b};
        LObj lo;
        lo.o = std::make_unique<l::object>(fcppt::make_ref(ctx), mkloc(at), l::parameters{l::name{names[c]}, l::format::optional_function{}});
        lo.loc = Loc{top, b, c};
        long_lived.push_back(std::move(lo));
      }
    // plans
    std::vector<std::vector<Op>> plan(nthreads);
    std::vector<Loc> storm_target;
    for (unsigned i = 0; i < nops; ++i)
      storm_target.push_back(Loc{top, static_cast<int>(g.below(3)), static_cast<int>(g.below(3))});
    for (unsigned t = 0; t < nthreads; ++t)
      for (unsigned i = 0; i < nops; ++i)
      {
        Op o;
        o.thread = static_cast<int>(t);
        if (storm && !g.chance(1, 6))
        {
          o.k = OpK::Create;
          o.loc = storm_target[i];
          plan[t].push_back(o);
          continue;
        }
        unsigned k = static_cast<unsigned>(g.below(10));
        Loc hot{top};
        if (g.chance(1, 2))
          hot.push_back(static_cast<int>(g.below(3)));
        if (k < 4)
        {
          o.k = OpK::Set;
          o.loc = g.chance(3, 4) ? hot : random_loc(g);
          o.arg = static_cast<int>(g.below(7));
        }
        else if (k < 6)
        {
          o.k = OpK::Get;
          o.loc = Loc{top, static_cast<int>(g.below(3)), static_cast<int>(g.below(3))};
          if (g.chance(1, 3))
            o.loc.pop_back();
        }
        else if (k < 8)
        {
          o.k = OpK::Create;
          o.loc = Loc{top, static_cast<int>(g.below(3)), static_cast<int>(g.below(3))}; // the object will live at this location
        }
        else
        {
          o.k = OpK::Read;
          if (long_lived.empty())
          {
            o.k = OpK::Get;
            o.loc = hot;
          }
          else
          {
            o.arg = static_cast<int>(g.below(long_lived.size()));
            o.loc = long_lived[static_cast<std::size_t>(o.arg)].loc;
          }
        }
        plan[t].push_back(o);
      }
    barrier_t bar(nthreads);
    // objects created during the concurrent phase stay alive (one vector per thread, nothing shared): after the threads
    // have finished, each of them must show the level that the sequential explanation gives to its location
    std::vector<std::vector<std::pair<Loc, std::unique_ptr<l::object>>>> created(nthreads);
    std::vector<std::thread> th;
    std::vector<std::uint64_t> spin_seed(nthreads);
    for (unsigned t = 0; t < nthreads; ++t)
      spin_seed[t] = g.next();
    for (unsigned t = 0; t < nthreads; ++t)
      th.emplace_back([&, t] {
        vf::rng lg(spin_seed[t]);
        for (auto &o : plan[t])
        {
          if (use_barrier)
            bar.wait();
          else
            for (std::uint64_t s = lg.below(200); s > 0; --s)
              std::this_thread::yield();
          switch (o.k)
          {
          case OpK::Set:
          {
            l::location loc = mkloc(o.loc);
            l::optional_level lv = toopt(o.arg);
            o.call = now_ns();
            ctx.set(loc, lv);
            o.ret = now_ns();
          }
          break;
          case OpK::Get:
          {
            l::location loc = mkloc(o.loc);
            o.call = now_ns();
            auto r = ctx.get(loc);
            o.ret = now_ns();
            o.res = fromopt(r);
          }
          break;
          case OpK::Create:
          {
            Loc parent(o.loc.begin(), o.loc.end() - 1);
            l::location loc = mkloc(parent);
            l::parameters prm{l::name{names[o.loc.back()]}, l::format::optional_function{}};
            o.call = now_ns();
            auto obj = std::make_unique<l::object>(fcppt::make_ref(ctx), loc, prm);
            auto r = obj->level();
            o.ret = now_ns();
            o.res = fromopt(r);
            created[t].emplace_back(o.loc, std::move(obj));
          }
          break;
          case OpK::Read:
          {
            l::object &obj = *long_lived[static_cast<std::size_t>(o.arg)].o;
            o.call = now_ns();
            auto r = obj.level();
            bool en = obj.enabled(l::level::warning);
            o.ret = now_ns();
            o.res = fromopt(r);
            (void)en;
          }
          break;
          }
        }
      });
    for (auto &t : th)
      t.join();
    // ---- offline check
    std::vector<Op> all, locked, reads;
    for (auto const &p : plan)
      for (auto const &o : p)
        all.push_back(o);
    std::sort(all.begin(), all.end(), [](Op const &a, Op const &b) { return a.call < b.call; });
    std::int64_t t0 = all.empty() ? 0 : all[0].call;
    for (auto const &o : all)
      (o.k == OpK::Read ? reads : locked).push_back(o);
    // interleaving signature + overlap buckets
    {
      std::vector<std::pair<std::int64_t, int>> ev;
      for (auto const &o : all)
      {
        ev.emplace_back(o.call, o.thread * 2);
        ev.emplace_back(o.ret, o.thread * 2 + 1);
      }
      std::sort(ev.begin(), ev.end());
      std::uint64_t sig = 0;
      for (auto const &x : ev)
        sig = vf::hash_mix(sig, static_cast<std::uint64_t>(x.second));
      signatures.insert(sig);
      vf::note_distinct(sig);
      for (std::size_t i = 0; i < all.size(); ++i)
        for (std::size_t j = i + 1; j < all.size(); ++j)
        {
          Op const &a = all[i], &b = all[j];
          if (a.thread == b.thread || b.call > a.ret)
            continue;
          auto is = [&](OpK x, OpK y) { return (a.k == x && b.k == y) || (a.k == y && b.k == x); };
          if (is(OpK::Set, OpK::Set))
            VF_COUNT("log/conc/overlap/set-set");
          else if (is(OpK::Set, OpK::Get))
            VF_COUNT("log/conc/overlap/set-get");
          else if (is(OpK::Set, OpK::Create))
            VF_COUNT("log/conc/overlap/set-create");
          else if (is(OpK::Create, OpK::Create))
            VF_COUNT("log/conc/overlap/create-create");
          else if (is(OpK::Set, OpK::Read))
            VF_COUNT("log/conc/overlap/set-lockfree-read");
        }
    }
    // (a) linearizability of the mutex-protected operations
    State init;
    init.fill(static_cast<std::int8_t>(rootlvl));
    lin_checker lc{locked, locs, {}, 0, false};
    bool lin = locked.size() <= 62 && lc.go(0, init);
    vf::count("log/conc/search-nodes", lc.nodes);
    VF_COUNT("log/conc/histories-checked");
    vf::count("log/conc/operations", all.size());
    if (lc.timeout)
      VF_COUNT("log/conc/inconclusive-histories");
    else if (!lin)
      vf::violation("log/concurrent/not-linearizable", "history",
                    "root=" + std::to_string(rootlvl) + " no sequential order of these calls explains the observed levels: " + show_history(locked, t0));
    // (b) regular-register check of lock-free reads
    for (auto const &r : reads)
    {
      VF_COUNT("log/conc/lockfree-reads-checked");
      std::set<int> cand;
      bool some_set_completed_before = false;
      for (auto const &s : locked)
      {
        if (s.k != OpK::Set || !is_prefix(s.loc, r.loc))
          continue;
        if (s.ret + MARGIN < r.call)
          some_set_completed_before = true;
        if (!(s.call < r.ret))
          continue; // entirely after the read
        bool overwritten = false;
        for (auto const &s2 : locked)
          if (s2.k == OpK::Set && is_prefix(s2.loc, r.loc) && s.ret + MARGIN < s2.call && s2.ret + MARGIN < r.call)
            overwritten = true;
        if (!overwritten)
          cand.insert(s.arg);
      }
      if (!some_set_completed_before)
        cand.insert(rootlvl);
      if (!cand.count(r.res))
      {
        std::string cs;
        for (int c : cand)
          cs += std::to_string(c) + " ";
        vf::violation("log/concurrent/lockfree-read-impossible-level", "history",
                      "level() of the object at " + show(r.loc) + " returned " + std::to_string(r.res) + ", admissible: {" + cs + "} history: " + show_history(all, t0));
      }
    }
    // after the threads have finished: quiescent consistency - every location must show the level of ONE sequential
    // order of the sets; in particular a subtree below a set location must be uniform unless a deeper set happened
    {
      std::vector<Op> finals = locked;
      std::int64_t tq = now_ns() + 10 * MARGIN;
      for (auto const &lo : locs)
      {
        if (lo.empty() || lo[0] != top)
          continue;
        Op o;
        o.k = OpK::Get;
        o.loc = lo;
        o.thread = 99;
        o.call = tq;
        o.res = fromopt(ctx.get(mkloc(lo)));
        o.ret = tq + 1;
        tq += 10 * MARGIN;
        finals.push_back(o);
      }
      for (auto const &per_thread : created)
        for (auto const &co : per_thread)
        {
          if (finals.size() >= 60)
            break;
          Op o;
          o.k = OpK::Get; // judged like a get of the object's location: two nodes for one location would show here
          o.loc = co.first;
          o.thread = 98;
          o.call = tq;
          o.res = fromopt(co.second->level());
          o.ret = tq + 1;
          tq += 10 * MARGIN;
          finals.push_back(o);
          VF_COUNT("log/conc/quiescent-object-levels");
        }
      if (finals.size() <= 62)
      {
        lin_checker lq{finals, locs, {}, 0, false};
        bool okq = lq.go(0, init);
        VF_COUNT("log/conc/quiescent-checks");
        if (!okq && !lq.timeout)
          vf::violation("log/concurrent/final-state-not-explained", "history",
                        "root=" + std::to_string(rootlvl) + " the levels read after all threads finished are not the result of any sequential order: " + show_history(finals, t0));
      }
    }
    // probe (after everything above was judged): a set exactly on the location of a created object must reach every object
    // that was created for this location, however the creations interleaved
    {
      std::set<Loc> probed;
      for (auto const &per_thread : created)
        for (auto const &co : per_thread)
        {
          if (!probed.insert(co.first).second)
            continue;
          int const cur = fromopt(ctx.get(mkloc(co.first)));
          int const want = (cur + 1) % 7;
          ctx.set(mkloc(co.first), toopt(want));
          unsigned n = 0;
          for (auto const &pt : created)
            for (auto const &c2 : pt)
              if (c2.first == co.first)
              {
                ++n;
                VF_COUNT("log/conc/probe/object-levels-after-set");
                int const got = fromopt(c2.second->level());
                if (got != want)
                  vf::violation("log/concurrent/object-detached-from-its-location", "history",
                                "after all threads finished, set(" + show(co.first) + ", " + std::to_string(want) + ") left an object created for this location at level " +
                                    std::to_string(got) + "; history: " + show_history(all, t0));
              }
          if (n > 1)
            VF_COUNT("log/conc/probe/locations-with-several-objects");
        }
    }
    if (h < 2)
      vf::sample(show_history(all, t0), 40);
  }
  vf::count("log/conc/distinct-interleaving-signatures(per-partition)", signatures.size());
}

// ------------------------------------------------------------------ spinning lock-free readers
// level() / enabled() of a log object do not take the context mutex (documented: they may be used from other threads).
// "Every observed level is one that some sequential ordering of the calls would produce": in every sequential ordering
// the level of a location is the root level or the level of SOME set on a prefix of it.  Readers spin on the objects while
// writers set levels on prefixes; any value outside that candidate set - a transient "no level", a torn or stale-foreign
// value - is a violation.  Weaker than the linearizability check of the recorded histories, but it looks at millions of
// reads instead of a handful.
void spinning_readers(std::uint64_t total)
{
  std::string e = "log-concurrent-spinning-readers";
  if (!vf::entry_enabled(e))
    return;
  vf::set_entry(e);
  std::uint64_t per = total / vf::opts().nparts + 1;
  std::uint64_t reads_total = 0, rounds_with_transitions = 0;
  for (std::uint64_t h = 0; h < per; ++h)
  {
    if (!vf::begin_case("seed=%" PRIu64 " part=%u round=%" PRIu64, vf::opts().seed, vf::opts().part, h))
      continue;
    vf::sample_case(1);
    vf::rng g(vf::seed_for(e, h));
    sinks_t sinks;
    int const rootlvl = static_cast<int>(g.below(NLEVELS)); // a real level: "no level" is never a candidate below
    l::context ctx{toopt(rootlvl), make_streams(sinks)};
    int const top = static_cast<int>(g.below(3)), mid = static_cast<int>(g.below(3)), leaf = static_cast<int>(g.below(3));
    std::vector<Loc> const prefixes{Loc{}, Loc{top}, Loc{top, mid}, Loc{top, mid, leaf}};
    // objects at depth 1, 2, 3 below the written prefixes, created before the threads start
    std::vector<std::pair<Loc, std::unique_ptr<l::object>>> objs;
    for (std::size_t d = 1; d < prefixes.size(); ++d)
    {
      Loc parent(prefixes[d].begin(), prefixes[d].end() - 1);
      objs.emplace_back(prefixes[d], std::make_unique<l::object>(fcppt::make_ref(ctx), mkloc(parent),
                                                                 l::parameters{l::name{names[prefixes[d].back()]}, l::format::optional_function{}}));
    }
    unsigned const nsets = 40 + static_cast<unsigned>(g.below(120));
    struct planned
    {
      std::size_t prefix;
      int level;
    };
    std::vector<planned> plan[2];
    std::array<std::array<bool, NLEVELS + 1>, 4> candidate{}; // candidate[object depth][level]
    for (auto &c : candidate)
      c[static_cast<std::size_t>(rootlvl)] = true;
    for (auto &pl : plan)
      for (unsigned i = 0; i < nsets; ++i)
      {
        planned const s{g.below(prefixes.size()), static_cast<int>(g.below(NLEVELS))};
        pl.push_back(s);
        for (std::size_t d = 1; d < prefixes.size(); ++d)
          if (s.prefix <= d) // prefixes[s.prefix] is a prefix of the object at depth d
            candidate[d][static_cast<std::size_t>(s.level)] = true;
      }
    std::atomic<bool> stop{false};
    std::atomic<unsigned> ready{0};
    struct seen_t
    {
      std::array<std::array<std::uint64_t, NLEVELS + 1>, 4> level{};
      std::array<std::uint64_t, 4> fatal_disabled{};
      std::uint64_t reads = 0;
    };
    seen_t seen[2];
    std::vector<std::thread> th;
    for (unsigned w = 0; w < 2; ++w)
      th.emplace_back([&, w] {
        ++ready;
        while (ready.load() < 4)
          std::this_thread::yield(); // 16 partitions x 4 threads oversubscribe the machine: do not burn the quantum the others need to arrive
        for (planned const &s : plan[w])
          ctx.set(mkloc(prefixes[s.prefix]), toopt(s.level));
      });
    for (unsigned r = 0; r < 2; ++r)
      th.emplace_back([&, r] {
        ++ready;
        while (ready.load() < 4)
          std::this_thread::yield(); // 16 partitions x 4 threads oversubscribe the machine: do not burn the quantum the others need to arrive
        seen_t &mine = seen[r];
        while (!stop.load(std::memory_order_relaxed))
          for (std::size_t k = 0; k < objs.size(); ++k)
          {
            int const lv = fromopt(objs[k].second->level());
            ++mine.level[k + 1][static_cast<std::size_t>(lv)];
            if (!objs[k].second->enabled(l::level::fatal))
              ++mine.fatal_disabled[k + 1];
            ++mine.reads;
          }
      });
    th[0].join();
    th[1].join();
    stop.store(true);
    th[2].join();
    th[3].join();
    VF_COUNT("log/spin/rounds");
    unsigned distinct_values = 0;
    for (std::size_t d = 1; d < 4; ++d)
    {
      for (int lv = 0; lv <= NLEVELS; ++lv)
      {
        std::uint64_t const n = seen[0].level[d][static_cast<std::size_t>(lv)] + seen[1].level[d][static_cast<std::size_t>(lv)];
        if (n == 0)
          continue;
        ++distinct_values;
        if (!candidate[d][static_cast<std::size_t>(lv)])
          vf::violation("log/concurrent/lock-free-read/level-no-set-ever-gave", "history",
                        "object at " + show(prefixes[d]) + " reported level " + std::to_string(lv) + " (" + (lv == NLEVELS ? "none" : "a level") + ") " + std::to_string(n) +
                            " times while only the root level " + std::to_string(rootlvl) + " and sets of real levels on its prefixes were in play");
      }
      // enabled(fatal) is false only under "no level", which is not a candidate here
      std::uint64_t const nd = seen[0].fatal_disabled[d] + seen[1].fatal_disabled[d];
      if (nd != 0)
        vf::violation("log/concurrent/lock-free-read/fatal-disabled-although-every-candidate-level-enables-it", "history",
                      "object at " + show(prefixes[d]) + ": enabled(fatal) was false " + std::to_string(nd) + " times");
    }
    if (distinct_values > 3)
      ++rounds_with_transitions;
    reads_total += seen[0].reads + seen[1].reads;
    vf::note_distinct(vf::hash_mix(vf::hash_str(e), vf::hash_mix(h, distinct_values)));
    // quiescence: the last set per prefix chain decides - compared with context::get
    for (std::size_t d = 1; d < 4; ++d)
      if (fromopt(objs[d - 1].second->level()) != fromopt(ctx.get(mkloc(prefixes[d]))))
        vf::violation("log/concurrent/spin/object-and-context-disagree-at-quiescence", "history", "object at " + show(prefixes[d]));
  }
  vf::count("log/spin/lock-free-reads", reads_total);
  vf::count("log/spin/rounds-in-which-readers-saw-several-levels", rounds_with_transitions);
}

// ------------------------------------------------------------------ unnamed components
// A location component (or a logger name) may be the empty string - the root of every context is such a node.  The text
// of a message carries the names of ALL named ancestors from the root down to the logger, in that order; an unnamed node
// contributes nothing and hides nothing.  Levels follow the full location (empty components included).
void unnamed_components()
{
  std::string e = "log-unnamed-components";
  if (!vf::entry_enabled(e) || !vf::mine(vf::hash_str(e)))
    return;
  vf::set_entry(e);
  char const *const pool[4] = {"gfx", "", "cache", "x"};
  std::uint64_t cases = 0;
  for (unsigned code = 0; code < 4 * 4 * 4 * 4; ++code)
  {
    std::array<int, 4> ix{static_cast<int>(code & 3U), static_cast<int>((code >> 2U) & 3U), static_cast<int>((code >> 4U) & 3U), static_cast<int>((code >> 6U) & 3U)};
    for (unsigned depth = 0; depth <= 3; ++depth)
      for (unsigned how = 0; how < 2; ++how)
      {
        // the logger's name is ix[depth]; its location the components ix[0..depth)
        if (!vf::begin_case("components %s/%s/%s name=%s depth=%u via %s", pool[ix[0]], pool[ix[1]], pool[ix[2]], pool[ix[depth]], depth, how ? "parent objects" : "location"))
          continue;
        vf::note_distinct(vf::hash_mix(vf::hash_str(e), (code * 4U + depth) * 2U + how));
        ++cases;
        sinks_t sinks;
        l::context ctx{toopt(0), make_streams(sinks)};
        std::string want;
        for (unsigned k = 0; k <= depth; ++k)
          if (pool[ix[k]][0] != 0)
            want += std::string(pool[ix[k]]) + ": ";
        want += std::string(l::level_to_string(l::level::info)) + ": msg\n";
        std::unique_ptr<l::object> obj;
        std::vector<std::unique_ptr<l::object>> chain;
        if (how == 0)
        {
          l::location loc;
          for (unsigned k = 0; k < depth; ++k)
            loc /= l::name{pool[ix[k]]};
          obj = std::make_unique<l::object>(fcppt::make_ref(ctx), loc, l::parameters{l::name{pool[ix[depth]]}, l::format::optional_function{}});
        }
        else
        {
          chain.push_back(std::make_unique<l::object>(fcppt::make_ref(ctx), l::parameters{l::name{pool[ix[0]]}, l::format::optional_function{}}));
          for (unsigned k = 1; k <= depth; ++k)
            chain.push_back(std::make_unique<l::object>(*chain.back(), l::parameters{l::name{pool[ix[k]]}, l::format::optional_function{}}));
          obj = std::move(chain.back());
          chain.pop_back();
        }
        obj->log(l::level::info, l::out << "msg");
        std::string const got = sinks.s[static_cast<std::size_t>(l::level::info)].str();
        VF_COUNT("log/unnamed/messages");
        if (want.find(": ") != want.rfind(": ") && std::string(pool[ix[0]]).empty() == false)
          VF_COUNT("log/unnamed/named-ancestor-above-an-unnamed-node-possible");
        if (got != want)
          vf::violation("log/text/unnamed-component", "mismatch", "got [" + got + "] want [" + want + "] case: " + vf::current_case());
      }
  }
  vf::add_evals(cases);
}

// ------------------------------------------------------------------ the level macros as statements
// FCPPT_LOG_<LEVEL>(object, output) is a statement: used as the unbraced branch of an if / else it emits "exactly when
// its level is at least the object's level" - and the else branch belongs to the caller's if.
void macros_as_branches()
{
  std::string e = "log-macros-as-branches";
  if (!vf::entry_enabled(e) || !vf::mine(vf::hash_str(e) + 1))
    return;
  vf::set_entry(e);
  std::uint64_t cases = 0;
  for (int threshold = 0; threshold <= NLEVELS; ++threshold)
    for (int cond = 0; cond < 2; ++cond)
    {
      if (!vf::begin_case("object level %d, condition %s: if (c) FCPPT_LOG_DEBUG(..then..) else FCPPT_LOG_ERROR(..else..)", threshold, cond ? "true" : "false"))
        continue;
      vf::note_distinct(vf::hash_mix(vf::hash_str(e), static_cast<std::uint64_t>(threshold * 2 + cond)));
      ++cases;
      sinks_t sinks;
      l::context ctx{toopt(threshold), make_streams(sinks)};
      l::object obj(fcppt::make_ref(ctx), l::parameters{l::name{"m"}, l::format::optional_function{}});
      if (cond != 0)
        FCPPT_LOG_DEBUG(obj, l::out << "then")
      else
        FCPPT_LOG_ERROR(obj, l::out << "else")
      bool const debug_on = threshold != NLEVELS && static_cast<int>(l::level::debug) >= threshold;
      bool const error_on = threshold != NLEVELS && static_cast<int>(l::level::error) >= threshold;
      std::string const want_debug = cond != 0 && debug_on ? "m: debug: then\n" : "";
      std::string const want_error = cond == 0 && error_on ? "m: error: else\n" : "";
      std::string const got_debug = sinks.s[static_cast<std::size_t>(l::level::debug)].str();
      std::string const got_error = sinks.s[static_cast<std::size_t>(l::level::error)].str();
      VF_COUNT("log/macros/branches");
      if (got_debug != want_debug || got_error != want_error)
        vf::violation("log/macro-as-branch/emission", "mismatch",
                      "debug sink [" + got_debug + "] want [" + want_debug + "], error sink [" + got_error + "] want [" + want_error + "] case: " + vf::current_case());
    }
  vf::add_evals(cases);
}

void body()
{
  for (char const *b : {"log/seq/set", "log/seq/set-empty-level", "log/seq/get", "log/seq/create-by-location", "log/seq/create-by-context",
                        "log/seq/create-by-parent", "log/seq/object-level", "log/seq/log-emitted", "log/seq/log-through-a-level-stream-without-formatter", "log/seq/log-suppressed",
                        "log/conc/histories-checked", "log/conc/overlap/set-set", "log/conc/overlap/set-get", "log/conc/overlap/set-create",
                        "log/conc/overlap/create-create", "log/conc/creation-storm-histories", "log/conc/probe/locations-with-several-objects", "log/conc/overlap/set-lockfree-read", "log/conc/lockfree-reads-checked",
                        "log/conc/quiescent-checks", "log/conc/quiescent-object-levels", "log/spin/rounds", "log/spin/rounds-in-which-readers-saw-several-levels"})
    vf::require_bucket(b);
  sequential(vf::tier<std::uint64_t>(20000, 1000000));
  concurrent(vf::tier<std::uint64_t>(12000, 400000));
  spinning_readers(vf::tier<std::uint64_t>(1600, 60000));
  unnamed_components();
  macros_as_branches();
}
}

VF_MAIN(body)
