// C07: raw_vector and buffer versus std::vector, for operation histories.
// Oracles: (1) lock-step shadow std::vector driven by the same operations, (2) ledger allocator
// (every allocate/deallocate recorded; size agreement; nothing live at the end), (3) sanitizers.
#include <vf.hpp>

#include <fcppt/container/buffer/append_from.hpp>
#include <fcppt/container/buffer/append_from_opt.hpp>
#include <fcppt/container/buffer/object.hpp>
#include <fcppt/container/dynamic_array.hpp>
#include <fcppt/container/buffer/read_from.hpp>
#include <fcppt/container/buffer/read_from_opt.hpp>
#include <fcppt/container/buffer/to_raw_vector.hpp>
#include <fcppt/container/raw_vector/comparison.hpp>
#include <fcppt/container/raw_vector/object.hpp>
#include <fcppt/io/read_chars.hpp>
#include <fcppt/optional/object.hpp>

#include <cstdint>
#include <iterator>
#include <list>
#include <map>
#include <new>
#include <sstream>
#include <string>
#include <vector>

namespace
{
// ------------------------------------------------------------------ ledger allocator
struct ledger_t
{
  std::map<void *, std::size_t> live;
  std::map<void *, int> arena_of; // which allocator instance (arena) handed the block out
  std::uint64_t allocs = 0, frees = 0, bytes = 0;
  unsigned bad_dealloc = 0, zero_alloc = 0, wrong_arena = 0;
};
ledger_t *g_ledger = nullptr;
long g_fail_alloc = 0; // > 0: the g_fail_alloc-th allocation from now on throws std::bad_alloc

template <class T>
struct ledger_alloc
{
  using value_type = T;
  // allocator instances with different arena numbers are NOT interchangeable: a block goes back to the arena it came from
  int arena = 0;
  ledger_alloc() = default;
  explicit ledger_alloc(int a) : arena(a) {}
  template <class U>
  ledger_alloc(ledger_alloc<U> const &o) : arena(o.arena)
  {
  }
  T *allocate(std::size_t n)
  {
    if (g_fail_alloc > 0 && --g_fail_alloc == 0) // failpoint: this allocation fails
      throw std::bad_alloc();
    T *p = std::allocator<T>{}.allocate(n);
    if (g_ledger)
    {
      g_ledger->live[p] = n;
      g_ledger->arena_of[p] = arena;
      ++g_ledger->allocs;
      g_ledger->bytes += n * sizeof(T);
    }
    return p;
  }
  void deallocate(T *p, std::size_t n)
  {
    if (g_ledger)
    {
      auto it = g_ledger->live.find(p);
      if (it == g_ledger->live.end() || it->second != n)
      {
        ++g_ledger->bad_dealloc;
        if (it != g_ledger->live.end())
          n = it->second; // free with the true size so that the harness itself stays well-defined
        else
          return; // unknown pointer: do not pass it to the real allocator
      }
      if (g_ledger->arena_of[p] != arena)
        ++g_ledger->wrong_arena;
      g_ledger->arena_of.erase(p);
      g_ledger->live.erase(p);
      ++g_ledger->frees;
    }
    std::allocator<T>{}.deallocate(p, n);
  }
  bool operator==(ledger_alloc const &o) const { return arena == o.arena; }
  bool operator!=(ledger_alloc const &o) const { return arena != o.arena; }
};


// A "fancy pointer" allocator: allocator_traits<A>::pointer is a class type (as offset pointers into shared memory are).
// The standard algorithms then cannot lower copies to memmove: overlapping shifts must be written for the direction they go.
template <class T>
class fancy_ptr
{
public:
  using iterator_category = std::random_access_iterator_tag;
  using value_type = std::remove_cv_t<T>;
  using difference_type = std::ptrdiff_t;
  using pointer = T *;
  using reference = T &;
  using element_type = T;
  fancy_ptr() = default;
  fancy_ptr(std::nullptr_t) {} // NOLINT
  explicit fancy_ptr(T *p) : p_(p) {}
  template <class U, class = std::enable_if_t<std::is_convertible_v<U *, T *> && !std::is_same_v<U, T>>>
  fancy_ptr(fancy_ptr<U> const &o) : p_(o.get()) // NOLINT
  {
  }
  T *get() const { return p_; }
  T &operator*() const { return *p_; }
  T *operator->() const { return p_; }
  T &operator[](difference_type n) const { return p_[n]; }
  explicit operator bool() const { return p_ != nullptr; }
  fancy_ptr &operator++()
  {
    ++p_;
    return *this;
  }
  fancy_ptr operator++(int)
  {
    fancy_ptr r(*this);
    ++p_;
    return r;
  }
  fancy_ptr &operator--()
  {
    --p_;
    return *this;
  }
  fancy_ptr operator--(int)
  {
    fancy_ptr r(*this);
    --p_;
    return r;
  }
  fancy_ptr &operator+=(difference_type n)
  {
    p_ += n;
    return *this;
  }
  fancy_ptr &operator-=(difference_type n)
  {
    p_ -= n;
    return *this;
  }
  friend fancy_ptr operator+(fancy_ptr a, difference_type n) { return fancy_ptr(a.p_ + n); }
  friend fancy_ptr operator+(difference_type n, fancy_ptr a) { return fancy_ptr(a.p_ + n); }
  friend fancy_ptr operator-(fancy_ptr a, difference_type n) { return fancy_ptr(a.p_ - n); }
  friend difference_type operator-(fancy_ptr a, fancy_ptr b) { return a.p_ - b.p_; }
  friend bool operator==(fancy_ptr a, fancy_ptr b) { return a.p_ == b.p_; }
  friend bool operator!=(fancy_ptr a, fancy_ptr b) { return a.p_ != b.p_; }
  friend bool operator<(fancy_ptr a, fancy_ptr b) { return a.p_ < b.p_; }
  friend bool operator>(fancy_ptr a, fancy_ptr b) { return a.p_ > b.p_; }
  friend bool operator<=(fancy_ptr a, fancy_ptr b) { return a.p_ <= b.p_; }
  friend bool operator>=(fancy_ptr a, fancy_ptr b) { return a.p_ >= b.p_; }
  static fancy_ptr pointer_to(T &r) { return fancy_ptr(std::addressof(r)); }

private:
  T *p_ = nullptr;
};
template <class T>
struct fancy_alloc
{
  using value_type = T;
  using pointer = fancy_ptr<T>;
  using const_pointer = fancy_ptr<T const>;
  using size_type = std::size_t;
  using difference_type = std::ptrdiff_t;
  fancy_alloc() = default;
  template <class U>
  fancy_alloc(fancy_alloc<U> const &) // NOLINT
  {
  }
  pointer allocate(std::size_t n) { return pointer(ledger_alloc<T>{}.allocate(n)); }
  void deallocate(pointer p, std::size_t n) { ledger_alloc<T>{}.deallocate(p.get(), n); }
  bool operator==(fancy_alloc const &) const { return true; }
  bool operator!=(fancy_alloc const &) const { return false; }
};
template <class A>
constexpr char const *alloc_suffix()
{
  return "";
}
template <>
constexpr char const *alloc_suffix<fancy_alloc<int>>()
{
  return ",fancy-pointer";
}

// ------------------------------------------------------------------ element types
struct pod24
{
  std::int64_t a;
  std::int32_t b;
  std::int16_t c;
  std::uint8_t d;
  bool operator==(pod24 const &o) const { return a == o.a && b == o.b && c == o.c && d == o.d; }
  bool operator!=(pod24 const &o) const { return !(*this == o); }
  bool operator<(pod24 const &o) const { return a < o.a; }
};
static_assert(std::is_trivial_v<pod24>);

template <class T>
T mk(int v)
{
  if constexpr (std::is_same_v<T, pod24>)
    return pod24{v, v * 3, static_cast<std::int16_t>(v), static_cast<std::uint8_t>(v)};
  else
    return static_cast<T>(v);
}
template <class T>
long long key(T const &v)
{
  if constexpr (std::is_same_v<T, pod24>)
    return v.a;
  else
    return static_cast<long long>(v);
}
template <class T>
char const *tname()
{
  if constexpr (std::is_same_v<T, int>)
    return "int";
  else if constexpr (std::is_same_v<T, unsigned char>)
    return "uchar";
  else
    return "pod24";
}

// a minimal single-pass input iterator over a vector (category input_iterator_tag exactly)
template <class T>
struct input_it
{
  using iterator_category = std::input_iterator_tag;
  using value_type = T;
  using difference_type = std::ptrdiff_t;
  using pointer = T const *;
  using reference = T const &;
  std::vector<T> const *v = nullptr;
  std::size_t i = 0;
  reference operator*() const { return (*v)[i]; }
  pointer operator->() const { return &(*v)[i]; }
  input_it &operator++()
  {
    ++i;
    return *this;
  }
  input_it operator++(int)
  {
    input_it t = *this;
    ++i;
    return t;
  }
  bool operator==(input_it const &o) const { return i == o.i; }
  bool operator!=(input_it const &o) const { return i != o.i; }
};

// ------------------------------------------------------------------ raw_vector histories
template <class T, class A = ledger_alloc<T>>
struct rv_runner
{
  using RV = fcppt::container::raw_vector::object<T, A>;
  using SV = std::vector<T>;
  std::string e;
  vf::rng g{0};
  int next = 1;
  bool ok = true;

  T fresh() { return mk<T>(next++ % 120 + 1); }

  void fail(std::string const &cls, std::string const &detail)
  {
    vf::violation("raw_vector<" + std::string(tname<T>()) + ">/" + cls, "mismatch", detail);
    ok = false;
  }

  void compare(RV &r, SV const &s, char const *op)
  {
    if (r.size() != s.size())
    {
      fail(std::string(op) + "/size", "size got=" + std::to_string(r.size()) + " want=" + std::to_string(s.size()));
      return;
    }
    if (r.capacity() < r.size())
      fail(std::string(op) + "/capacity-below-size",
           "capacity=" + std::to_string(r.capacity()) + " size=" + std::to_string(r.size()));
    if (r.empty() != s.empty())
      fail(std::string(op) + "/empty", "empty() disagrees");
    RV const &cr = r;
    if (static_cast<std::size_t>(r.end() - r.begin()) != s.size() ||
        static_cast<std::size_t>(cr.end() - cr.begin()) != s.size() || r.data() != r.begin() ||
        r.data_end() != r.end() || cr.data() != cr.begin() || cr.data_end() != cr.end())
      fail(std::string(op) + "/iterators", "begin/end/data/data_end inconsistent with size");
    for (std::size_t i = 0; i < s.size(); ++i)
      if (!(r[i] == s[i]) || !(cr[i] == s[i]) || !(*(r.begin() + static_cast<std::ptrdiff_t>(i)) == s[i]))
      {
        fail(std::string(op) + "/contents", "index " + std::to_string(i) + " got=" + std::to_string(key(r[i])) +
                                                " want=" + std::to_string(key(s[i])));
        return;
      }
    if (!s.empty() && (!(r.front() == s.front()) || !(r.back() == s.back()) || !(cr.front() == s.front()) ||
                       !(cr.back() == s.back())))
      fail(std::string(op) + "/front-back", "front()/back() disagree");
  }

  void construct(RV &r, SV &s)
  {
    switch (g.below(7))
    {
    case 0:
      vf::extend_case(" ctor()");
      VF_COUNT("rv/ctor/default");
      break;
    case 1:
    {
      unsigned n = static_cast<unsigned>(g.below(6));
      T v = fresh();
      vf::extend_case(" ctor(%u,%lld)", n, key(v));
      r = RV(n, v);
      s = SV(n, v);
      VF_COUNT("rv/ctor/count");
    }
    break;
    case 2:
    {
      SV src;
      unsigned n = static_cast<unsigned>(g.below(6));
      for (unsigned i = 0; i < n; ++i)
        src.push_back(fresh());
      vf::extend_case(" ctor(fwd-range %u)", n);
      r = RV(src.begin(), src.end());
      s = src;
      VF_COUNT("rv/ctor/forward-range");
    }
    break;
    case 3:
    {
      SV src;
      unsigned n = static_cast<unsigned>(g.below(6));
      for (unsigned i = 0; i < n; ++i)
        src.push_back(fresh());
      vf::extend_case(" ctor(input-range %u)", n);
      r = RV(input_it<T>{&src, 0}, input_it<T>{&src, src.size()});
      s = src;
      VF_COUNT("rv/ctor/input-range");
    }
    break;
    case 4:
    {
      T a = fresh(), b = fresh(), c = fresh();
      vf::extend_case(" ctor{il 3}");
      r = RV{a, b, c};
      s = SV{a, b, c};
      VF_COUNT("rv/ctor/initializer-list");
    }
    break;
    case 5:
    {
      vf::extend_case(" ctor{il 0}");
      r = RV(std::initializer_list<T>{});
      s = SV{};
      VF_COUNT("rv/ctor/initializer-list-empty");
    }
    break;
    case 6:
    {
      // from a buffer: rep constructor
      using B = fcppt::container::buffer::object<T, A>;
      unsigned w = static_cast<unsigned>(g.below(6));
      unsigned n = w ? static_cast<unsigned>(g.below(w + 1)) : 0;
      vf::extend_case(" ctor(rep from buffer w=%u n=%u)", w, n);
      B b(w);
      for (unsigned i = 0; i < n; ++i)
      {
        T v = fresh();
        b.write_data()[i] = v;
        s.push_back(v);
      }
      b.written(n);
      r = fcppt::container::buffer::to_raw_vector(std::move(b));
      VF_COUNT("rv/ctor/rep");
    }
    break;
    }
  }

  void run(std::uint64_t idx)
  {
    g = vf::rng(vf::seed_for(e, idx));
    next = static_cast<int>(g.below(50)) + 1;
    ok = true;
    ledger_t led;
    g_ledger = &led;
    {
      RV r, r2;
      SV s, s2;
      construct(r, s);
      compare(r, s, "ctor");
      unsigned len = static_cast<unsigned>(g.below(vf::tier<unsigned>(40, 60))) + 1;
      for (unsigned st = 0; st < len && ok; ++st)
      {
        std::size_t const n = s.size();
        std::size_t const pos = n ? g.below(n + 1) : 0;
        bool const inplace1 = r.size() + 1 <= r.capacity();
        unsigned op = static_cast<unsigned>(g.below(22));
        // failpoint: in one step of eight the first or second allocation fails. As for std::vector ([vector.modifiers]:
        // an exception not thrown by T or by an iterator has no effects) the vector must then be what it was before
        // the call: the shadow is only updated after the real call returned.
        g_fail_alloc = g.chance(1, 8) ? static_cast<long>(g.below(2)) + 1 : 0;
        SV input_src; // the source of an input-iterator insert (see the catch block)
        try
        {
        switch (op)
        {
        case 0:
        {
          T v = fresh();
          vf::extend_case(" push_back(%lld)", key(v));
          if (r.size() < r.capacity())
            VF_COUNT("rv/push_back/inplace");
          else
            VF_COUNT("rv/push_back/realloc");
          r.push_back(v);
          s.push_back(v);
          compare(r, s, "push_back");
        }
        break;
        case 1:
          if (n)
          {
            vf::extend_case(" push_back(alias[%zu])", pos % n);
            T expect = s[pos % n];
            if (r.size() < r.capacity())
              VF_COUNT("rv/push_back_alias/inplace");
            else
              VF_COUNT("rv/push_back_alias/realloc");
            r.push_back(r[pos % n]);
            s.push_back(expect);
            compare(r, s, "push_back-alias");
          }
          break;
        case 2:
          if (n)
          {
            vf::extend_case(" pop_back");
            r.pop_back();
            s.pop_back();
            VF_COUNT("rv/pop_back");
            compare(r, s, "pop_back");
          }
          break;
        case 3:
        {
          T v = fresh();
          vf::extend_case(" insert(%zu,%lld)", pos, key(v));
          if (inplace1)
          {
            if (n == 0)
              VF_COUNT("rv/insert/inplace-empty");
            else
              VF_COUNT("rv/insert/inplace");
          }
          else
            VF_COUNT("rv/insert/realloc");
          auto it = r.insert(r.begin() + static_cast<std::ptrdiff_t>(pos), v);
          s.insert(s.begin() + static_cast<std::ptrdiff_t>(pos), v);
          if (it - r.begin() != static_cast<std::ptrdiff_t>(pos))
            fail("insert/returned-iterator", "offset got=" + std::to_string(it - r.begin()) + " want=" + std::to_string(pos));
          compare(r, s, "insert");
        }
        break;
        case 4:
        case 5:
          if (n)
          {
            std::size_t a = g.below(n);
            vf::extend_case(" insert(%zu,alias[%zu])", pos, a);
            T expect = s[a];
            if (inplace1)
            {
              if (a < pos)
                VF_COUNT("rv/insert_alias/inplace-before");
              else if (a == pos)
                VF_COUNT("rv/insert_alias/inplace-at");
              else
                VF_COUNT("rv/insert_alias/inplace-after");
            }
            else
              VF_COUNT("rv/insert_alias/realloc");
            auto it = r.insert(r.begin() + static_cast<std::ptrdiff_t>(pos), r[a]);
            s.insert(s.begin() + static_cast<std::ptrdiff_t>(pos), expect);
            if (it - r.begin() != static_cast<std::ptrdiff_t>(pos))
              fail("insert-alias/returned-iterator", "offset got=" + std::to_string(it - r.begin()));
            compare(r, s, inplace1 ? "insert-alias-inplace" : "insert-alias-realloc");
          }
          break;
        case 6:
        {
          unsigned c = static_cast<unsigned>(g.below(5));
          T v = fresh();
          bool ip = r.size() + c <= r.capacity();
          vf::extend_case(" insert_n(%zu,%u,%lld)", pos, c, key(v));
          if (c == 0)
            VF_COUNT("rv/insert_n/zero");
          else if (ip)
            VF_COUNT("rv/insert_n/inplace");
          else
            VF_COUNT("rv/insert_n/realloc");
          r.insert(r.begin() + static_cast<std::ptrdiff_t>(pos), c, v);
          s.insert(s.begin() + static_cast<std::ptrdiff_t>(pos), c, v);
          compare(r, s, "insert_n");
        }
        break;
        case 7:
          if (n)
          {
            std::size_t a = g.below(n);
            unsigned c = static_cast<unsigned>(g.below(4)) + 1;
            bool ip = r.size() + c <= r.capacity();
            vf::extend_case(" insert_n(%zu,%u,alias[%zu])", pos, c, a);
            T expect = s[a];
            if (ip)
            {
              if (a < pos)
                VF_COUNT("rv/insert_n_alias/inplace-before");
              else
                VF_COUNT("rv/insert_n_alias/inplace-at-or-after");
            }
            else
              VF_COUNT("rv/insert_n_alias/realloc");
            r.insert(r.begin() + static_cast<std::ptrdiff_t>(pos), c, r[a]);
            s.insert(s.begin() + static_cast<std::ptrdiff_t>(pos), c, expect);
            compare(r, s, ip ? "insert_n-alias-inplace" : "insert_n-alias-realloc");
          }
          break;
        case 8:
        {
          std::list<T> src;
          unsigned c = static_cast<unsigned>(g.below(5));
          for (unsigned i = 0; i < c; ++i)
            src.push_back(fresh());
          bool ip = r.size() + c <= r.capacity();
          vf::extend_case(" insert_fwd(%zu,%u)", pos, c);
          if (c == 0)
            VF_COUNT("rv/insert_fwd/empty-range");
          else if (ip)
            VF_COUNT("rv/insert_fwd/inplace");
          else
            VF_COUNT("rv/insert_fwd/realloc");
          r.insert(r.begin() + static_cast<std::ptrdiff_t>(pos), src.begin(), src.end());
          s.insert(s.begin() + static_cast<std::ptrdiff_t>(pos), src.begin(), src.end());
          compare(r, s, "insert-forward-range");
        }
        break;
        case 9:
        {
          SV src;
          unsigned c = static_cast<unsigned>(g.below(5));
          for (unsigned i = 0; i < c; ++i)
            src.push_back(fresh());
          vf::extend_case(" insert_input(%zu,%u)", pos, c);
          if (c == 0)
            VF_COUNT("rv/insert_input/empty-range");
          else
            VF_COUNT("rv/insert_input/nonempty");
          input_src = src;
          r.insert(r.begin() + static_cast<std::ptrdiff_t>(pos), input_it<T>{&src, 0}, input_it<T>{&src, src.size()});
          s.insert(s.begin() + static_cast<std::ptrdiff_t>(pos), src.begin(), src.end());
          compare(r, s, "insert-input-range");
        }
        break;
        case 10:
          if (n)
          {
            std::size_t p = g.below(n);
            vf::extend_case(" erase(%zu)", p);
            if (p + 1 == n)
              VF_COUNT("rv/erase/last");
            else
              VF_COUNT("rv/erase/inner");
            auto it = r.erase(r.begin() + static_cast<std::ptrdiff_t>(p));
            auto is = s.erase(s.begin() + static_cast<std::ptrdiff_t>(p));
            if (it - r.begin() != is - s.begin())
              fail("erase/returned-iterator",
                   "offset got=" + std::to_string(it - r.begin()) + " want=" + std::to_string(is - s.begin()));
            compare(r, s, "erase");
          }
          break;
        case 11:
        {
          std::size_t a = n ? g.below(n + 1) : 0, b = n ? g.below(n + 1) : 0;
          if (a > b)
            std::swap(a, b);
          if (g.chance(1, 6))
          {
            a = 0;
            b = n;
          }
          vf::extend_case(" erase(%zu,%zu)", a, b);
          if (a == b)
            VF_COUNT("rv/erase_range/empty");
          else if (a == 0 && b == n)
            VF_COUNT("rv/erase_range/whole");
          else if (b == n)
            VF_COUNT("rv/erase_range/tail");
          else
            VF_COUNT("rv/erase_range/inner");
          auto it = r.erase(r.begin() + static_cast<std::ptrdiff_t>(a), r.begin() + static_cast<std::ptrdiff_t>(b));
          auto is = s.erase(s.begin() + static_cast<std::ptrdiff_t>(a), s.begin() + static_cast<std::ptrdiff_t>(b));
          if (it - r.begin() != is - s.begin())
            fail(a == b ? "erase-range/returned-iterator-empty-range" : "erase-range/returned-iterator",
                 "offset got=" + std::to_string(it - r.begin()) + " want=" + std::to_string(is - s.begin()));
          compare(r, s, "erase-range");
        }
        break;
        case 12:
        {
          std::size_t ns = g.below(n + 5);
          T v = fresh();
          vf::extend_case(" resize(%zu,%lld)", ns, key(v));
          if (ns > n)
            VF_COUNT("rv/resize/up");
          else if (ns < n)
            VF_COUNT("rv/resize/down");
          else
            VF_COUNT("rv/resize/same");
          if (n > 0 && g.chance(1, 3))
          {
            // the fill value refers to an element of the vector itself (v.resize(k, v.back())): std::vector copies the
            // value it was handed, also when growing reallocates
            std::size_t const a = g.below(n);
            T const expect = s[a];
            vf::extend_case("[value aliases element %zu]", a);
            if (ns > r.capacity())
              VF_COUNT("rv/resize_alias/realloc");
            else if (ns > n)
              VF_COUNT("rv/resize_alias/inplace-grow");
            else
              VF_COUNT("rv/resize_alias/no-growth");
            r.resize(ns, r[a]);
            s.resize(ns, expect);
            compare(r, s, "resize-alias");
          }
          else
          {
            r.resize(ns, v);
            s.resize(ns, v);
            compare(r, s, "resize");
          }
        }
        break;
        case 13:
        {
          std::size_t c = g.below(2 * n + 6);
          vf::extend_case(" reserve(%zu)", c);
          if (c < r.capacity())
            VF_COUNT("rv/reserve/below");
          else if (c == r.capacity())
            VF_COUNT("rv/reserve/equal");
          else
            VF_COUNT("rv/reserve/above");
          auto const before = r.data();
          std::size_t capb = r.capacity();
          r.reserve(c);
          if (r.capacity() < c)
            fail("reserve/capacity", "capacity " + std::to_string(r.capacity()) + " < requested " + std::to_string(c));
          if (c <= capb && (r.data() != before || r.capacity() != capb))
            fail("reserve/no-op-expected", "reserve within capacity reallocated");
          compare(r, s, "reserve");
        }
        break;
        case 14:
        {
          vf::extend_case(" shrink_to_fit");
          if (n == 0)
          {
            if (r.capacity() > 0)
              VF_COUNT("rv/shrink/empty-with-capacity");
            else
              VF_COUNT("rv/shrink/empty-no-capacity");
          }
          else if (r.capacity() > n)
            VF_COUNT("rv/shrink/nonempty-slack");
          else
            VF_COUNT("rv/shrink/nonempty-tight");
          r.shrink_to_fit();
          compare(r, s, "shrink_to_fit");
        }
        break;
        case 15:
          vf::extend_case(" clear");
          r.clear();
          s.clear();
          VF_COUNT("rv/clear");
          compare(r, s, "clear");
          break;
        case 16:
          vf::extend_case(" swap(second)");
          if (g.chance(1, 2))
            r.swap(r2);
          else
            r2.swap(r);
          s.swap(s2);
          VF_COUNT("rv/swap");
          compare(r, s, "swap");
          compare(r2, s2, "swap-other");
          break;
        case 17:
        {
          vf::extend_case(" move_ctor_roundtrip");
          RV t(std::move(r));
          // the state of a moved-from vector is unspecified (as for std::vector): observed, not judged
          if (r.size() != 0 || !r.empty())
            vf::observation("raw_vector: moved-from source of the move constructor is not empty");
          compare(t, s, "move-ctor");
          r = std::move(t);
          if (t.size() != 0)
            vf::observation("raw_vector: the source of a move assignment is not empty afterwards (it holds the target's old contents; unspecified state, not judged)");
          VF_COUNT("rv/move/ctor-roundtrip");
          compare(r, s, "move-assign");
        }
        break;
        case 18:
        {
          vf::extend_case(" move_assign(second<-first)");
          if (s2.empty())
            VF_COUNT("rv/move_assign/to-empty");
          else
            VF_COUNT("rv/move_assign/to-nonempty");
          r2 = std::move(r);
          s2 = std::move(s);
          s.clear();
          if (r.size() != 0)
            vf::observation("raw_vector: the source of a move assignment is not empty afterwards (it holds the target's old contents; unspecified state, not judged)");
          compare(r2, s2, "move-assign-target");
          // a moved-from vector may be assigned to and destroyed; reuse it through assignment
          r = RV();
          compare(r, s, "move-assign-reuse");
        }
        break;
        case 20:
        case 21:
        {
          // A moved-from vector is in a valid but unspecified state (as for std::vector): whatever it holds now, every
          // operation without a precondition must work on it. The shadow takes over what the source reports, and the
          // history goes on WITH THE MOVED-FROM OBJECT.
          bool const by_ctor = op == 20;
          vf::extend_case(by_ctor ? " move_ctor_keep_source" : " move_assign_keep_source");
          if (by_ctor)
          {
            RV t(std::move(r));
            compare(t, s, "move-ctor-target");
            VF_COUNT("rv/move/ctor-source-reused");
          }
          else
          {
            RV t;
            t = std::move(r);
            compare(t, s, "move-assign-target");
            VF_COUNT("rv/move/assign-source-reused");
          }
          if (r.capacity() < r.size() || r.capacity() > (std::size_t{1} << 40))
            fail("moved-from/capacity", "capacity() of a moved-from vector is " + std::to_string(r.capacity()) + ", size() " + std::to_string(r.size()));
          s.assign(r.begin(), r.end());
          compare(r, s, "moved-from-source");
        }
        break;
        case 19:
        {
          vf::extend_case(" compare(second)");
          VF_COUNT("rv/comparison");
          bool eq = r == r2, ne = r != r2, lt = r < r2, gt = r > r2, le = r <= r2, ge = r >= r2;
          bool seq = s == s2, slt = s < s2, sgt = s > s2;
          if (eq != seq || ne != !seq || lt != slt || gt != sgt || le != !sgt || ge != !slt)
            fail("comparison", "relational operators disagree with std::vector");
        }
        break;
        }
        g_fail_alloc = 0;
        }
        catch (std::bad_alloc const &)
        {
          g_fail_alloc = 0;
          vf::extend_case("!bad_alloc");
          vf::count("rv/alloc-failure/op" + std::to_string(op), 1);
          VF_COUNT("rv/alloc-failure/any");
          if (op == 9 && r.size() != s.size())
          {
            // a range of single-pass iterators can only be inserted element by element (std::vector does the same): the
            // elements inserted before the failure stay. Accepted: the first k elements of the source at the position.
            std::size_t const k = r.size() - s.size();
            if (r.size() > s.size() && k < input_src.size())
              s.insert(s.begin() + static_cast<std::ptrdiff_t>(pos), input_src.begin(), input_src.begin() + static_cast<std::ptrdiff_t>(k));
            VF_COUNT("rv/alloc-failure/input-range-partly-inserted");
          }
          compare(r, s, "after-allocation-failure");
          compare(r2, s2, "after-allocation-failure-other");
        }
      }
      vf::note_distinct(vf::hash_str(vf::current_case()));
      vf::count_max("max/rv/size", s.size());
      vf::count_max("max/rv/capacity", r.capacity());
    }
    g_ledger = nullptr;
    if (!led.live.empty())
      vf::violation("raw_vector<" + std::string(tname<T>()) + ">/ledger/leak", "mismatch",
                    std::to_string(led.live.size()) + " allocation(s) still live after destruction");
    if (led.bad_dealloc)
      vf::violation("raw_vector<" + std::string(tname<T>()) + ">/ledger/bad-deallocate", "mismatch",
                    "deallocate of an unknown pointer or with a size different from the allocation");
    vf::count("rv/ledger/allocations", led.allocs);
    vf::count("rv/ledger/deallocations", led.frees);
    vf::count("rv/ledger/bytes", led.bytes);
  }
};

template <class T, class A = ledger_alloc<T>>
void rv_histories(std::uint64_t total)
{
  rv_runner<T, A> R;
  R.e = std::string("raw_vector<") + tname<T>() + alloc_suffix<A>() + ">";
  if (!vf::entry_enabled(R.e))
    return;
  vf::set_entry(R.e);
  std::uint64_t per = total / vf::opts().nparts + 1;
  for (std::uint64_t i = 0; i < per; ++i)
  {
    if (!vf::begin_case("seed=%" PRIu64 " part=%u h=%" PRIu64 ":", vf::opts().seed, vf::opts().part, i))
      continue;
    R.run(i);
    vf::sample_case(1);
  }
}

// ------------------------------------------------------------------ buffer histories
template <class T>
void buffer_histories(std::uint64_t total)
{
  using B = fcppt::container::buffer::object<T, ledger_alloc<T>>;
  using RV = fcppt::container::raw_vector::object<T, ledger_alloc<T>>;
  std::string e = std::string("buffer<") + tname<T>() + ">";
  if (!vf::entry_enabled(e))
    return;
  vf::set_entry(e);
  std::uint64_t per = total / vf::opts().nparts + 1;
  for (std::uint64_t h = 0; h < per; ++h)
  {
    if (!vf::begin_case("seed=%" PRIu64 " part=%u h=%" PRIu64 ":", vf::opts().seed, vf::opts().part, h))
      continue;
    vf::rng g(vf::seed_for(e, h));
    int next = static_cast<int>(g.below(50)) + 1;
    ledger_t led;
    g_ledger = &led;
    bool ok = true;
    auto fail = [&](std::string const &cls, std::string const &d) {
      vf::violation(e + "/" + cls, "mismatch", d);
      ok = false;
    };
    {
      std::size_t w0 = g.below(6);
      vf::extend_case(" ctor(%zu)", w0);
      // two buffers on different arenas (allocator instances that are not interchangeable): swapped and move-assigned
      // buffers, and the raw_vector a buffer is converted into, return every block to the arena it came from
      B b(w0, ledger_alloc<T>(1));
      B b2(0, ledger_alloc<T>(2));
      std::vector<T> model, model2;
      std::size_t wsize = w0, wsize2 = 0;
      bool released = false;
      auto check = [&](B &bb, std::vector<T> const &m, std::size_t ws, char const *op) {
        if (bb.read_size() != m.size())
        {
          fail(std::string(op) + "/read_size", "read_size got=" + std::to_string(bb.read_size()) + " want=" + std::to_string(m.size()));
          return;
        }
        if (bb.write_size() != ws)
          fail(std::string(op) + "/write_size", "write_size got=" + std::to_string(bb.write_size()) + " want=" + std::to_string(ws));
        if (static_cast<std::size_t>(bb.write_data_end() - bb.write_data()) != ws ||
            static_cast<std::size_t>(bb.read_data_end() - bb.read_data()) != m.size() ||
            bb.read_data_end() != bb.write_data() || bb.begin() != bb.read_data() || bb.end() != bb.read_data_end())
          fail(std::string(op) + "/areas", "read/write area pointers inconsistent");
        std::size_t i = 0;
        for (T const &v : bb)
        {
          if (i >= m.size() || !(v == m[i]) || !(bb[i] == m[i]))
          {
            fail(std::string(op) + "/contents", "read area differs at " + std::to_string(i));
            break;
          }
          ++i;
        }
      };
      check(b, model, wsize, "ctor");
      unsigned len = static_cast<unsigned>(g.below(30)) + 1;
      for (unsigned st = 0; st < len && !released && ok; ++st)
      {
        switch (g.below(8))
        {
        case 0:
        {
          std::size_t n = g.below(9);
          vf::extend_case(" resize_write_area(%zu)", n);
          if (n > wsize)
            VF_COUNT("buf/resize_write_area/grow");
          else
            VF_COUNT("buf/resize_write_area/shrink-or-same");
          if (!model.empty() && n > wsize)
            VF_COUNT("buf/resize_write_area/grow-with-read-data");
          // failpoint: the allocation of the larger block fails in one of six calls; the buffer must be what it was
          g_fail_alloc = g.chance(1, 6) ? 1 : 0;
          try
          {
            b.resize_write_area(n);
            wsize = n;
          }
          catch (std::bad_alloc const &)
          {
            vf::extend_case("!bad_alloc");
            VF_COUNT("buf/resize_write_area/allocation-failed");
          }
          g_fail_alloc = 0;
          check(b, model, wsize, "resize_write_area");
        }
        break;
        case 1:
        {
          std::size_t n = wsize ? g.below(wsize + 1) : 0;
          vf::extend_case(" written(%zu)", n);
          for (std::size_t i = 0; i < n; ++i)
          {
            T v = mk<T>(next++ % 120 + 1);
            b.write_data()[i] = v;
            model.push_back(v);
          }
          b.written(n);
          wsize -= n;
          if (n == 0)
            VF_COUNT("buf/written/zero");
          else if (wsize == 0)
            VF_COUNT("buf/written/all");
          else
            VF_COUNT("buf/written/part");
          check(b, model, wsize, "written");
        }
        break;
        case 2:
        {
          std::size_t n = g.below(7);
          std::size_t got = n ? g.below(n + 1) : 0;
          vf::extend_case(" append_from(%zu,%zu)", n, got);
          VF_COUNT("buf/append_from");
          b = fcppt::container::buffer::append_from(std::move(b), n, [&](T *p, std::size_t sz) {
            if (sz != n)
              fail("append_from/size-argument", "function got " + std::to_string(sz));
            for (std::size_t i = 0; i < got; ++i)
            {
              T v = mk<T>(next++ % 120 + 1);
              p[i] = v;
              model.push_back(v);
            }
            return got;
          });
          wsize = n - got;
          check(b, model, wsize, "append_from");
        }
        break;
        case 3:
        {
          std::size_t n = g.below(7);
          bool succeed = g.chance(2, 3);
          std::size_t got = n ? g.below(n + 1) : 0;
          vf::extend_case(" append_from_opt(%zu,%s%zu)", n, succeed ? "" : "fail", got);
          std::vector<T> tentative;
          auto r = fcppt::container::buffer::append_from_opt(
              std::move(b), n, [&](T *p, std::size_t) -> fcppt::optional::object<std::size_t> {
                if (!succeed)
                  return fcppt::optional::object<std::size_t>{};
                for (std::size_t i = 0; i < got; ++i)
                {
                  T v = mk<T>(next++ % 120 + 1);
                  p[i] = v;
                  tentative.push_back(v);
                }
                return fcppt::optional::object<std::size_t>{got};
              });
          if (r.has_value() != succeed)
            fail("append_from_opt/presence", "optional presence wrong");
          if (succeed && r.has_value())
          {
            VF_COUNT("buf/append_from_opt/success");
            b = std::move(r.get_unsafe());
            model.insert(model.end(), tentative.begin(), tentative.end());
            wsize = n - got;
            check(b, model, wsize, "append_from_opt");
          }
          else
          {
            VF_COUNT("buf/append_from_opt/failure");
            released = true;
          }
        }
        break;
        case 4:
        {
          vf::extend_case(" move_roundtrip");
          VF_COUNT("buf/move");
          B c(std::move(b));
          if (b.read_size() != 0 || b.write_size() != 0)
            vf::observation("buffer: moved-from buffer is not empty (unspecified state, not judged)");
          check(c, model, wsize, "move-ctor");
          b = std::move(c);
          check(b, model, wsize, "move-assign");
        }
        break;
        case 5:
        {
          vf::extend_case(" swap(second)");
          VF_COUNT("buf/swap");
          b.swap(b2);
          model.swap(model2);
          std::swap(wsize, wsize2);
          check(b, model, wsize, "swap");
          check(b2, model2, wsize2, "swap-other");
        }
        break;
        case 6:
        {
          vf::extend_case(" move_assign(second<-first)");
          VF_COUNT("buf/move_assign");
          b2 = std::move(b);
          model2 = model;
          wsize2 = wsize;
          check(b2, model2, wsize2, "move-assign-target");
          b = B(g.below(4));
          model.clear();
          wsize = b.write_size();
          check(b, model, wsize, "move-assign-reuse");
        }
        break;
        case 7:
        {
          vf::extend_case(" to_raw_vector");
          if (model.empty())
            VF_COUNT("buf/to_raw_vector/empty-read-area");
          else if (wsize == 0)
            VF_COUNT("buf/to_raw_vector/no-write-area");
          else
            VF_COUNT("buf/to_raw_vector/with-write-area");
          std::uint64_t before = led.allocs, fbefore = led.frees;
          RV v = fcppt::container::buffer::to_raw_vector(std::move(b));
          released = true;
          if (led.allocs != before || led.frees != fbefore)
            fail("to_raw_vector/allocated", "conversion allocated or freed memory");
          if (v.size() != model.size())
            fail("to_raw_vector/size", "size got=" + std::to_string(v.size()) + " want=" + std::to_string(model.size()));
          else
            for (std::size_t i = 0; i < model.size(); ++i)
              if (!(v[i] == model[i]))
              {
                fail("to_raw_vector/contents", "differs at " + std::to_string(i));
                break;
              }
          if (v.capacity() < v.size())
            fail("to_raw_vector/capacity-below-size", "");
          if (b.read_size() != 0 || b.write_size() != 0)
            vf::observation("buffer: released buffer is not empty (unspecified state, not judged)");
          // the vector must be fully usable afterwards
          T x = mk<T>(7);
          v.push_back(x);
          v.insert(v.begin(), x);
          if (v.size() != model.size() + 2 || !(v.front() == x) || !(v.back() == x))
            fail("to_raw_vector/usable", "vector unusable after conversion");
        }
        break;
        }
      }
      vf::note_distinct(vf::hash_str(vf::current_case()));
    }
    g_ledger = nullptr;
    if (led.wrong_arena)
      vf::violation(e + "/ledger/block-returned-to-another-arena", "mismatch",
                    std::to_string(led.wrong_arena) + " block(s) were deallocated through an allocator instance that does not compare equal to the one that allocated them");
    else
      VF_COUNT("buf/ledger/two-arenas-balanced");
    if (!led.live.empty())
      vf::violation(e + "/ledger/leak", "mismatch", std::to_string(led.live.size()) + " allocation(s) still live");
    if (led.bad_dealloc)
      vf::violation(e + "/ledger/bad-deallocate", "mismatch", "deallocate of unknown pointer or wrong size");
    vf::count("buf/ledger/allocations", led.allocs);
    vf::sample_case(1);
  }
}

// ------------------------------------------------------------------ read_from / io::read_chars through buffer
#ifndef VF_FUZZ // (needs the compiled core library; the fuzz build is header-only)
void read_chars_cases()
{
  std::string e = "io::read_chars";
  if (!vf::entry_enabled(e))
    return;
  vf::set_entry(e);
  unsigned idx = 0;
  for (unsigned len = 0; len <= 9; ++len)
    for (unsigned count = 0; count <= len + 2; ++count, ++idx)
    {
      if (!vf::mine(idx))
        continue;
      if (!vf::begin_case("len=%u count=%u", len, count))
        continue;
      std::string text;
      for (unsigned i = 0; i < len; ++i)
        text += static_cast<char>('a' + i);
      std::istringstream is(text);
      auto r = fcppt::io::read_chars(is, count);
      vf::note_distinct(vf::hash_mix(len, count));
      // documented: reads exactly count characters, nothing if the stream has fewer
      if (count <= len)
      {
        VF_COUNT("read_chars/enough");
        if (!r.has_value())
          vf::violation("io::read_chars/spurious-nothing", "mismatch", "len=" + std::to_string(len) + " count=" + std::to_string(count));
        else
        {
          auto const &b = r.get_unsafe();
          if (b.size() != count || std::string(b.begin(), b.end()) != text.substr(0, count))
            vf::violation("io::read_chars/contents", "mismatch", "len=" + std::to_string(len) + " count=" + std::to_string(count));
        }
      }
      else
      {
        VF_COUNT("read_chars/too-few");
        if (r.has_value())
          vf::violation("io::read_chars/spurious-value", "mismatch", "len=" + std::to_string(len) + " count=" + std::to_string(count));
      }
    }
}

#endif
// ------------------------------------------------------------------ read_from / read_from_opt / dynamic_array
// A buffer made by read_from(size, f): f sees a write area of exactly `size` elements, the read area is what f
// reports (0..size), the raw_vector made from it has exactly these elements; the ledger is balanced afterwards.
void read_from_cases()
{
  std::string const e = "buffer::read_from";
  if (!vf::entry_enabled(e))
    return;
  vf::set_entry(e);
  using B = fcppt::container::buffer::object<int, ledger_alloc<int>>;
  unsigned idx = 0;
  for (unsigned size = 0; size <= 12; ++size)
    for (unsigned written = 0; written <= size; ++written)
      for (unsigned mode = 0; mode < 3; ++mode, ++idx)
      {
        if (!vf::mine(idx))
          continue;
        if (!vf::begin_case("size=%u written=%u mode=%u", size, written, mode))
          continue;
        vf::note_distinct(vf::hash_mix(vf::hash_mix(size, written), mode + 77));
        ledger_t led;
        g_ledger = &led;
        {
          unsigned seen_size = ~0U;
          auto const fill = [&](int *p, std::size_t n) {
            seen_size = static_cast<unsigned>(n);
            for (std::size_t i = 0; i < n; ++i) // the whole write area must be writable
              p[i] = static_cast<int>(1000 + i);
          };
          std::vector<int> expect;
          for (unsigned i = 0; i < written; ++i)
            expect.push_back(static_cast<int>(1000 + i));
          auto const judge = [&](B &&b, char const *what) {
            if (seen_size != size)
              vf::violation(e + "/write-area-size", "mismatch", std::string(what) + ": the function saw " + std::to_string(seen_size) + " for size " + std::to_string(size));
            if (b.read_size() != written || std::vector<int>(b.begin(), b.end()) != expect)
              vf::violation(e + "/read-area", "mismatch", std::string(what) + ": read area differs from what the function reported");
            auto rv = fcppt::container::buffer::to_raw_vector(std::move(b));
            if (std::vector<int>(rv.begin(), rv.end()) != expect || rv.capacity() < rv.size())
              vf::violation(e + "/to_raw_vector", "mismatch", std::string(what) + ": raw_vector differs from the read area");
          };
          if (mode == 0)
          {
            VF_COUNT("buf/read_from");
            judge(fcppt::container::buffer::read_from<B>(size, [&](int *p, std::size_t n) -> std::size_t { fill(p, n); return written; }), "read_from");
          }
          else if (mode == 1)
          {
            VF_COUNT("buf/read_from_opt/success");
            auto r = fcppt::container::buffer::read_from_opt<B>(size, [&](int *p, std::size_t n) { fill(p, n); return fcppt::optional::object<std::size_t>{written}; });
            if (!r.has_value())
              vf::violation(e + "/read_from_opt/spurious-nothing", "mismatch", "the function reported a size but nothing was returned");
            else
              judge(std::move(r.get_unsafe()), "read_from_opt");
          }
          else
          {
            VF_COUNT("buf/read_from_opt/failure");
            auto r = fcppt::container::buffer::read_from_opt<B>(size, [&](int *p, std::size_t n) { fill(p, n); return fcppt::optional::object<std::size_t>{}; });
            if (r.has_value())
              vf::violation(e + "/read_from_opt/spurious-value", "mismatch", "the function reported failure but a buffer was returned");
          }
        }
        g_ledger = nullptr;
        if (!led.live.empty())
          vf::violation(e + "/ledger/leak", "mismatch", std::to_string(led.live.size()) + " allocation(s) still live");
        if (led.bad_dealloc)
          vf::violation(e + "/ledger/bad-deallocate", "mismatch", "deallocate of unknown pointer or wrong size");
      }
  // dynamic_array: exactly one allocation of `size` elements, all of [data, data_end) usable, released with the same size
  std::string const d = "container::dynamic_array";
  vf::set_entry(d);
  for (unsigned size = 0; size <= 40; ++size, ++idx)
  {
    if (!vf::mine(idx))
      continue;
    if (!vf::begin_case("size=%u", size))
      continue;
    vf::note_distinct(vf::hash_mix(size, 4242));
    VF_COUNT("dynamic_array/sizes");
    ledger_t led;
    g_ledger = &led;
    {
      fcppt::container::dynamic_array<pod24, ledger_alloc<pod24>> a{size};
      auto const &ca = a;
      if (a.size() != size || a.data_end() - a.data() != static_cast<std::ptrdiff_t>(size) || ca.data() != a.data() || ca.data_end() != a.data_end())
        vf::violation(d + "/extent", "mismatch", "size()/data()/data_end() disagree for size " + std::to_string(size));
      for (pod24 *p = a.data(); p != a.data_end(); ++p)
        *p = pod24{};
      if (led.live.size() != 1 || led.live.begin()->second != size)
        vf::violation(d + "/allocation", "mismatch", "not exactly one allocation of size elements");
    }
    g_ledger = nullptr;
    if (!led.live.empty() || led.bad_dealloc)
      vf::violation(d + "/ledger", "mismatch", "leak or deallocate with a wrong pointer/size");
  }
}

void body()
{
  for (char const *b : {"rv/resize_alias/realloc", "rv/resize_alias/inplace-grow", "rv/move/ctor-source-reused", "rv/move/assign-source-reused", "rv/alloc-failure/any", "buf/resize_write_area/allocation-failed", "buf/read_from", "buf/read_from_opt/success", "buf/read_from_opt/failure", "dynamic_array/sizes"})
    vf::require_bucket(b);
  for (char const *b :
       {"rv/ctor/default", "rv/ctor/count", "rv/ctor/forward-range", "rv/ctor/input-range", "rv/ctor/initializer-list",
        "rv/ctor/rep", "rv/push_back/inplace", "rv/push_back/realloc", "rv/push_back_alias/realloc", "rv/pop_back",
        "rv/insert/inplace", "rv/insert/inplace-empty", "rv/insert/realloc", "rv/insert_alias/inplace-before",
        "rv/insert_alias/inplace-at", "rv/insert_alias/inplace-after", "rv/insert_alias/realloc", "rv/insert_n/zero",
        "rv/insert_n/inplace", "rv/insert_n/realloc", "rv/insert_n_alias/inplace-before",
        "rv/insert_n_alias/inplace-at-or-after", "rv/insert_n_alias/realloc", "rv/insert_fwd/empty-range",
        "rv/insert_fwd/inplace", "rv/insert_fwd/realloc", "rv/insert_input/empty-range", "rv/insert_input/nonempty",
        "rv/erase/last", "rv/erase/inner", "rv/erase_range/empty", "rv/erase_range/whole", "rv/erase_range/tail",
        "rv/erase_range/inner", "rv/resize/up", "rv/resize/down", "rv/resize/same", "rv/reserve/below",
        "rv/reserve/above", "rv/shrink/empty-with-capacity", "rv/shrink/nonempty-slack", "rv/clear", "rv/swap",
        "rv/move/ctor-roundtrip", "rv/move_assign/to-empty", "rv/move_assign/to-nonempty", "rv/comparison",
        "buf/resize_write_area/grow", "buf/resize_write_area/grow-with-read-data", "buf/written/part", "buf/written/all",
        "buf/append_from", "buf/append_from_opt/success", "buf/append_from_opt/failure", "buf/move", "buf/swap",
        "buf/move_assign", "buf/to_raw_vector/empty-read-area", "buf/to_raw_vector/no-write-area",
        "buf/to_raw_vector/with-write-area", "read_chars/enough", "read_chars/too-few"})
    vf::require_bucket(b);
  std::uint64_t hist = vf::tier<std::uint64_t>(24000, 8000000);
  if (vf::has_extra("--small")) // the memcheck pass (valgrind is 20-50x slower)
    hist = 60000;
  rv_histories<int>(hist);
  rv_histories<unsigned char>(hist / 2);
  rv_histories<pod24>(hist / 2);
  rv_histories<int, fancy_alloc<int>>(hist / 2);
  buffer_histories<int>(hist);
  buffer_histories<unsigned char>(hist / 4);
#ifndef VF_FUZZ
  read_chars_cases();
#endif
  read_from_cases();
}
}

#ifdef VF_FUZZ
// one history per libFuzzer input; the first byte selects the family, all further draws come from the input
void vf_fuzz_one()
{
  switch (vf::fuzz_src().take(1) % 5)
  {
  case 0: rv_histories<int>(0); break;
  case 1: rv_histories<unsigned char>(0); break;
  case 2: rv_histories<pod24>(0); break;
  case 3: buffer_histories<int>(0); break;
  default: buffer_histories<unsigned char>(0); break;
  }
}
#endif

VF_MAIN(body)
