// C19: shared pieces of the log harnesses: locations of depth <= 3 over 3 names, level encoding, op generator.
#ifndef C19_MODEL_HPP_INCLUDED
#define C19_MODEL_HPP_INCLUDED

#include <vf.hpp>

#include <fcppt/make_ref.hpp>
#include <fcppt/enum/array_init.hpp>
#include <fcppt/log/context.hpp>
#include <fcppt/log/level.hpp>
#include <fcppt/log/level_stream.hpp>
#include <fcppt/log/level_stream_array.hpp>
#include <fcppt/log/level_to_string.hpp>
#include <fcppt/log/location.hpp>
#include <fcppt/log/name.hpp>
#include <fcppt/log/object.hpp>
#include <fcppt/log/optional_level.hpp>
#include <fcppt/log/out.hpp>
#include <fcppt/log/parameters.hpp>
#include <fcppt/log/format/default_level.hpp>
#include <fcppt/log/format/function.hpp>
#include <fcppt/log/format/optional_function.hpp>

#include <array>
#include <memory>
#include <sstream>
#include <string>
#include <vector>

namespace c19
{
namespace l = fcppt::log;
using Loc = std::vector<int>; // indices into names, depth <= 3
constexpr int NLEVELS = 6;    // level value 6 = "no level" (logging disabled)
inline char const *const names[3] = {"a", "b", "c"};

inline l::optional_level toopt(int v) { return v == NLEVELS ? l::optional_level{} : l::optional_level{static_cast<l::level>(v)}; }
inline int fromopt(l::optional_level const &o) { return o.has_value() ? static_cast<int>(o.get_unsafe()) : NLEVELS; }
inline l::location mkloc(Loc const &v)
{
  l::location r;
  for (int n : v)
    r /= l::name{names[n]};
  return r;
}
// dense index of a location: 0 = root, then depth 1 (3), depth 2 (9), depth 3 (27)
inline int loc_index(Loc const &v)
{
  int base = 0, mul = 1, idx = 0;
  for (std::size_t d = 0; d < v.size(); ++d)
  {
    base += mul;
    mul *= 3;
    idx = idx * 3 + v[d];
  }
  return base + idx;
}
constexpr int NLOCS = 40;
inline bool is_prefix(Loc const &p, Loc const &l)
{
  if (p.size() > l.size())
    return false;
  for (std::size_t i = 0; i < p.size(); ++i)
    if (p[i] != l[i])
      return false;
  return true;
}
inline std::string show(Loc const &v)
{
  std::string s = "/";
  for (int n : v)
    s += std::string(names[n]) + "/";
  return s;
}
inline Loc random_loc(vf::rng &g, unsigned maxdepth = 3)
{
  Loc v;
  for (std::size_t d = g.below(maxdepth + 1); d > 0; --d)
    v.push_back(static_cast<int>(g.below(3)));
  return v;
}
inline std::vector<Loc> all_locs()
{
  std::vector<Loc> r{{}};
  for (int a = 0; a < 3; ++a)
  {
    r.push_back({a});
    for (int b = 0; b < 3; ++b)
    {
      r.push_back({a, b});
      for (int c = 0; c < 3; ++c)
        r.push_back({a, b, c});
    }
  }
  return r;
}

struct sinks_t
{
  std::array<std::ostringstream, NLEVELS> s;
};
// kinds[level]: 0 = the default level formatter ("level: " + text + newline), 1 = NO formatter (the level stream adds
// nothing: the text is what the logger's own chain makes of the message), 2 = a custom formatter "[text]"
using stream_kinds = std::array<int, NLEVELS>;
inline l::level_stream_array make_streams(sinks_t &sinks, stream_kinds const &kinds = stream_kinds{})
{
  return fcppt::enum_::array_init<l::level_stream_array>([&](l::level lv) {
    int const k = kinds[static_cast<std::size_t>(lv)];
    return l::level_stream(
        sinks.s[static_cast<std::size_t>(lv)],
        k == 0   ? l::format::optional_function{l::format::default_level(lv)}
        : k == 1 ? l::format::optional_function{}
                 : l::format::optional_function{l::format::function{[](fcppt::string const &t) { return fcppt::string("[") + t + "]"; }}});
  });
}
}

#endif
