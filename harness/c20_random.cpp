// C20: random wrappers are transparent and stay within the requested bounds.
//
// Oracle: the standard engine and the standard distribution, constructed side by side in the harness
// from the same seed and the same parameters (this is what the statement names as the reference).
// The value an fcppt distribution returns is unwrapped with the harness's own re-wrapping rule
// (strong typedef -> get(), enum -> static_cast to the underlying type) and compared draw by draw.
// Independently of the std side every integer/enum/index draw is compared with the closed interval
// that was requested, and for intervals with at most 17 values both end points must show up within
// 2000 draws (the only probabilistic judgement: a correct distribution misses an end with
// probability (16/17)^2000 < 10^-52 per end).
//
// Not instantiated (they do not compile, compile-time defects outside any execution):
//   basic::operator()(rng, param) [F16], basic::param() getter, parameters::*::convert_to,
//   operator>>(istream&, basic&).
#include <vf.hpp>

#include <fcppt/make_cref.hpp>
#include <fcppt/make_ref.hpp>
#include <fcppt/make_strong_typedef.hpp>
#include <fcppt/strong_typedef.hpp>
#include <fcppt/optional/object.hpp>
#include <fcppt/random/make_variate.hpp>
#include <fcppt/random/variate.hpp>
#include <fcppt/random/distribution/basic.hpp>
#include <fcppt/random/distribution/make_basic.hpp>
#include <fcppt/random/distribution/parameters/make_uniform_enum.hpp>
#include <fcppt/random/distribution/parameters/make_uniform_enum_advanced.hpp>
#include <fcppt/random/distribution/parameters/make_uniform_indices.hpp>
#include <fcppt/random/distribution/parameters/make_uniform_indices_advanced.hpp>
#include <fcppt/random/distribution/parameters/normal.hpp>
#include <fcppt/random/distribution/parameters/uniform_int.hpp>
#include <fcppt/random/distribution/parameters/uniform_int_wrapper.hpp>
#include <fcppt/random/distribution/parameters/uniform_real.hpp>
#include <fcppt/random/generator/minstd_rand.hpp>
#include <fcppt/random/generator/mt19937.hpp>
#include <fcppt/random/wrapper/make_uniform_container.hpp>
#include <fcppt/random/wrapper/make_uniform_container_advanced.hpp>
#include <fcppt/random/wrapper/uniform_container.hpp>
#include <fcppt/type_iso/enum.hpp>
#include <fcppt/type_iso/strong_typedef.hpp>

#include <bit>
#include <cmath>
#include <cstdint>
#include <deque>
#include <functional>
#include <limits>
#include <memory>
#include <random>
#include <sstream>
#include <set>
#include <string>
#include <type_traits>
#include <vector>

namespace
{
namespace fr = fcppt::random;
namespace frp = fcppt::random::distribution::parameters;
using i128 = __int128;

std::string s128(i128 v)
{
  if (v == 0)
    return "0";
  bool neg = v < 0;
  std::string r;
  unsigned __int128 u = neg ? -static_cast<unsigned __int128>(v) : static_cast<unsigned __int128>(v);
  while (u)
  {
    r.insert(r.begin(), static_cast<char>('0' + static_cast<int>(u % 10)));
    u /= 10;
  }
  return neg ? "-" + r : r;
}

// ------------------------------------------------------------------ result types
FCPPT_MAKE_STRONG_TYPEDEF(int, st_int);
FCPPT_MAKE_STRONG_TYPEDEF(unsigned, st_uint);
FCPPT_MAKE_STRONG_TYPEDEF(long, st_long);
FCPPT_MAKE_STRONG_TYPEDEF(st_long, st_st_long); // chained decoration
FCPPT_MAKE_STRONG_TYPEDEF(double, st_double);
FCPPT_MAKE_STRONG_TYPEDEF(float, st_float);

#define C20_ENUM(name, under, n)                                                                             \
  enum class name : under                                                                                    \
  {                                                                                                          \
    first = 0,                                                                                               \
    fcppt_maximum = (n)-1                                                                                    \
  };
C20_ENUM(e1, int, 1)
C20_ENUM(e2, unsigned, 2)
C20_ENUM(e3, int, 3)
C20_ENUM(e4, short, 4)
C20_ENUM(e5, long, 5)
C20_ENUM(e6, int, 6)
C20_ENUM(e7, unsigned long, 7)
C20_ENUM(e8, unsigned short, 8)
C20_ENUM(e9, int, 9)
enum class e3d // default underlying type, named enumerators
{
  a,
  b,
  c,
  fcppt_maximum = c
};
FCPPT_MAKE_STRONG_TYPEDEF(e5, st_e5); // strong typedef around an enum

// The harness's own re-wrapping rule (not fcppt::type_iso).
template <class T, class = void>
struct rw;
template <class T>
struct rw<T, std::enable_if_t<std::is_arithmetic_v<T>>>
{
  using base = T;
  static constexpr char const *kind = "plain";
  static base unwrap(T v) { return v; }
  static T wrap(base v) { return v; }
};
template <class T>
struct rw<T, std::enable_if_t<std::is_enum_v<T>>>
{
  using base = std::underlying_type_t<T>;
  static constexpr char const *kind = "enum";
  static base unwrap(T v) { return static_cast<base>(v); }
  static T wrap(base v) { return static_cast<T>(v); }
};
template <class T, class Tag>
struct rw<fcppt::strong_typedef<T, Tag>, void>
{
  using base = typename rw<T>::base;
  static constexpr char const *kind = "strong_typedef";
  static base unwrap(fcppt::strong_typedef<T, Tag> const &v) { return rw<T>::unwrap(v.get()); }
  static fcppt::strong_typedef<T, Tag> wrap(base v) { return fcppt::strong_typedef<T, Tag>(rw<T>::wrap(v)); }
};

template <class T>
char const *tn()
{
#define C20_TN(t)                                                                                            \
  if constexpr (std::is_same_v<T, t>)                                                                        \
    return #t;                                                                                               \
  else
  C20_TN(short)
  C20_TN(int)
  C20_TN(long)
  C20_TN(long long)
  C20_TN(unsigned short)
  C20_TN(unsigned)
  C20_TN(unsigned long)
  C20_TN(float)
  C20_TN(double)
  C20_TN(long double)
  C20_TN(st_int)
  C20_TN(st_uint)
  C20_TN(st_long)
  C20_TN(st_st_long)
  C20_TN(st_double)
  C20_TN(st_float)
  C20_TN(st_e5)
  C20_TN(e1)
  C20_TN(e2)
  C20_TN(e3)
  C20_TN(e4)
  C20_TN(e5)
  C20_TN(e6)
  C20_TN(e7)
  C20_TN(e8)
  C20_TN(e9)
  C20_TN(e3d)
  return "?";
#undef C20_TN
}

// ------------------------------------------------------------------ engines
struct eng_minstd
{
  using f = fr::generator::minstd_rand;
  using s = std::minstd_rand;
  static constexpr char const *name = "minstd_rand";
};
struct eng_mt
{
  using f = fr::generator::mt19937;
  using s = std::mt19937;
  static constexpr char const *name = "mt19937";
};
// engines the library has no alias for, wrapped directly: a 64-bit engine (seeds and results beyond 32 bits), an engine
// with 24-bit results, and an engine adaptor
struct eng_mt64
{
  using f = fr::generator::basic_pseudo<std::mt19937_64>;
  using s = std::mt19937_64;
  static constexpr char const *name = "mt19937_64";
};
struct eng_ranlux
{
  using f = fr::generator::basic_pseudo<std::ranlux24_base>;
  using s = std::ranlux24_base;
  static constexpr char const *name = "ranlux24_base";
};
struct eng_knuth
{
  using f = fr::generator::basic_pseudo<std::knuth_b>;
  using s = std::knuth_b;
  static constexpr char const *name = "knuth_b";
};
// a user engine that can FAIL: it replays a tape of numbers and throws when asked beyond the part made available so far
// (an entropy source that ran dry).  The wrapped standard distribution on the bare engine lets the caller catch that,
// extend the tape and go on with the same sequence - a transparent wrapper does the same.
struct tape_dry
{
};
class tape_engine
{
public:
  using result_type = std::uint32_t;
  explicit tape_engine(result_type seed) : state_(seed == 0 ? 1U : seed) {}
  static constexpr result_type min() { return 0; }
  static constexpr result_type max() { return 0xFFFFFFFFU; }
  result_type operator()()
  {
    if (available_ == 0)
      throw tape_dry{};
    --available_;
    state_ ^= state_ << 13;
    state_ ^= state_ >> 17;
    state_ ^= state_ << 5;
    return state_;
  }
  void extend(unsigned n) { available_ += n; }
  friend bool operator==(tape_engine const &a, tape_engine const &b) { return a.state_ == b.state_ && a.available_ == b.available_; }

private:
  result_type state_;
  unsigned available_ = 0;
};
inline tape_engine *&current_tape()
{
  static tape_engine *p = nullptr;
  return p;
}
// (basic_pseudo owns its engine and offers no access to it: the tape is extended through a registry of the live engine)
class tape_engine_registered : public tape_engine
{
public:
  explicit tape_engine_registered(result_type seed) : tape_engine(seed) { current_tape() = this; }
  tape_engine_registered(tape_engine_registered const &o) : tape_engine(o) { current_tape() = this; }
};
void failing_engine_entry()
{
  std::string const e = "generator/engine-that-throws";
  if (!vf::entry_enabled(e))
    return;
  vf::set_entry(e);
  for (std::uint64_t idx = 0; idx < vf::tier<std::uint64_t>(200, 20000); ++idx)
  {
    if (!vf::mine(idx))
      continue;
    vf::rng g(vf::seed_for(e, idx));
    std::uint32_t const seed = static_cast<std::uint32_t>(g.next());
    int const a = static_cast<int>(g.range(-50, 50)), b = static_cast<int>(g.range(a, 60));
    if (!vf::begin_case("seed=%u interval=[%d,%d]: the tape is extended by 1..3 numbers whenever it ran dry, 40 draws", seed, a, b))
      continue;
    vf::sample_case(1);
    vf::note_distinct(vf::hash_mix(vf::hash_str(e), vf::hash_mix(seed, static_cast<std::uint64_t>(a * 1000 + b))));
    using G = fr::generator::basic_pseudo<tape_engine_registered>;
    using P = frp::uniform_int<int>;
    using D = fr::distribution::basic<P>;
    G g1{typename G::seed(seed)};
    tape_engine *const tape1 = current_tape();
    fr::variate<G, D> var(fcppt::make_ref(g1), D(P::min(a), P::max(b)));
    tape_engine g2(seed);
    std::uniform_int_distribution<int> sd(a, b);
    unsigned dry1 = 0, dry2 = 0;
    bool ok = true;
    for (unsigned k = 0; k < 40 && ok; ++k)
    {
      unsigned const more = 1 + static_cast<unsigned>(g.below(3));
      int x = 0, y = 0;
      for (;;)
      {
        try
        {
          x = var();
          break;
        }
        catch (tape_dry const &)
        {
          ++dry1;
          tape1->extend(more);
        }
      }
      for (;;)
      {
        try
        {
          y = sd(g2);
          break;
        }
        catch (tape_dry const &)
        {
          ++dry2;
          g2.extend(more);
        }
      }
      // (a draw that was interrupted starts over on both sides; the numbers consumed before the failure are gone on both)
      ok = x == y;
    }
    VF_COUNT("generator/throwing-engine-cases");
    if (dry1 > 0)
      VF_COUNT("generator/throwing-engine/exceptions-propagated");
    if (!ok || dry1 != dry2)
      vf::violation("generator/engine-that-throws/sequence", "mismatch",
                    "the variate and the standard distribution on the bare engine disagree (exceptions seen: " + std::to_string(dry1) + " / " + std::to_string(dry2) + ")");
  }
}
template <class E>
typename E::f::seed fseed(std::uint64_t v)
{
  return typename E::f::seed(static_cast<typename E::f::result_type>(v));
}
template <class E>
typename E::s::result_type sseed(std::uint64_t v)
{
  return static_cast<typename E::s::result_type>(v);
}

// engine seeds: the special ones first (0, 1, max, and the values around the moduli of the engines)
constexpr std::uint64_t special_seeds[] = {0U,
                                           1U,
                                           ~std::uint64_t{0},
                                           0xFFFFFFFFULL,
                                           2147483647ULL,
                                           2147483646ULL,
                                           0x100000000ULL,
                                           2147483648ULL};
constexpr std::size_t n_special = sizeof special_seeds / sizeof special_seeds[0];
std::uint64_t random_seed(vf::rng &g)
{
  std::uint64_t x = g.next();
  switch (g.below(3))
  {
  case 0: return x & 0xFFFFFFFFULL;
  case 1: return x >> g.below(64);
  default: return x;
  }
}
// k-th seed of a case family: k = 0 rotates through the special seeds, the others are random
std::uint64_t pick_seed(vf::rng &g, std::uint64_t family, std::uint64_t k)
{
  if (k == 0)
    return special_seeds[family % n_special];
  return random_seed(g);
}

// A user supplied distribution for the *_advanced factories: wraps std::uniform_int_distribution,
// records what it was constructed with and how often it was asked.
struct probe_log
{
  static inline std::uint64_t constructed = 0, draws = 0;
  static inline i128 last_a = 0, last_b = 0;
};
template <class T>
class probe_dist
{
public:
  using result_type = T;
  using inner = std::uniform_int_distribution<T>;
  using param_type = typename inner::param_type;
  explicit probe_dist(param_type const &p) : d_(p)
  {
    ++probe_log::constructed;
    probe_log::last_a = p.a();
    probe_log::last_b = p.b();
  }
  template <class G>
  T operator()(G &g)
  {
    ++probe_log::draws;
    return d_(g);
  }
  void reset() { d_.reset(); }
  T min() const { return d_.min(); }
  T max() const { return d_.max(); }
  T a() const { return d_.a(); }
  T b() const { return d_.b(); }
  param_type param() const { return d_.param(); }
  void param(param_type const &p) { d_.param(p); }
  friend bool operator==(probe_dist const &l, probe_dist const &r) { return l.d_ == r.d_; }
  friend bool operator!=(probe_dist const &l, probe_dist const &r) { return l.d_ != r.d_; }

private:
  inner d_;
};
// a user distribution that KEEPS STATE between draws (never the same value twice in a row where the interval allows it):
// a wrapper is transparent only if it draws from the one distribution object it stores, every time
template <class T>
class norepeat_dist
{
public:
  using result_type = T;
  using inner = std::uniform_int_distribution<T>;
  using param_type = typename inner::param_type;
  explicit norepeat_dist(param_type const &p) : d_(p) {}
  template <class G>
  T operator()(G &g)
  {
    T x = d_(g);
    if (have_last_ && x == last_ && d_.a() < d_.b())
      x = x == d_.b() ? d_.a() : static_cast<T>(x + 1);
    have_last_ = true;
    last_ = x;
    return x;
  }
  void reset()
  {
    d_.reset();
    have_last_ = false;
  }
  T min() const { return d_.min(); }
  T max() const { return d_.max(); }
  T a() const { return d_.a(); }
  T b() const { return d_.b(); }
  param_type param() const { return d_.param(); }
  void param(param_type const &p) { d_.param(p); }
  friend bool operator==(norepeat_dist const &l, norepeat_dist const &r)
  {
    return l.d_ == r.d_ && l.have_last_ == r.have_last_ && (!l.have_last_ || l.last_ == r.last_);
  }
  friend bool operator!=(norepeat_dist const &l, norepeat_dist const &r) { return !(l == r); }

private:
  inner d_;
  bool have_last_ = false;
  T last_{};
};
// a user distribution whose param_type can ALSO be built from an initializer list (then it draws from the listed values
// only): the wrapper has to construct it from the interval (min, max)
template <class T>
class listy_dist
{
public:
  using result_type = T;
  struct param_type
  {
    using distribution_type = listy_dist;
    T lo, hi;
    bool from_list = false;
    param_type(T a, T b) : lo(a), hi(b) {}
    param_type(std::initializer_list<T> l) : lo(*l.begin()), hi(*(l.end() - 1)), from_list(true) {}
    T a() const { return lo; }
    T b() const { return hi; }
    friend bool operator==(param_type const &x, param_type const &y) { return x.lo == y.lo && x.hi == y.hi && x.from_list == y.from_list; }
    friend bool operator!=(param_type const &x, param_type const &y) { return !(x == y); }
  };
  explicit listy_dist(param_type const &p) : p_(p) {}
  template <class G>
  T operator()(G &g)
  {
    std::uniform_int_distribution<T> d(p_.lo, p_.hi);
    T const x = d(g);
    if (!p_.from_list)
      return x;
    return (x - p_.lo) * 2 < (p_.hi - p_.lo) ? p_.lo : p_.hi; // only the listed values
  }
  void reset() {}
  T min() const { return p_.lo; }
  T max() const { return p_.hi; }
  T a() const { return p_.lo; }
  T b() const { return p_.hi; }
  param_type param() const { return p_; }
  void param(param_type const &p) { p_ = p; }
  friend bool operator==(listy_dist const &l, listy_dist const &r) { return l.p_ == r.p_; }
  friend bool operator!=(listy_dist const &l, listy_dist const &r) { return !(l == r); }

private:
  param_type p_;
};
struct listy_wrapper
{
  template <class T>
  struct apply
  {
    using type = listy_dist<T>;
  };
};
struct norepeat_wrapper
{
  template <class T>
  struct apply
  {
    using type = norepeat_dist<T>;
  };
};
struct probe_wrapper
{
  template <class T>
  struct apply
  {
    using type = probe_dist<T>;
  };
};

// ------------------------------------------------------------------ the judge for integer-like draws
constexpr unsigned ends_draws = 2000; // draws per case when the end points are judged
constexpr i128 ends_width = 17;       // widest interval for which the end points are judged

struct int_verdict
{
  long mism = -1;
  i128 got = 0, want = 0;
  long oob = -1;
  i128 oobv = 0;
  bool lo = false, hi = false, slo = false, shi = false;
  std::uint64_t h = 0xcbf29ce484222325ULL;
};
// fd: one draw from the fcppt object, sd: one draw from the std pair; both as exact integers
template <class FD, class SD>
int_verdict run_ints(i128 a, i128 b, unsigned n, FD &&fd, SD &&sd)
{
  int_verdict v;
  for (unsigned i = 0; i < n; ++i)
  {
    i128 const x = fd();
    i128 const y = sd();
    vf::operands(static_cast<long long>(i), static_cast<long long>(x), static_cast<long long>(y));
    if (x != y && v.mism < 0)
    {
      v.mism = static_cast<long>(i);
      v.got = x;
      v.want = y;
    }
    if ((x < a || x > b) && v.oob < 0)
    {
      v.oob = static_cast<long>(i);
      v.oobv = x;
    }
    v.lo = v.lo || x == a;
    v.hi = v.hi || x == b;
    v.slo = v.slo || y == a;
    v.shi = v.shi || y == b;
    if (i < 8)
      v.h = vf::hash_mix(v.h, static_cast<std::uint64_t>(x));
  }
  vf::add_evals(n);
  return v;
}
// key: "<family>/<instantiation>/<engine>"
void report_ints(std::string const &key, int_verdict const &v, i128 a, i128 b, unsigned n)
{
  static vf::counter c_draws("draws/integer-like"), c_bounds("bounds/draws-judged"), c_ends("ends/cases-judged"),
      c_wide("ends/not-judged-wide-interval"), c_short("ends/not-judged-few-draws"), c_single("ends/single-value-interval");
  c_draws += n;
  c_bounds += n;
  std::string const iv = "[" + s128(a) + "," + s128(b) + "]";
  if (v.mism >= 0)
    vf::violation(key + "/sequence", "mismatch",
                  "draw #" + std::to_string(v.mism) + " over " + iv + " got=" + s128(v.got) + " std=" + s128(v.want));
  if (v.oob >= 0)
    vf::violation(key + "/out-of-bounds", "mismatch",
                  "draw #" + std::to_string(v.oob) + " = " + s128(v.oobv) + " outside " + iv);
  if (b - a + 1 > ends_width)
    ++c_wide;
  else if (n < ends_draws)
    ++c_short;
  else
  {
    ++c_ends;
    if (a == b)
      ++c_single;
    if (!v.lo || !v.hi)
      vf::violation(key + "/end-not-reached", "mismatch",
                    std::string(!v.lo ? "lower" : "upper") + " end of " + iv + " never drawn in " + std::to_string(n) +
                        " draws (std side reached: lower=" + (v.slo ? "yes" : "no") + " upper=" + (v.shi ? "yes" : "no") + ")");
  }
}

template <class E>
void check_generator_state(typename E::f &g1, typename E::s &g2, std::string const &key)
{
  // the variate / distribution must have advanced the caller's generator, not a copy of it
  for (int i = 0; i < 2; ++i)
  {
    auto const x = g1();
    auto const y = g2();
    if (x != y)
    {
      vf::violation(key + "/generator-state-after-draws", "mismatch",
                    "raw draw #" + std::to_string(i) + " after the judged draws got=" + std::to_string(x) +
                        " std=" + std::to_string(y));
      break;
    }
  }
  VF_COUNT("generator/state-after-draws-compared");
}

char const *const ctor_names[] = {"variate(gen,dist(min,max))", "variate(gen,param)", "make_variate(gen,make_basic(param))",
                                  "dist(param)(gen)"};

// One uniform_int case: interval [a,b] of RT's base type, one engine seed, n draws.
// a documented type identity, judged at run time (a tree that breaks it must yield a violation, not a harness that does
// not build); reported once per key
inline void type_claim(bool holds, std::string const &key, char const *what)
{
  static std::set<std::string> seen;
  if (!holds && seen.insert(key).second)
    vf::violation(key + "/type-identity", "mismatch", what);
}
// d.distribution() == sd when the wrapped distribution has the documented type; a different type is reported by
// type_claim at run time (comparing the two would not even compile, and the harness has to build on a broken tree)
template <class A, class B>
bool same_distribution(A const &a, B const &b)
{
  if constexpr (std::is_same_v<A, B>)
    return a == b;
  else
    return false;
}
template <class RT, class E>
void int_case(char const *family, i128 a, i128 b, std::uint64_t seed, unsigned n, unsigned ctor)
{
  using base = typename rw<RT>::base;
  using P = frp::uniform_int<RT>;
  using D = fr::distribution::basic<P>;
  using V = fr::variate<typename E::f, D>;
  using SD = std::uniform_int_distribution<base>;
  type_claim(std::is_same_v<typename D::wrapped_distribution, SD>, std::string("uniform_int<") + tn<RT>() + ">/wrapped-distribution", "documented wrapped distribution: std::uniform_int_distribution<base>");
  static_assert(std::is_same_v<typename D::result_type, RT>);
  static_assert(std::is_same_v<typename V::result_type, RT>);
  ctor %= 4;
  if (!vf::begin_case("T=%s eng=%s a=%s b=%s seed=%llu draws=%u via=%s", tn<RT>(), E::name, s128(a).c_str(), s128(b).c_str(),
                      static_cast<unsigned long long>(seed), n, ctor_names[ctor]))
    return;
  vf::sample_case(1);
  std::string const key = std::string(family) + "<" + tn<RT>() + ">/" + E::name;
  typename E::f g1{fseed<E>(seed)};
  typename E::s g2(sseed<E>(seed));
  SD sd(static_cast<base>(a), static_cast<base>(b));
  RT const wa = rw<RT>::wrap(static_cast<base>(a)), wb = rw<RT>::wrap(static_cast<base>(b));
  P const param{typename P::min(wa), typename P::max(wb)};
  auto const s_draw = [&]() -> i128 { return static_cast<i128>(sd(g2)); };
  auto const check_params = [&](D const &d) {
    // parameter translation: the wrapped distribution was given exactly [a,b]
    VF_COUNT("parameters/uniform_int-compared");
    if (static_cast<i128>(d.distribution().a()) != a || static_cast<i128>(d.distribution().b()) != b ||
        !same_distribution(d.distribution(), sd))
      vf::violation(key + "/parameters", "mismatch",
                    "wrapped distribution has [" + s128(d.distribution().a()) + "," + s128(d.distribution().b()) +
                        "], requested [" + s128(a) + "," + s128(b) + "]");
  };
  int_verdict v;
  switch (ctor)
  {
  case 0:
  {
    D d{typename P::min(wa), typename P::max(wb)};
    check_params(d);
    V var(fcppt::make_ref(g1), d);
    v = run_ints(a, b, n, [&]() -> i128 { return static_cast<i128>(rw<RT>::unwrap(var())); }, s_draw);
    VF_COUNT("variate/by-distribution");
    break;
  }
  case 1:
  {
    V var(fcppt::make_ref(g1), param);
    v = run_ints(a, b, n, [&]() -> i128 { return static_cast<i128>(rw<RT>::unwrap(var())); }, s_draw);
    VF_COUNT("variate/by-parameters");
    break;
  }
  case 2:
  {
    auto d = fr::distribution::make_basic(param);
    check_params(d);
    auto var = fr::make_variate(fcppt::make_ref(g1), d);
    static_assert(std::is_same_v<decltype(var), V>);
    v = run_ints(a, b, n, [&]() -> i128 { return static_cast<i128>(rw<RT>::unwrap(var())); }, s_draw);
    VF_COUNT("variate/make_variate");
    break;
  }
  default:
  {
    D d(param);
    check_params(d);
    v = run_ints(a, b, n, [&]() -> i128 { return static_cast<i128>(rw<RT>::unwrap(d(g1))); }, s_draw);
    VF_COUNT("distribution/direct");
    break;
  }
  }
  vf::count(std::string("result-type/") + rw<RT>::kind);
  vf::note_distinct(vf::hash_mix(vf::hash_mix(vf::hash_str(key), vf::hash_mix(static_cast<std::uint64_t>(a), static_cast<std::uint64_t>(b))),
                                 vf::hash_mix(seed, v.h)));
  report_ints(key, v, a, b, n);
  check_generator_state<E>(g1, g2, key);
}

template <class B>
constexpr i128 lo_of()
{
  return static_cast<i128>(std::numeric_limits<B>::min());
}
template <class B>
constexpr i128 hi_of()
{
  return static_cast<i128>(std::numeric_limits<B>::max());
}

// all intervals -8 <= a <= b <= 8 (signed) / 0 <= a <= b <= 16 (unsigned): 153 intervals
template <class RT, class E>
void int_grid()
{
  using base = typename rw<RT>::base;
  std::string const e = std::string("uniform_int<") + tn<RT>() + ">/" + E::name + "/grid";
  if (!vf::entry_enabled(e))
    return;
  vf::set_entry(e);
  i128 const off = std::is_signed_v<base> ? -8 : 0;
  unsigned const K = vf::tier(8U, 200U);
  std::uint64_t idx = 0, ivx = 0;
  for (i128 a = 0; a <= 16; ++a)
    for (i128 b = a; b <= 16; ++b, ++ivx)
      for (unsigned k = 0; k < K; ++k, ++idx)
      {
        if (!vf::mine(idx))
          continue;
        vf::rng g(vf::seed_for(e, idx));
        VF_COUNT("uniform_int/grid-cases");
        int_case<RT, E>("uniform_int", a + off, b + off, pick_seed(g, ivx, k), ends_draws, static_cast<unsigned>(idx));
      }
}

// intervals touching the limits of the type
template <class RT, class E>
void int_limits()
{
  using base = typename rw<RT>::base;
  std::string const e = std::string("uniform_int<") + tn<RT>() + ">/" + E::name + "/limits";
  if (!vf::entry_enabled(e))
    return;
  vf::set_entry(e);
  i128 const lo = lo_of<base>(), hi = hi_of<base>();
  std::vector<std::pair<i128, i128>> ivs{{lo, lo},     {lo, lo + 1}, {lo, lo + 7},  {lo, lo + 16}, {lo + 1, lo + 17}, {hi, hi},
                                         {hi - 1, hi}, {hi - 7, hi}, {hi - 16, hi}, {hi - 17, hi - 1}, {lo, hi},      {lo + 1, hi},
                                         {lo, hi - 1}, {lo, 0},      {0, hi},       {1, hi},       {lo, lo + 17},     {hi - 17, hi},
                                         {lo, hi / 2}, {hi / 2, hi}, {lo, lo + 255},  {hi - 256, hi}};
  if (std::is_signed_v<base>)
  {
    ivs.push_back({lo, -1});
    ivs.push_back({-1, hi});
    ivs.push_back({lo / 2, hi / 2});
  }
  unsigned const K = vf::tier(6U, 100U);
  std::uint64_t idx = 0;
  for (std::size_t i = 0; i < ivs.size(); ++i)
    for (unsigned k = 0; k < K; ++k, ++idx)
    {
      if (!vf::mine(idx))
        continue;
      vf::rng g(vf::seed_for(e, idx));
      VF_COUNT("uniform_int/limit-cases");
      bool const narrow = ivs[i].second - ivs[i].first + 1 <= ends_width;
      int_case<RT, E>("uniform_int", ivs[i].first, ivs[i].second, pick_seed(g, i + 3, k), narrow ? ends_draws : 256U,
                      static_cast<unsigned>(idx));
    }
}

// the large sample of seeds: random seed, random interval of any magnitude, 48 draws
template <class RT, class E>
void int_seeds()
{
  using base = typename rw<RT>::base;
  std::string const e = std::string("uniform_int<") + tn<RT>() + ">/" + E::name + "/seeds";
  if (!vf::entry_enabled(e))
    return;
  vf::set_entry(e);
  std::uint64_t const S = vf::tier<std::uint64_t>(3000, 25000);
  i128 const lo = lo_of<base>(), hi = hi_of<base>();
  for (std::uint64_t idx = 0; idx < S; ++idx)
  {
    if (!vf::mine(idx))
      continue;
    vf::rng g(vf::seed_for(e, idx));
    auto const value = [&]() -> i128 {
      // mixed magnitudes, both signs
      std::uint64_t x = g.next() >> g.below(64);
      i128 v = g.chance(1, 2) && std::is_signed_v<base> ? -static_cast<i128>(x) : static_cast<i128>(x);
      if (v < lo)
        v = lo + (-v % 1000);
      if (v > hi)
        v = hi - (v % 1000);
      return v;
    };
    i128 a = value(), b = g.chance(1, 3) ? a + static_cast<i128>(g.below(40)) : value();
    if (b > hi)
      b = hi;
    if (a > b)
      std::swap(a, b); // the interval is [min,max] by definition of the parameters
    VF_COUNT("uniform_int/seed-sample-cases");
    int_case<RT, E>("uniform_int", a, b, idx < n_special ? special_seeds[idx] : random_seed(g), 48U, static_cast<unsigned>(g.below(4)));
  }
}

// ------------------------------------------------------------------ enums
template <class En, class E, class P>
void enum_run(std::string const &key, P const &param, i128 a, i128 b, std::uint64_t seed, char const *how)
{
  using base = std::underlying_type_t<En>;
  using D = fr::distribution::basic<P>;
  if (!vf::begin_case("enum=%s eng=%s a=%s b=%s seed=%llu draws=%u via=%s", tn<En>(), E::name, s128(a).c_str(), s128(b).c_str(),
                      static_cast<unsigned long long>(seed), ends_draws, how))
    return;
  vf::sample_case(1);
  static_assert(std::is_same_v<typename D::result_type, En>);
  typename E::f g1{fseed<E>(seed)};
  typename E::s g2(sseed<E>(seed));
  std::uniform_int_distribution<base> sd(static_cast<base>(a), static_cast<base>(b));
  D d(param);
  VF_COUNT("parameters/enum-compared");
  if (static_cast<i128>(d.distribution().a()) != a || static_cast<i128>(d.distribution().b()) != b)
    vf::violation(key + "/parameters", "mismatch",
                  "wrapped distribution has [" + s128(d.distribution().a()) + "," + s128(d.distribution().b()) + "], expected [" +
                      s128(a) + "," + s128(b) + "]");
  fr::variate<typename E::f, D> var(fcppt::make_ref(g1), d);
  int_verdict v = run_ints(
      a, b, ends_draws, [&]() -> i128 { return static_cast<i128>(static_cast<base>(var())); },
      [&]() -> i128 { return static_cast<i128>(sd(g2)); });
  vf::count("result-type/enum");
  vf::note_distinct(vf::hash_mix(vf::hash_mix(vf::hash_str(key), vf::hash_mix(static_cast<std::uint64_t>(a), static_cast<std::uint64_t>(b))),
                                 vf::hash_mix(seed, v.h)));
  report_ints(key, v, a, b, ends_draws);
  check_generator_state<E>(g1, g2, key);
}

template <class En, int N, class E>
void enum_entry()
{
  using base = std::underlying_type_t<En>;
  type_claim(std::is_same_v<typename frp::uniform_int<En>::distribution, std::uniform_int_distribution<base>>, std::string("uniform_int<") + tn<En>() + ">/default-distribution", "default Distribution argument selects std::uniform_int_distribution<underlying type>");
  std::string const e = std::string("uniform_enum<") + tn<En>() + ">/" + E::name;
  if (!vf::entry_enabled(e))
    return;
  vf::set_entry(e);
  unsigned const K = vf::tier(10U, 150U);
  std::uint64_t idx = 0;
  std::string const sz = "enum/size-" + std::to_string(N);
  // the factories: the whole enum, 0 .. N-1 (N is the number written in this file)
  for (unsigned how = 0; how < 3; ++how)
    for (unsigned k = 0; k < K; ++k, ++idx)
    {
      if (!vf::mine(idx))
        continue;
      vf::rng g(vf::seed_for(e, idx));
      std::uint64_t const seed = pick_seed(g, N + how, k);
      vf::count(sz);
      switch (how)
      {
      case 0:
      {
        auto p = frp::make_uniform_enum<En>();
        static_assert(std::is_same_v<decltype(p), frp::uniform_int<En>>);
        enum_run<En, E>("make_uniform_enum<" + std::string(tn<En>()) + ">/" + E::name, p, 0, N - 1, seed, "make_uniform_enum");
        VF_COUNT("enum/make_uniform_enum");
        break;
      }
      case 1:
      {
        auto p = frp::make_uniform_enum_advanced<frp::uniform_int_wrapper, En>();
        enum_run<En, E>("make_uniform_enum_advanced<" + std::string(tn<En>()) + ">/" + E::name, p, 0, N - 1, seed,
                        "make_uniform_enum_advanced<uniform_int_wrapper>");
        VF_COUNT("enum/make_uniform_enum_advanced");
        break;
      }
      default:
      {
        auto p = frp::make_uniform_enum_advanced<probe_wrapper, En>();
        // judged at run time (not by static_assert: a tree that breaks this must yield a violation, not a harness
        // that does not build): the distribution wrapped for a user-supplied Distribution argument is the user's
        if (!std::is_same_v<typename decltype(p)::distribution, probe_dist<base>>)
          vf::violation("make_uniform_enum_advanced<" + std::string(tn<En>()) + ",user-distribution>/" + E::name + "/wrapped-distribution-type",
                        "mismatch", "parameters::distribution is not the distribution selected by the Distribution argument");
        std::uint64_t const c0 = probe_log::constructed, d0 = probe_log::draws;
        enum_run<En, E>("make_uniform_enum_advanced<" + std::string(tn<En>()) + ",user-distribution>/" + E::name, p, 0, N - 1, seed,
                        "make_uniform_enum_advanced<user distribution>");
        VF_COUNT("enum/make_uniform_enum_advanced-user-distribution");
        if (probe_log::constructed == c0)
          vf::violation("make_uniform_enum_advanced<" + std::string(tn<En>()) + ",user-distribution>/" + E::name + "/user-distribution-never-constructed",
                        "mismatch", "no object of the user-supplied distribution was constructed for these draws");
        if (probe_log::constructed != c0 && (probe_log::last_a != 0 || probe_log::last_b != N - 1))
          vf::violation("make_uniform_enum_advanced<" + std::string(tn<En>()) + ",user-distribution>/" + E::name + "/parameters",
                        "mismatch", "user distribution constructed with [" + s128(probe_log::last_a) + "," + s128(probe_log::last_b) + "]");
        if (probe_log::constructed != c0 && probe_log::draws - d0 != ends_draws)
          vf::observation("user distribution asked " + std::to_string(probe_log::draws - d0) + " times for " +
                          std::to_string(ends_draws) + " draws");
        break;
      }
      }
    }
  // explicit sub-intervals of the enum
  unsigned const K2 = vf::tier(3U, 30U);
  using P = frp::uniform_int<En>;
  for (int a = 0; a < N; ++a)
    for (int b = a; b < N; ++b)
      for (unsigned k = 0; k < K2; ++k, ++idx)
      {
        if (!vf::mine(idx))
          continue;
        vf::rng g(vf::seed_for(e, idx));
        P const p{typename P::min(static_cast<En>(a)), typename P::max(static_cast<En>(b))};
        VF_COUNT("enum/sub-interval");
        enum_run<En, E>("uniform_int<" + std::string(tn<En>()) + ">/" + E::name, p, a, b, random_seed(g), "uniform_int<enum>(min,max)");
      }
}

// ------------------------------------------------------------------ containers
template <class C>
struct cinfo;
template <>
struct cinfo<std::vector<int>>
{
  static constexpr char const *name = "vector<int>";
  static int elem(std::size_t i) { return 100 + static_cast<int>(i); }
};
template <>
struct cinfo<std::deque<long>>
{
  static constexpr char const *name = "deque<long>";
  static long elem(std::size_t i) { return 1000L + static_cast<long>(i); }
};
template <>
struct cinfo<std::string>
{
  static constexpr char const *name = "string";
  static char elem(std::size_t i) { return static_cast<char>('a' + static_cast<int>(i)); }
};
template <>
struct cinfo<std::vector<std::string>>
{
  static constexpr char const *name = "vector<string>";
  static std::string elem(std::size_t i) { return "element-" + std::to_string(i); }
};
template <class C>
C make_container(std::size_t n)
{
  C c;
  for (std::size_t i = 0; i < n; ++i)
    c.push_back(cinfo<C>::elem(i));
  return c;
}

// make_uniform_indices(_advanced)
template <class C, class E>
void indices_entry()
{
  using ST = typename C::size_type;
  std::string const e = std::string("make_uniform_indices<") + cinfo<C>::name + ">/" + E::name;
  if (!vf::entry_enabled(e))
    return;
  vf::set_entry(e);
  unsigned const K = vf::tier(10U, 150U);
  std::uint64_t idx = 0;
  for (std::size_t n = 0; n <= 6; ++n)
    for (unsigned how = 0; how < 3; ++how)
      for (unsigned k = 0; k < (n == 0 ? 1U : K); ++k, ++idx)
      {
        if (!vf::mine(idx))
          continue;
        vf::rng g(vf::seed_for(e, idx));
        std::uint64_t const seed = pick_seed(g, n + how, k);
        char const *const hows[] = {"make_uniform_indices", "make_uniform_indices_advanced<uniform_int_wrapper>",
                                    "make_uniform_indices_advanced<user distribution>"};
        if (!vf::begin_case("container=%s size=%zu eng=%s seed=%llu draws=%u via=%s", cinfo<C>::name, n, E::name,
                            static_cast<unsigned long long>(seed), ends_draws, hows[how]))
          continue;
        vf::sample_case(1);
        C const c = make_container<C>(n);
        std::string const key = std::string(how == 0 ? "make_uniform_indices<" : "make_uniform_indices_advanced<") + cinfo<C>::name +
                                (how == 2 ? ",user-distribution>" : ">");
        auto const run = [&](auto const &opt) {
          using P = std::remove_cvref_t<decltype(opt.get_unsafe())>;
          static_assert(std::is_same_v<typename P::result_type, ST>);
          vf::count("indices/size-" + std::to_string(n));
          if (n == 0)
          {
            VF_COUNT("indices/empty-container");
            vf::note_distinct(vf::hash_mix(vf::hash_str(key), 0));
            if (opt.has_value())
              vf::violation(key + "/empty-guard", "mismatch", "parameters returned for an empty container");
            return;
          }
          VF_COUNT("indices/non-empty-container");
          if (!opt.has_value())
          {
            vf::violation(key + "/spurious-nothing", "mismatch", "nothing returned for a container of size " + std::to_string(n));
            return;
          }
          typename E::f g1{fseed<E>(seed)};
          typename E::s g2(sseed<E>(seed));
          std::uniform_int_distribution<ST> sd(0, static_cast<ST>(n - 1));
          fr::distribution::basic<P> d(opt.get_unsafe());
          i128 const a = 0, b = static_cast<i128>(n) - 1;
          if (static_cast<i128>(d.distribution().a()) != a || static_cast<i128>(d.distribution().b()) != b)
            vf::violation(key + "/parameters", "mismatch",
                          "wrapped distribution has [" + s128(d.distribution().a()) + "," + s128(d.distribution().b()) +
                              "] for a container of size " + std::to_string(n));
          int_verdict v = run_ints(
              a, b, ends_draws, [&]() -> i128 { return static_cast<i128>(d(g1)); }, [&]() -> i128 { return static_cast<i128>(sd(g2)); });
          vf::note_distinct(vf::hash_mix(vf::hash_mix(vf::hash_str(key), n), vf::hash_mix(seed, v.h)));
          report_ints(key + "/" + E::name, v, a, b, ends_draws);
          check_generator_state<E>(g1, g2, key + "/" + E::name);
        };
        switch (how)
        {
        case 0: run(frp::make_uniform_indices(c)); break;
        case 1: run(frp::make_uniform_indices_advanced<frp::uniform_int_wrapper>(c)); break;
        default: run(frp::make_uniform_indices_advanced<probe_wrapper>(c)); break;
        }
      }
}

// uniform_container through its factories and its constructor.  CC is C or C const.
template <class CC, class E>
void container_entry()
{
  using C = std::remove_const_t<CC>;
  using ST = typename C::size_type;
  constexpr bool is_const = std::is_const_v<CC>;
  std::string const cname = std::string(cinfo<C>::name) + (is_const ? " const" : "");
  std::string const e = "uniform_container<" + cname + ">/" + E::name;
  if (!vf::entry_enabled(e))
    return;
  vf::set_entry(e);
  unsigned const K = vf::tier(8U, 100U);
  std::uint64_t idx = 0;
  char const *const hows[] = {"make_uniform_container", "make_uniform_container_advanced<uniform_int_wrapper>",
                              "make_uniform_container_advanced<user distribution>", "uniform_container(ref,param)",
                              "make_uniform_container_advanced<stateful user distribution>",
                              "make_uniform_container_advanced<user distribution with a list-constructible param_type>"};
  for (std::size_t n = 0; n <= 6; ++n)
    for (unsigned how = 0; how < 6; ++how)
    {
      // how == 3: every sub-interval of indices [ia,ib] of the container through the constructor
      std::size_t const subs = how == 3 ? n * (n + 1) / 2 : 1;
      for (std::size_t sub = 0; sub < subs; ++sub)
        for (unsigned k = 0; k < (n == 0 ? 1U : (how == 3 ? vf::tier(2U, 20U) : K)); ++k, ++idx)
        {
          if (!vf::mine(idx))
            continue;
          vf::rng g(vf::seed_for(e, idx));
          std::uint64_t const seed = how == 3 ? random_seed(g) : pick_seed(g, n + how, k);
          std::size_t ia = 0, ib = n == 0 ? 0 : n - 1;
          if (how == 3)
          {
            std::size_t s = sub;
            ia = 0;
            while (s >= n - ia)
            {
              s -= n - ia;
              ++ia;
            }
            ib = ia + s;
          }
          if (!vf::begin_case("container=%s size=%zu indices=[%zu,%zu] eng=%s seed=%llu draws=%u via=%s", cname.c_str(), n, ia, ib,
                              E::name, static_cast<unsigned long long>(seed), ends_draws, hows[how]))
            continue;
          vf::sample_case(1);
          C store = make_container<C>(n);
          CC &c = store;
          std::string const key = std::string(how == 0   ? "make_uniform_container<"
                                              : how == 3 ? "uniform_container<"
                                                         : "make_uniform_container_advanced<") +
                                  cname + (how == 2 ? ",user-distribution>" : how == 4 ? ",stateful-user-distribution>" : how == 5 ? ",list-constructible-param>" : ">");
          // draws from w (an fcppt::random::wrapper::uniform_container) are judged against indices [ia,ib]
          // sd: the wrapped distribution itself, drawn from with the std engine (the reference sequence)
          auto const draw_all = [&](auto &w, auto sd) {
            using W = std::remove_cvref_t<decltype(w)>;
            static_assert(std::is_same_v<typename W::result_type, std::conditional_t<is_const, typename C::const_reference, typename C::reference>>);
            typename E::f g1{fseed<E>(seed)};
            typename E::s g2(sseed<E>(seed));
            long non_element = -1;
            int_verdict v = run_ints(
                static_cast<i128>(ia), static_cast<i128>(ib), ends_draws,
                [&]() -> i128 {
                  auto &r = w(g1);
                  // identity, not value: the result must be one of the container's own elements
                  for (std::size_t j = 0; j < n; ++j)
                    if (&c[j] == &r)
                    {
                      if (!(c[j] == cinfo<C>::elem(j)))
                        non_element = static_cast<long>(j);
                      return static_cast<i128>(j);
                    }
                  non_element = 1000;
                  return -1;
                },
                [&]() -> i128 { return static_cast<i128>(sd(g2)); });
            // the same wrapper behind a variate: what the variate yields is still a reference to an element of the
            // container (identity), not to a copy
            {
              typename E::f g3{fseed<E>(seed)};
              fr::variate<typename E::f, W> var{fcppt::make_ref(g3), w};
              for (unsigned k = 0; k < 8 && non_element < 0; ++k)
              {
                auto &r = var();
                bool found = false;
                for (std::size_t j = 0; j < n; ++j)
                  found = found || &c[j] == &r;
                if (!found)
                  vf::violation(key + "/variate/non-element", "mismatch", "a reference yielded by variate<generator, uniform_container> does not refer to an element of the container");
              }
              VF_COUNT("container/drawn-through-variate");
            }
            VF_COUNT("container/non-empty-drawn");
            vf::count("container/size-" + std::to_string(n));
            vf::note_distinct(vf::hash_mix(vf::hash_mix(vf::hash_str(key), n * 64 + ia * 8 + ib), vf::hash_mix(seed, v.h)));
            if (non_element >= 0)
              vf::violation(key + "/non-element", "mismatch", "a drawn reference does not refer to an element of the container");
            report_ints(key + "/" + E::name, v, static_cast<i128>(ia), static_cast<i128>(ib), ends_draws);
            check_generator_state<E>(g1, g2, key + "/" + E::name);
            // the wrapper refers to the CONTAINER: after the container has grown (its storage moved), a draw still
            // yields one of the container's present elements (the index interval is the one it was built with)
            if constexpr (!is_const)
            {
              for (std::size_t extra = 0; extra < 64; ++extra)
                store.push_back(cinfo<C>::elem(n + extra));
              bool ok = true;
              for (unsigned k = 0; k < 16 && ok; ++k)
              {
                auto &r = w(g1);
                bool found = false;
                for (std::size_t j = ia; j <= ib; ++j)
                  found = found || (&store[j] == &r && store[j] == cinfo<C>::elem(j));
                ok = found;
              }
              if (!ok)
                vf::violation(key + "/element-after-the-container-grew", "mismatch", "a draw after 64 push_backs is not an element of the container at an index of the interval");
              VF_COUNT("container/drawn-after-growth");
              store.resize(n);
            }
          };
          std::uniform_int_distribution<ST> const plain_sd(static_cast<ST>(ia), static_cast<ST>(ib));
          auto const run_opt = [&](auto opt, auto sd) {
            if (n == 0)
            {
              VF_COUNT("container/empty-container");
              vf::note_distinct(vf::hash_mix(vf::hash_str(key), 0));
              if (opt.has_value())
                vf::violation(key + "/empty-guard", "mismatch", "a distribution was returned for an empty container");
              return;
            }
            if (!opt.has_value())
            {
              vf::violation(key + "/spurious-nothing", "mismatch", "nothing returned for a container of size " + std::to_string(n));
              return;
            }
            draw_all(opt.get_unsafe(), sd);
          };
          auto const ref = [&]() {
            if constexpr (is_const)
              return fcppt::make_cref(c);
            else
              return fcppt::make_ref(c);
          }();
          static_assert(std::is_same_v<std::remove_cvref_t<decltype(ref)>, fcppt::reference<CC>>);
          switch (how)
          {
          case 0: run_opt(fr::wrapper::make_uniform_container(ref), plain_sd); break;
          case 1: run_opt(fr::wrapper::make_uniform_container_advanced<frp::uniform_int_wrapper>(ref), plain_sd); break;
          case 2: run_opt(fr::wrapper::make_uniform_container_advanced<probe_wrapper>(ref), plain_sd); break;
          case 4:
            VF_COUNT("container/stateful-user-distribution");
            run_opt(fr::wrapper::make_uniform_container_advanced<norepeat_wrapper>(ref),
                    norepeat_dist<ST>(typename norepeat_dist<ST>::param_type(static_cast<ST>(ia), static_cast<ST>(ib))));
            break;
          case 5:
            VF_COUNT("container/list-constructible-param");
            run_opt(fr::wrapper::make_uniform_container_advanced<listy_wrapper>(ref),
                    listy_dist<ST>(typename listy_dist<ST>::param_type(static_cast<ST>(ia), static_cast<ST>(ib))));
            break;
          default:
          {
            using W = fr::wrapper::uniform_container<CC>;
            using P = typename W::param_type;
            W w(ref, P{typename P::min(static_cast<ST>(ia)), typename P::max(static_cast<ST>(ib))});
            VF_COUNT("container/constructor-sub-interval");
            draw_all(w, plain_sd);
            break;
          }
          }
        }
    }
}

// ------------------------------------------------------------------ floating point distributions
template <class F>
bool same_fp(F x, F y)
{
  if (std::isnan(x) || std::isnan(y))
    return std::isnan(x) && std::isnan(y);
  return x == y && std::signbit(x) == std::signbit(y);
}
template <class F>
std::string fp_str(F v)
{
  std::ostringstream o;
  o.precision(std::numeric_limits<F>::max_digits10);
  o << v;
  return o.str();
}

template <class F>
std::vector<std::pair<F, F>> real_params(vf::rng &g, std::size_t nrandom)
{
  F const mx = std::numeric_limits<F>::max();
  std::vector<std::pair<F, F>> r{{F(0), F(1)},           {F(-1), F(1)},         {F(0), F(10)},           {F(-8), F(8)},
                                 {F(-8), F(-7.5)},       {F(0.001), F(0.002)},  {F(0), mx / 4},          {-mx / 4, mx / 4},
                                 {std::numeric_limits<F>::denorm_min(), F(1)},  {F(-0.0), F(0.5)},       {F(1e10), F(1e10) + F(4096)},
                                 {F(1), std::nextafter(F(1), F(2))},            {F(-3), F(0)},           {F(16777216), F(16777218)}};
  for (int a = -8; a <= 8; a += 4)
    for (int b = a + 1; b <= 8; b += 3)
      r.push_back({F(a), F(b)});
  for (std::size_t i = 0; i < nrandom; ++i)
  {
    F a = static_cast<F>(static_cast<double>(g.range(-1000000, 1000000)) / 1000.0);
    F w = static_cast<F>(static_cast<double>(g.range(1, 1000000)) / (g.chance(1, 2) ? 1000.0 : 1.0));
    r.push_back({a, a + w});
  }
  return r;
}
template <class F>
std::vector<std::pair<F, F>> normal_params(vf::rng &g, std::size_t nrandom)
{
  std::vector<std::pair<F, F>> r;
  for (F m : {F(0), F(-3.5), F(1e6), F(-0.001), F(42)})
    for (F s : {F(1), F(5), F(0.001), F(1000)})
      r.push_back({m, s});
  for (std::size_t i = 0; i < nrandom; ++i)
    r.push_back({static_cast<F>(static_cast<double>(g.range(-1000000, 1000000)) / 100.0),
                 static_cast<F>(static_cast<double>(g.range(1, 1000000)) / 1000.0)});
  return r;
}

// RT: float, double, long double or a strong typedef of one; Normal selects the distribution
template <class RT, class E, bool Normal>
void fp_entry()
{
  using F = typename rw<RT>::base;
  using P = std::conditional_t<Normal, frp::normal<RT>, frp::uniform_real<RT>>;
  using D = fr::distribution::basic<P>;
  using SD = std::conditional_t<Normal, std::normal_distribution<F>, std::uniform_real_distribution<F>>;
  type_claim(std::is_same_v<typename D::wrapped_distribution, SD>, std::string(Normal ? "normal<" : "uniform_real<") + tn<RT>() + ">/wrapped-distribution", "documented wrapped distribution");
  static_assert(std::is_same_v<typename D::result_type, RT>);
  std::string const fam = Normal ? "normal" : "uniform_real";
  std::string const e = fam + "<" + tn<RT>() + ">/" + E::name;
  if (!vf::entry_enabled(e))
    return;
  vf::set_entry(e);
  std::string const key = e;
  vf::rng gp(vf::hash_mix(vf::opts().seed, vf::hash_str(e))); // parameter list: same in every partition
  auto const params = Normal ? normal_params<F>(gp, vf::tier<std::size_t>(100, 2000)) : real_params<F>(gp, vf::tier<std::size_t>(100, 2000));
  unsigned const K = vf::tier(6U, 40U);
  unsigned const n = 64;
  std::uint64_t idx = 0;
  for (std::size_t pi = 0; pi < params.size(); ++pi)
    for (unsigned k = 0; k < K; ++k, ++idx)
    {
      if (!vf::mine(idx))
        continue;
      vf::rng g(vf::seed_for(e, idx));
      std::uint64_t const seed = pick_seed(g, pi, k);
      F const p1 = params[pi].first, p2 = params[pi].second;
      unsigned const ctor = static_cast<unsigned>(idx % 4);
      if (!vf::begin_case("T=%s eng=%s %s=%s %s=%s seed=%llu draws=%u via=%s", tn<RT>(), E::name, Normal ? "mean" : "min",
                          fp_str(p1).c_str(), Normal ? "stddev" : "sup", fp_str(p2).c_str(), static_cast<unsigned long long>(seed), n,
                          ctor_names[ctor]))
        continue;
      vf::sample_case(1);
      typename E::f g1{fseed<E>(seed)};
      typename E::s g2(sseed<E>(seed));
      SD sd(p1, p2);
      auto const make_param = [&]() {
        if constexpr (Normal)
          return P{typename P::mean(rw<RT>::wrap(p1)), typename P::stddev(rw<RT>::wrap(p2))};
        else
          return P{typename P::min(rw<RT>::wrap(p1)), typename P::sup(rw<RT>::wrap(p2))};
      };
      P const param = make_param();
      auto const check_params = [&](D const &d) {
        bool ok;
        if constexpr (Normal)
          ok = same_fp(d.distribution().mean(), p1) && same_fp(d.distribution().stddev(), p2);
        else
          ok = same_fp(d.distribution().a(), p1) && same_fp(d.distribution().b(), p2);
        VF_COUNT("parameters/floating-point-compared");
        if (!ok || !same_distribution(d.distribution(), sd))
          vf::violation(key + "/parameters", "mismatch", "the wrapped distribution does not carry the requested parameters");
      };
      long mism = -1;
      F got = 0, want = 0;
      std::uint64_t h = 0;
      unsigned at_sup = 0;
      auto const compare = [&](auto &&fd) {
        for (unsigned i = 0; i < n; ++i)
        {
          vf::operands(i);
          F const x = rw<RT>::unwrap(fd());
          F const y = sd(g2);
          if (!same_fp(x, y) && mism < 0)
          {
            mism = static_cast<long>(i);
            got = x;
            want = y;
          }
          if (!Normal && !(x < p2))
            ++at_sup;
          if (i < 4)
            h = vf::hash_mix(h, vf::hash_bytes(&y, sizeof(double) < sizeof y ? sizeof(double) : sizeof y));
        }
        vf::add_evals(n);
      };
      switch (ctor)
      {
      case 0:
      {
        D d = [&]() {
          if constexpr (Normal)
            return D(typename P::mean(rw<RT>::wrap(p1)), typename P::stddev(rw<RT>::wrap(p2)));
          else
            return D(typename P::min(rw<RT>::wrap(p1)), typename P::sup(rw<RT>::wrap(p2)));
        }();
        check_params(d);
        fr::variate<typename E::f, D> var(fcppt::make_ref(g1), d);
        compare([&] { return var(); });
        VF_COUNT("variate/by-distribution");
        break;
      }
      case 1:
      {
        fr::variate<typename E::f, D> var(fcppt::make_ref(g1), param);
        compare([&] { return var(); });
        VF_COUNT("variate/by-parameters");
        break;
      }
      case 2:
      {
        auto d = fr::distribution::make_basic(param);
        check_params(d);
        auto var = fr::make_variate(fcppt::make_ref(g1), d);
        compare([&] { return var(); });
        VF_COUNT("variate/make_variate");
        break;
      }
      default:
      {
        D d(param);
        check_params(d);
        compare([&] { return d(g1); });
        VF_COUNT("distribution/direct");
        break;
      }
      }
      vf::count(std::string("result-type/") + rw<RT>::kind);
      vf::count(Normal ? "draws/normal" : "draws/uniform_real", n);
      if (at_sup)
        vf::count("observed/uniform_real-draws-equal-to-sup", at_sup);
      vf::note_distinct(vf::hash_mix(vf::hash_mix(vf::hash_str(key), vf::hash_mix(vf::hash_bytes(&p1, sizeof(float)), idx)), vf::hash_mix(seed, h)));
      if (mism >= 0)
        vf::violation(key + "/sequence", "mismatch", "draw #" + std::to_string(mism) + " got=" + fp_str(got) + " std=" + fp_str(want));
      check_generator_state<E>(g1, g2, key);
    }
}

// ------------------------------------------------------------------ the generators themselves
template <class E>
void generator_entry()
{
  std::string const e = std::string("generator<") + E::name + ">";
  if (!vf::entry_enabled(e))
    return;
  vf::set_entry(e);
  static_assert(std::is_same_v<typename E::f::result_type, typename E::s::result_type>);
  std::uint64_t const S = vf::tier<std::uint64_t>(4000, 200000);
  unsigned const n = 40;
  for (std::uint64_t idx = 0; idx < S; ++idx)
  {
    if (!vf::mine(idx))
      continue;
    vf::rng g(vf::seed_for(e, idx));
    std::uint64_t const seed = idx < n_special ? special_seeds[idx] : random_seed(g);
    bool const by_seq = idx % 5 == 4;
    if (!vf::begin_case("eng=%s seed=%llu draws=%u ctor=%s", E::name, static_cast<unsigned long long>(seed), n,
                        by_seq ? "seed_seq{seed,seed>>32,7}" : "seed"))
      continue;
    vf::sample_case(1);
    std::string const key = e;
    long mism = -1;
    std::uint64_t h = 0;
    auto const compare = [&](typename E::f &g1, typename E::s &g2) {
      for (unsigned i = 0; i < n; ++i)
      {
        auto const x = g1();
        auto const y = g2();
        vf::operands(i, static_cast<long long>(x), static_cast<long long>(y));
        if (x != y && mism < 0)
          mism = static_cast<long>(i);
        if (i < 4)
          h = vf::hash_mix(h, y);
      }
      vf::add_evals(n);
    };
    if (by_seq)
    {
      std::seed_seq q1{static_cast<std::uint32_t>(seed), static_cast<std::uint32_t>(seed >> 32), std::uint32_t{7}};
      std::seed_seq q2{static_cast<std::uint32_t>(seed), static_cast<std::uint32_t>(seed >> 32), std::uint32_t{7}};
      typename E::f g1{q1};
      typename E::s g2(q2);
      compare(g1, g2);
      VF_COUNT("generator/seed-sequence-constructed");
    }
    else
    {
      typename E::f g1{fseed<E>(seed)};
      typename E::s g2(sseed<E>(seed));
      compare(g1, g2);
      VF_COUNT("generator/seed-constructed");
    }
    vf::count("draws/raw-generator", n);
    vf::note_distinct(vf::hash_mix(vf::hash_mix(vf::hash_str(key), by_seq), vf::hash_mix(seed, h)));
    if (mism >= 0)
      vf::violation(key + "/sequence", "mismatch", "raw draw #" + std::to_string(mism) + " differs from the std engine");
    if (E::f::min() != E::s::min() || E::f::max() != E::s::max())
      vf::violation(key + "/min-max", "mismatch", "min()/max() differ from the wrapped engine");
  }
}

// ------------------------------------------------------------------ histories: several variates on one generator
// Every drawn value is reduced to 64 bits for the comparison.
template <class T>
std::uint64_t bits(T v)
{
  if constexpr (std::is_same_v<T, double>)
    return std::bit_cast<std::uint64_t>(v);
  else if constexpr (std::is_same_v<T, float>)
    return std::bit_cast<std::uint32_t>(v);
  else
    return static_cast<std::uint64_t>(v);
}
struct slot
{
  std::function<std::uint64_t()> f, s;
  std::function<slot()> clone;
  char const *kind;
};
template <class V, class SD, class SE>
slot make_slot(std::shared_ptr<V> v, std::shared_ptr<SD> sd, SE *se, char const *kind)
{
  slot r;
  r.kind = kind;
  r.f = [v] { return bits(rw<typename V::result_type>::unwrap((*v)())); };
  r.s = [sd, se] { return bits((*sd)(*se)); };
  // a copy of a variate is a variate on the same generator with a copy of the distribution's state
  r.clone = [v, sd, se, kind] { return make_slot(std::make_shared<V>(*v), std::make_shared<SD>(*sd), se, kind); };
  return r;
}

template <class E>
void history_entry()
{
  std::string const e = std::string("history/shared-generator/") + E::name;
  if (!vf::entry_enabled(e))
    return;
  vf::set_entry(e);
  std::uint64_t const H = vf::tier<std::uint64_t>(2000, 40000);
  using G = typename E::f;
  for (std::uint64_t idx = 0; idx < H; ++idx)
  {
    if (!vf::mine(idx))
      continue;
    std::uint64_t const hseed = vf::seed_for(e, idx);
    vf::rng g(hseed);
    std::uint64_t const seed = idx < n_special ? special_seeds[idx] : random_seed(g);
    if (!vf::begin_case("eng=%s seed=%llu history-seed=%llu:", E::name, static_cast<unsigned long long>(seed),
                        static_cast<unsigned long long>(hseed)))
      continue;
    vf::sample_case(1);
    G g1{fseed<E>(seed)};
    typename E::s g2(sseed<E>(seed));
    std::vector<slot> slots;
    unsigned const steps = 20 + static_cast<unsigned>(g.below(80));
    std::uint64_t h = vf::hash_mix(vf::hash_str(e), seed);
    bool bad = false;
    unsigned draws = 0, copies = 0, kinds_made = 0;
    std::string const key = e;
    for (unsigned st = 0; st < steps && !bad; ++st)
    {
      unsigned op = static_cast<unsigned>(g.below(slots.empty() ? 5 : 16));
      if (slots.size() >= 6 && op < 5)
        op = 8;
      h = vf::hash_mix(h, op);
      if (op < 5)
      {
        ++kinds_made;
        switch (op)
        {
        case 0:
        {
          using D = fr::distribution::basic<frp::uniform_int<int>>;
          int const a = static_cast<int>(g.range(-8, 8)), b = static_cast<int>(g.range(a, 8));
          vf::extend_case(" new-int[%d,%d]", a, b);
          auto v = std::make_shared<fr::variate<G, D>>(fcppt::make_ref(g1), D(D::param_type::min(a), D::param_type::max(b)));
          slots.push_back(make_slot(v, std::make_shared<std::uniform_int_distribution<int>>(a, b), &g2, "int"));
          break;
        }
        case 1:
        {
          using P = frp::uniform_int<st_st_long>;
          using D = fr::distribution::basic<P>;
          long const a = static_cast<long>(g.range(-1000000, 1000000)), b = a + static_cast<long>(g.below(1000));
          vf::extend_case(" new-st_st_long[%ld,%ld]", a, b);
          auto v = std::make_shared<fr::variate<G, D>>(fcppt::make_ref(g1), P{P::min(rw<st_st_long>::wrap(a)), P::max(rw<st_st_long>::wrap(b))});
          slots.push_back(make_slot(v, std::make_shared<std::uniform_int_distribution<long>>(a, b), &g2, "st_st_long"));
          break;
        }
        case 2:
        {
          using P = frp::normal<double>;
          double const m = static_cast<double>(g.range(-100, 100)), s = static_cast<double>(g.range(1, 50)) / 4.0;
          vf::extend_case(" new-normal(%g,%g)", m, s);
          auto var = fr::make_variate(fcppt::make_ref(g1), fr::distribution::make_basic(P{P::mean(m), P::stddev(s)}));
          slots.push_back(make_slot(std::make_shared<decltype(var)>(var), std::make_shared<std::normal_distribution<double>>(m, s), &g2, "normal"));
          break;
        }
        case 3:
        {
          using P = frp::uniform_real<st_float>;
          using D = fr::distribution::basic<P>;
          float const a = static_cast<float>(g.range(-100, 100)), b = a + static_cast<float>(g.range(1, 50));
          vf::extend_case(" new-real[%g,%g)", static_cast<double>(a), static_cast<double>(b));
          auto v = std::make_shared<fr::variate<G, D>>(fcppt::make_ref(g1), D(P::min(st_float(a)), P::sup(st_float(b))));
          slots.push_back(make_slot(v, std::make_shared<std::uniform_real_distribution<float>>(a, b), &g2, "real"));
          break;
        }
        default:
        {
          using D = fr::distribution::basic<frp::uniform_int<e5>>;
          vf::extend_case(" new-enum5");
          auto v = std::make_shared<fr::variate<G, D>>(fcppt::make_ref(g1), D(frp::make_uniform_enum<e5>()));
          slots.push_back(make_slot(v, std::make_shared<std::uniform_int_distribution<long>>(0, 4), &g2, "enum"));
          break;
        }
        }
      }
      else if (op == 5)
      {
        vf::extend_case(" raw");
        auto const x = g1();
        auto const y = g2();
        ++draws;
        if (x != y)
        {
          bad = true;
          vf::violation(key + "/raw-generator-draw", "mismatch", "step " + std::to_string(st) + ": the generator is not where the std engine is");
        }
      }
      else if (op == 6)
      {
        std::size_t const i = g.below(slots.size());
        vf::extend_case(" copy%zu", i);
        slots.push_back(slots[i].clone());
        ++copies;
      }
      else if (op == 7)
      {
        std::size_t const i = g.below(slots.size());
        vf::extend_case(" drop%zu", i);
        slots.erase(slots.begin() + static_cast<std::ptrdiff_t>(i));
      }
      else
      {
        std::size_t const i = g.below(slots.size());
        unsigned const reps = 1 + static_cast<unsigned>(g.below(3));
        vf::extend_case(" draw%zu(%s)x%u", i, slots[i].kind, reps);
        for (unsigned r = 0; r < reps && !bad; ++r)
        {
          std::uint64_t const x = slots[i].f();
          std::uint64_t const y = slots[i].s();
          ++draws;
          h = vf::hash_mix(h, y);
          if (x != y)
          {
            bad = true;
            vf::violation(key + "/" + slots[i].kind + "/sequence", "mismatch",
                          "step " + std::to_string(st) + ": value differs from the std distribution sharing the std engine");
          }
        }
      }
    }
    vf::add_evals(draws);
    vf::count("history/draws", draws);
    vf::count("history/variate-copies", copies);
    vf::count("history/variates-created", kinds_made);
    vf::count_max("max/history-steps", steps);
    vf::note_distinct(h);
  }
}

// ------------------------------------------------------------------ the parameter setter
template <class E>
void setter_entry()
{
  std::string const e = std::string("param-setter/") + E::name;
  if (!vf::entry_enabled(e))
    return;
  vf::set_entry(e);
  std::uint64_t const S = vf::tier<std::uint64_t>(3000, 40000);
  for (std::uint64_t idx = 0; idx < S; ++idx)
  {
    if (!vf::mine(idx))
      continue;
    vf::rng g(vf::seed_for(e, idx));
    std::uint64_t const seed = idx < n_special ? special_seeds[idx] : random_seed(g);
    int const a = static_cast<int>(g.range(-8, 8)), b = static_cast<int>(g.range(a, 8));
    int const c = static_cast<int>(g.range(-8, 8)), d2 = static_cast<int>(g.range(c, 8));
    unsigned const before = static_cast<unsigned>(g.below(5));
    bool const use_normal = idx % 3 == 2;
    if (!vf::begin_case("eng=%s seed=%llu %s first=(%d,%d) draws=%u then param(%d,%d) draws=64", E::name,
                        static_cast<unsigned long long>(seed), use_normal ? "normal<double> (mean,stddev+1)" : "uniform_int<st_int>", a,
                        b, before, c, d2))
      continue;
    vf::sample_case(1);
    typename E::f g1{fseed<E>(seed)};
    typename E::s g2(sseed<E>(seed));
    std::string const key = e;
    vf::note_distinct(vf::hash_mix(vf::hash_mix(vf::hash_str(e), seed), vf::hash_mix(static_cast<std::uint64_t>(a * 1000 + b), static_cast<std::uint64_t>(c * 1000 + d2 + before * 100000 + use_normal))));
    if (use_normal)
    {
      using P = frp::normal<double>;
      fr::distribution::basic<P> d{P::mean(a), P::stddev(b - a + 1)};
      std::normal_distribution<double> sd(a, b - a + 1);
      bool ok = true;
      for (unsigned i = 0; i < before; ++i)
        ok = same_fp(d(g1), sd(g2)) && ok;
      d.param(P{P::mean(c), P::stddev(d2 - c + 1)});
      sd.param(std::normal_distribution<double>::param_type(c, d2 - c + 1));
      if (!same_fp(d.distribution().mean(), double(c)) || !same_fp(d.distribution().stddev(), double(d2 - c + 1)))
        vf::violation(key + "/normal<double>/parameters", "mismatch", "param(p) did not install the given parameters");
      for (unsigned i = 0; i < 64; ++i)
        ok = same_fp(d(g1), sd(g2)) && ok;
      vf::add_evals(before + 64);
      VF_COUNT("setter/normal");
      if (!ok)
        vf::violation(key + "/normal<double>/sequence", "mismatch", "sequence differs from the std distribution given the same param() calls");
    }
    else
    {
      using P = frp::uniform_int<st_int>;
      fr::distribution::basic<P> d{P::min(st_int(a)), P::max(st_int(b))};
      std::uniform_int_distribution<int> sd(a, b);
      if (d.min().get() != sd.min() || d.max().get() != sd.max())
        vf::violation(key + "/uniform_int<st_int>/min-max", "mismatch", "bounds reported after construction differ from the wrapped distribution's");
      bool ok = true;
      for (unsigned i = 0; i < before; ++i)
        ok = (d(g1).get() == sd(g2)) && ok;
      d.param(P{P::min(st_int(c)), P::max(st_int(d2))});
      sd.param(std::uniform_int_distribution<int>::param_type(c, d2));
      if (d.distribution().a() != c || d.distribution().b() != d2)
        vf::violation(key + "/uniform_int<st_int>/parameters", "mismatch", "param(p) did not install the given interval");
      // the bounds the wrapper reports are those of the wrapped distribution (re-wrapped), at every point of its history
      if (d.min().get() != sd.min() || d.max().get() != sd.max())
        vf::violation(key + "/uniform_int<st_int>/min-max-after-param", "mismatch",
                      "after param(" + std::to_string(c) + "," + std::to_string(d2) + ") the wrapper reports [" + std::to_string(d.min().get()) + "," + std::to_string(d.max().get()) +
                          "], the wrapped distribution [" + std::to_string(sd.min()) + "," + std::to_string(sd.max()) + "]");
      {
        fr::distribution::basic<P> const copy(d);
        if (copy.min().get() != sd.min() || copy.max().get() != sd.max())
          vf::violation(key + "/uniform_int<st_int>/min-max-of-a-copy-after-param", "mismatch", "");
      }
      bool inside = true;
      for (unsigned i = 0; i < 64; ++i)
      {
        int const x = d(g1).get();
        ok = (x == sd(g2)) && ok;
        inside = inside && x >= c && x <= d2;
      }
      vf::add_evals(before + 64);
      VF_COUNT("setter/uniform_int");
      if (!ok)
        vf::violation(key + "/uniform_int<st_int>/sequence", "mismatch", "sequence differs from the std distribution given the same param() calls");
      if (!inside)
        vf::violation(key + "/uniform_int<st_int>/out-of-bounds", "mismatch", "a value outside the interval installed with param(p)");
    }
  }
}

// ------------------------------------------------------------------ observed only (anchored, not named by the statement)
template <class E>
void observed_entry()
{
  std::string const e = std::string("observed/basic-members/") + E::name;
  if (!vf::entry_enabled(e) || !vf::mine(vf::hash_str(e)))
    return;
  vf::set_entry(e);
  if (!vf::begin_case("min()/max()/==/!=/<</reset() on uniform_int<st_int>, uniform_int<e5>, uniform_real<double>, normal<double>"))
    return;
  unsigned surprises = 0, calls = 0;
  for (int a = -8; a <= 8; ++a)
    for (int b = a; b <= 8; ++b)
    {
      using P = frp::uniform_int<st_int>;
      using D = fr::distribution::basic<P>;
      D d{P::min(st_int(a)), P::max(st_int(b))};
      D d2{P::min(st_int(a)), P::max(st_int(b))};
      D d3{P::min(st_int(a - 1)), P::max(st_int(b))};
      std::uniform_int_distribution<int> sd(a, b);
      calls += 6;
      surprises += d.min().get() != a;
      surprises += d.max().get() != b;
      surprises += !(d == d2);
      surprises += d != d2;
      surprises += d == d3;
      std::ostringstream o1, o2;
      o1 << d;
      o2 << sd;
      surprises += o1.str() != o2.str();
    }
  {
    using D = fr::distribution::basic<frp::uniform_int<e5>>;
    D d(frp::make_uniform_enum<e5>());
    calls += 2;
    surprises += d.min() != static_cast<e5>(0);
    surprises += d.max() != static_cast<e5>(4);
  }
  {
    using P = frp::uniform_real<double>;
    fr::distribution::basic<P> d{P::min(-1.5), P::sup(2.5)};
    calls += 2;
    surprises += d.min() != -1.5;
    surprises += d.max() != 2.5;
  }
  // reset(): normal_distribution keeps a spare value; reset on both sides after an odd number of draws
  for (std::uint64_t seed : {1ULL, 2ULL, 77ULL, 123456789ULL})
  {
    using P = frp::normal<double>;
    fr::distribution::basic<P> d{P::mean(1.0), P::stddev(2.0)};
    std::normal_distribution<double> sd(1.0, 2.0);
    typename E::f g1{fseed<E>(seed)};
    typename E::s g2(sseed<E>(seed));
    // a second, untouched pair with the same parameters: == and != of the wrappers give the verdict of the wrapped
    // distributions (std::normal_distribution compares its saved second value too) - transparency of basic_impl.hpp
    fr::distribution::basic<P> const fresh{P::mean(1.0), P::stddev(2.0)};
    std::normal_distribution<double> const sfresh(1.0, 2.0);
    for (int round = 0; round < 4; ++round)
    {
      for (int i = 0; i < 3; ++i)
      {
        ++calls;
        if ((d == fresh) != (sd == sfresh) || (d != fresh) != (sd != sfresh))
          vf::violation(std::string("distribution::basic::operator==/normal<double>/") + E::name + "/verdict-differs-from-wrapped", "mismatch",
                        "seed " + std::to_string(seed) + " round " + std::to_string(round) + " after " + std::to_string(i) + " draws: == / != of the wrappers differ from == / != of the wrapped distributions");
        VF_COUNT("judged/equality-of-distributions-with-state");
        // judged: the same member calls on both sides (draws and reset()) must keep the sequences identical
        if (!same_fp(d(g1), sd(g2)))
          vf::violation(std::string("distribution::basic::reset/normal<double>/") + E::name + "/sequence-after-reset", "mismatch",
                        "seed " + std::to_string(seed) + " round " + std::to_string(round) + " draw " + std::to_string(i) +
                            ": the draw differs from std::normal_distribution after the same draws and reset() calls");
      }
      VF_COUNT("judged/reset-after-odd-number-of-draws");
      d.reset();
      sd.reset();
    }
  }
  vf::add_evals(calls);
  vf::count("observed/basic-member-calls", calls);
  vf::count("observed/basic-member-surprises", surprises);
  if (surprises)
    vf::observation(std::to_string(surprises) + " of " + std::to_string(calls) +
                    " observed calls of basic::min/max/==/!=/<</reset disagree with the wrapped std distribution (observed only; not judged by C20)");
}

#ifndef VF_SLICE
#define VF_SLICE -2
#endif
#define VF_IN_SLICE(i) (VF_SLICE == (i) || VF_SLICE == -2)

template <class RT>
void int_all()
{
  int_grid<RT, eng_minstd>();
  int_grid<RT, eng_mt>();
  int_limits<RT, eng_minstd>();
  int_limits<RT, eng_mt>();
  int_seeds<RT, eng_minstd>();
  int_seeds<RT, eng_mt>();
}
template <class En, int N>
void enum_both()
{
  enum_entry<En, N, eng_minstd>();
  enum_entry<En, N, eng_mt>();
}
template <class C>
void container_all()
{
  indices_entry<C, eng_minstd>();
  indices_entry<C, eng_mt>();
  container_entry<C, eng_minstd>();
  container_entry<C, eng_mt>();
  container_entry<C const, eng_minstd>();
  container_entry<C const, eng_mt>();
}
template <class RT>
void fp_all()
{
  fp_entry<RT, eng_minstd, false>();
  fp_entry<RT, eng_mt, false>();
  fp_entry<RT, eng_minstd, true>();
  fp_entry<RT, eng_mt, true>();
}
}

#if VF_IN_SLICE(0)
void vf_slice_0()
{
  int_all<short>();
  int_all<int>();
  int_all<long>();
  int_all<long long>();
}
#endif
#if VF_IN_SLICE(1)
void vf_slice_1()
{
  int_all<unsigned>();
  int_all<unsigned long>();
  int_all<st_int>();
  int_all<st_uint>();
  int_all<st_st_long>();
  int_all<st_e5>();
}
#endif
#if VF_IN_SLICE(2)
void vf_slice_2()
{
  enum_both<e1, 1>();
  enum_both<e2, 2>();
  enum_both<e3, 3>();
  enum_both<e3d, 3>();
  enum_both<e4, 4>();
  enum_both<e5, 5>();
  enum_both<e6, 6>();
  enum_both<e7, 7>();
  enum_both<e8, 8>();
  enum_both<e9, 9>();
}
#endif
#if VF_IN_SLICE(3)
void vf_slice_3()
{
  container_all<std::vector<int>>();
  container_all<std::deque<long>>();
  container_all<std::string>();
  container_all<std::vector<std::string>>();
}
#endif
#if VF_IN_SLICE(4)
void vf_slice_4()
{
  fp_all<float>();
  fp_all<double>();
  fp_all<long double>();
  fp_all<st_double>();
  generator_entry<eng_minstd>();
  generator_entry<eng_mt>();
  history_entry<eng_minstd>();
  history_entry<eng_mt>();
  setter_entry<eng_minstd>();
  setter_entry<eng_mt>();
  observed_entry<eng_minstd>();
  observed_entry<eng_mt>();
  generator_entry<eng_mt64>();
  generator_entry<eng_ranlux>();
  generator_entry<eng_knuth>();
  history_entry<eng_mt64>();
  history_entry<eng_ranlux>();
  setter_entry<eng_mt64>();
  setter_entry<eng_knuth>();
  failing_engine_entry();
}
#endif

#if VF_SLICE < 0
void vf_slice_0();
void vf_slice_1();
void vf_slice_2();
void vf_slice_3();
void vf_slice_4();
namespace
{
void body()
{
  for (char const *b :
       {"draws/integer-like", "draws/raw-generator", "draws/uniform_real", "draws/normal", "bounds/draws-judged", "ends/cases-judged",
        "ends/single-value-interval", "ends/not-judged-wide-interval", "uniform_int/grid-cases", "uniform_int/limit-cases",
        "uniform_int/seed-sample-cases", "variate/by-distribution", "variate/by-parameters", "variate/make_variate",
        "distribution/direct", "result-type/plain", "result-type/strong_typedef", "result-type/enum", "parameters/uniform_int-compared",
        "parameters/enum-compared", "parameters/floating-point-compared", "enum/make_uniform_enum", "enum/make_uniform_enum_advanced",
        "enum/make_uniform_enum_advanced-user-distribution", "enum/sub-interval", "enum/size-1", "enum/size-2", "enum/size-3",
        "enum/size-4", "enum/size-5", "enum/size-6", "enum/size-7", "enum/size-8", "enum/size-9", "indices/empty-container",
        "indices/non-empty-container", "indices/size-1", "indices/size-6", "container/empty-container", "container/non-empty-drawn",
        "container/size-1", "container/size-6", "container/constructor-sub-interval", "generator/seed-constructed",
        "generator/seed-sequence-constructed", "generator/state-after-draws-compared", "history/draws", "history/variate-copies",
        "setter/uniform_int", "setter/normal", "observed/basic-member-calls"})
    vf::require_bucket(b);
  vf::observation("compile-time only, never instantiated: basic::operator()(rng,param) [F16], basic::param() getter, "
                  "parameters::uniform_int/uniform_real/normal::convert_to and operator>>(istream&,basic&) do not compile when "
                  "instantiated; parameter translation is therefore observed through basic::distribution() (a(), b(), mean(), stddev())");
  vf::observation("the only probabilistic judgement: an end point of an interval with <= 17 values missing in 2000 draws "
                  "(probability < 1e-52 per end for a correct distribution)");
  vf_slice_0();
  vf_slice_1();
  vf_slice_2();
  vf_slice_3();
  vf_slice_4();
}
}
VF_MAIN(body)
#endif
