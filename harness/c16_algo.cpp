// C16: algorithm and container helpers equal their straightforward (loop based) reference.
//
// Oracles are plain loops written from the documentation of each function; the visit order is
// recorded by logging callbacks.  Judged: the functions the property statement enumerates.
// Observed only (never a violation): equal, map_iteration_second, get_or_insert_with_result's flag,
// container::find_opt(_iterator), maybe_front/back, array::make/apply, tuple::init/apply/invoke/
// from_array, range::singular/empty/size, unique_if with non-equivalence relations, early-stop
// behaviour of functions that do not document where they stop.
#include <vf.hpp>

#include <fcppt/loop.hpp>
#include <fcppt/make_cref.hpp>
#include <fcppt/make_int_range.hpp>
#include <fcppt/make_int_range_count.hpp>
#include <fcppt/make_ref.hpp>
#include <fcppt/reference.hpp>
#include <fcppt/tag.hpp>
#include <fcppt/tag_type.hpp>
#include <fcppt/algorithm/all_of.hpp>
#include <fcppt/algorithm/binary_search.hpp>
#include <fcppt/algorithm/contains.hpp>
#include <fcppt/algorithm/contains_if.hpp>
#include <fcppt/algorithm/equal.hpp>
#include <fcppt/algorithm/equal_range.hpp>
#include <fcppt/algorithm/find_by_opt.hpp>
#include <fcppt/algorithm/find_if_opt.hpp>
#include <fcppt/algorithm/find_opt.hpp>
#include <fcppt/algorithm/fold.hpp>
#include <fcppt/algorithm/fold_break.hpp>
#include <fcppt/algorithm/generate_n.hpp>
#include <fcppt/algorithm/index_of.hpp>
#include <fcppt/algorithm/join_strings.hpp>
#include <fcppt/algorithm/loop.hpp>
#include <fcppt/algorithm/loop_break.hpp>
#include <fcppt/algorithm/loop_break_mpl.hpp>
#include <fcppt/algorithm/loop_break_tuple.hpp>
#include <fcppt/algorithm/map.hpp>
#include <fcppt/algorithm/map_array.hpp>
#include <fcppt/algorithm/map_concat.hpp>
#include <fcppt/optional/make_if.hpp>
#include <fcppt/algorithm/map_iteration.hpp>
#include <fcppt/algorithm/map_iteration_second.hpp>
#include <fcppt/algorithm/map_optional.hpp>
#include <fcppt/algorithm/map_tuple.hpp>
#include <fcppt/algorithm/remove.hpp>
#include <fcppt/algorithm/remove_if.hpp>
#include <fcppt/algorithm/repeat.hpp>
#include <fcppt/algorithm/reverse.hpp>
#include <fcppt/algorithm/sequence_iteration.hpp>
#include <fcppt/algorithm/split_string.hpp>
#include <fcppt/algorithm/unique.hpp>
#include <fcppt/algorithm/unique_if.hpp>
#include <fcppt/algorithm/update_action.hpp>
#include <fcppt/array/append.hpp>
#include <fcppt/array/apply.hpp>
#include <fcppt/array/from_range.hpp>
#include <fcppt/array/init.hpp>
#include <fcppt/array/join.hpp>
#include <fcppt/array/make.hpp>
#include <fcppt/array/map.hpp>
#include <fcppt/array/object.hpp>
#include <fcppt/array/push_back.hpp>
#include <fcppt/container/at_optional.hpp>
#include <fcppt/container/find_opt.hpp>
#include <fcppt/container/find_opt_iterator.hpp>
#include <fcppt/container/find_opt_mapped.hpp>
#include <fcppt/container/get_or_insert.hpp>
#include <fcppt/container/index_map.hpp>
#include <fcppt/container/get_or_insert_with_result.hpp>
#include <fcppt/container/join.hpp>
#include <fcppt/container/key_set.hpp>
#include <fcppt/container/map_values_copy.hpp>
#include <fcppt/container/map_values_ref.hpp>
#include <fcppt/container/maybe_back.hpp>
#include <fcppt/container/maybe_front.hpp>
#include <fcppt/container/set_difference.hpp>
#include <fcppt/container/set_intersection.hpp>
#include <fcppt/container/set_union.hpp>
#include <fcppt/enum/make_range.hpp>
#include <fcppt/enum/make_range_start.hpp>
#include <fcppt/enum/make_range_start_end.hpp>
#include <fcppt/iterator/range_impl.hpp>
#include <fcppt/mpl/list/object.hpp>
#include <fcppt/optional/object.hpp>
#include <fcppt/optional/reference.hpp>
#include <fcppt/range/empty.hpp>
#include <fcppt/range/singular.hpp>
#include <fcppt/range/size.hpp>
#include <fcppt/tuple/apply.hpp>
#include <fcppt/tuple/concat.hpp>
#include <fcppt/tuple/from_array.hpp>
#include <fcppt/tuple/get.hpp>
#include <fcppt/tuple/init.hpp>
#include <fcppt/tuple/invoke.hpp>
#include <fcppt/tuple/make.hpp>
#include <fcppt/tuple/map.hpp>
#include <fcppt/tuple/object.hpp>
#include <fcppt/tuple/push_back.hpp>

#include <array>
#include <cstddef>
#include <cstdint>
#include <any>
#include <deque>
#include <limits>
#include <forward_list>
#include <iterator>
#include <list>
#include <map>
#include <set>
#include <string>
#include <tuple>
#include <type_traits>
#include <unordered_map>
#include <unordered_set>
#include <utility>
#include <vector>

#ifndef VF_SLICE
#define VF_SLICE -2 // single translation unit build: everything
#endif
#define VF_IN_SLICE(i) (VF_SLICE == (i) || VF_SLICE == -2)

namespace
{
using seq = std::vector<int>;
using fcppt::loop;
using fcppt::algorithm::update_action;

// ------------------------------------------------------------------ the 3-element domain
enum class E3
{
  e0,
  e1,
  e2,
  fcppt_maximum = e2
};

inline int dom(int v)
{
  int r = v % 3;
  return r < 0 ? r + 3 : r;
}
// the 8 predicates over {0,1,2}
inline bool P(unsigned p, int v) { return ((p >> dom(v)) & 1U) != 0U; }
// the 27 maps {0,1,2} -> {0,1,2}
inline int M(unsigned m, int v)
{
  static unsigned const pw[3] = {1U, 3U, 9U};
  return static_cast<int>((m / pw[dom(v)]) % 3U);
}
// the 64 partial maps {0,1,2} -> {nothing,0,1,2}: 0 = nothing, k = value k-1
inline int OMraw(unsigned m, int v) { return static_cast<int>((m >> (2 * dom(v))) & 3U); }
// the 5 equivalence relations over {0,1,2}, as class ids
int const EQV[5][3] = {{0, 1, 2}, {0, 0, 2}, {0, 1, 0}, {0, 1, 1}, {0, 0, 0}};

template <class T>
  requires std::is_integral_v<T>
inline int val(T v)
{
  return static_cast<int>(v);
}
inline int val(std::pair<int const, int> const &p) { return p.second; }
inline int val(E3 e) { return static_cast<int>(e); }
template <class T>
inline int val(fcppt::tag<T>)
{
  return T::value;
}

std::string show(seq const &s)
{
  std::string r = "[";
  for (std::size_t i = 0; i < s.size(); ++i)
  {
    if (i)
      r += ',';
    r += std::to_string(s[i]);
  }
  return r + "]";
}
std::string show(std::string const &s) { return "\"" + s + "\""; }
std::string show(std::vector<std::string> const &v)
{
  std::string r = "[";
  for (std::size_t i = 0; i < v.size(); ++i)
  {
    if (i)
      r += ',';
    r += show(v[i]);
  }
  return r + "]";
}
std::string show(std::vector<seq> const &v)
{
  std::string r = "[";
  for (std::size_t i = 0; i < v.size(); ++i)
  {
    if (i)
      r += ',';
    r += show(v[i]);
  }
  return r + "]";
}
std::string show(std::vector<std::pair<int, int>> const &v)
{
  std::string r = "[";
  for (std::size_t i = 0; i < v.size(); ++i)
  {
    if (i)
      r += ',';
    r += std::to_string(v[i].first) + ":" + std::to_string(v[i].second);
  }
  return r + "]";
}
inline std::string show(bool b) { return b ? "true" : "false"; }
inline std::string show(long long v) { return std::to_string(v); }
inline std::string show(unsigned long long v) { return std::to_string(v); }
inline std::string show(int v) { return std::to_string(v); }
inline std::string show(long v) { return std::to_string(v); }
inline std::string show(unsigned v) { return std::to_string(v); }
inline std::string show(unsigned long v) { return std::to_string(v); }

// ------------------------------------------------------------------ reporting
std::uint64_t g_calls = 0; // judged library calls of the running case
inline void lib() { ++g_calls; }

void bad(char const *fn, char const *kn, char const *cls, std::string const &detail)
{
  vf::violation(std::string(fn) + "<" + kn + ">/" + cls, "mismatch", detail);
}
template <class A, class B>
bool expect(A const &got, B const &want, char const *fn, char const *kn, char const *cls, std::string const &par = "")
{
  if (got == want)
    return true;
  bad(fn, kn, cls, par + " got=" + show(got) + " want=" + show(want));
  return false;
}
inline bool is_prefix(seq const &a, seq const &b)
{
  return a.size() <= b.size() && std::equal(a.begin(), a.end(), b.begin());
}
template <class X>
seq to_seq(X const &x)
{
  seq r;
  for (auto it = x.begin(); it != x.end(); ++it)
    r.push_back(val(*it));
  return r;
}
template <class X>
std::vector<std::pair<int, int>> to_pairs(X const &x)
{
  std::vector<std::pair<int, int>> r;
  for (auto it = x.begin(); it != x.end(); ++it)
    r.emplace_back(it->first, it->second);
  return r;
}
inline std::string par(char const *n, unsigned v) { return std::string(n) + "=" + std::to_string(v); }

// ------------------------------------------------------------------ case enumeration
inline unsigned pow3(unsigned n)
{
  unsigned r = 1;
  while (n--)
    r *= 3;
  return r;
}
inline seq decode(unsigned len, unsigned code)
{
  seq s(len);
  for (unsigned i = 0; i < len; ++i)
  {
    s[i] = static_cast<int>(code % 3U);
    code /= 3U;
  }
  return s;
}
// maximal sequence length: the quantifier's 6 in quick, 7 in thorough
inline unsigned L() { return vf::tier(6U, 7U); }

// all sequences up to maxlen; with `longer`, every partition adds a few seeded random sequences that are
// 1..3 elements longer than the exhaustive bound (the only place where VERIF_SEED matters)
template <class F>
void for_seqs(std::string const &entry, unsigned maxlen, F const &f, bool longer = false)
{
  if (!vf::entry_enabled(entry))
    return;
  vf::set_entry(entry);
  std::uint64_t idx = vf::hash_str(entry) % 1024U;
  for (unsigned len = 0; len <= maxlen; ++len)
  {
    unsigned const n = pow3(len);
    for (unsigned code = 0; code < n; ++code)
      if (vf::mine(idx++))
        f(decode(len, code));
  }
  if (longer)
  {
    vf::rng g(vf::seed_for(entry));
    unsigned const count = vf::tier(3U, 12U);
    for (unsigned i = 0; i < count; ++i)
    {
      unsigned const len = maxlen + 1U + static_cast<unsigned>(g.below(3));
      seq s(len);
      for (int &e : s)
        e = static_cast<int>(g.below(3));
      VF_COUNT("shape/seeded-longer-input");
      f(s);
    }
  }
}

inline std::uint64_t case_hash(char const *kn, void const *p, std::size_t n)
{
  std::uint64_t h = vf::hash_mix(vf::hash_str(vf::st().entry), vf::hash_str(kn));
  return vf::hash_mix(h, vf::hash_bytes(p, n) ^ n);
}
bool start(char const *kn, seq const &s)
{
  if (!vf::begin_case("src=%s seq=%s", kn, show(s).c_str()))
    return false;
  vf::sample_case(1);
  vf::note_distinct(case_hash(kn, s.data(), s.size() * sizeof(int)));
  g_calls = 0;
  if (s.empty())
    VF_COUNT("shape/empty-input");
  else
    VF_COUNT("shape/non-empty-input");
  return true;
}
inline void finish()
{
  if (g_calls > 1)
    vf::add_evals(g_calls - 1);
}

// ------------------------------------------------------------------ source kinds
// a single pass (input iterator) view without size(): the "source of unknown size"
struct in_iter
{
  using iterator_category = std::input_iterator_tag;
  using value_type = int;
  using difference_type = std::ptrdiff_t;
  using pointer = int const *;
  using reference = int const &;
  int const *p;
  reference operator*() const { return *p; }
  in_iter &operator++()
  {
    ++p;
    return *this;
  }
  in_iter operator++(int)
  {
    in_iter t = *this;
    ++p;
    return t;
  }
  bool operator==(in_iter const &o) const { return p == o.p; }
  bool operator!=(in_iter const &o) const { return p != o.p; }
};
struct input_range
{
  using value_type = int;
  using iterator = in_iter;
  using const_iterator = in_iter;
  int const *b;
  int const *e;
  in_iter begin() const { return in_iter{b}; }
  in_iter end() const { return in_iter{e}; }
};
// random access, but no size(): the reserve path through std::distance
using vec_itrange = fcppt::iterator::range<seq::const_iterator>;

template <std::size_t N>
using SA = std::array<int, N>;
template <std::size_t N>
using FA = fcppt::array::object<int, N>;

template <std::size_t I>
struct tt;
template <>
struct tt<0>
{
  using type = int;
};
template <>
struct tt<1>
{
  using type = long;
};
template <>
struct tt<2>
{
  using type = short;
};
template <>
struct tt<3>
{
  using type = char;
};
template <>
struct tt<4>
{
  using type = unsigned;
};
template <>
struct tt<5>
{
  using type = long long;
};
template <class S>
struct tup_of;
template <std::size_t... I>
struct tup_of<std::index_sequence<I...>>
{
  using type = fcppt::tuple::object<typename tt<I>::type...>;
};
template <std::size_t N>
using TUP = typename tup_of<std::make_index_sequence<N>>::type;

template <class C>
struct is_sa : std::false_type
{
};
template <std::size_t N>
struct is_sa<std::array<int, N>> : std::true_type
{
};
template <class C>
struct is_fa : std::false_type
{
};
template <std::size_t N>
struct is_fa<fcppt::array::object<int, N>> : std::true_type
{
};
template <class C>
struct is_tup : std::false_type
{
};
template <class... T>
struct is_tup<fcppt::tuple::object<T...>> : std::true_type
{
};

template <class C>
constexpr char const *name_of()
{
  if constexpr (std::is_same_v<C, std::vector<int>>)
    return "vector";
  else if constexpr (std::is_same_v<C, std::list<int>>)
    return "list";
  else if constexpr (std::is_same_v<C, std::deque<int>>)
    return "deque";
  else if constexpr (std::is_same_v<C, std::forward_list<int>>)
    return "forward_list";
  else if constexpr (std::is_same_v<C, std::set<int>>)
    return "set";
  else if constexpr (std::is_same_v<C, std::multiset<int>>)
    return "multiset";
  else if constexpr (std::is_same_v<C, std::map<int, int>>)
    return "map";
  else if constexpr (std::is_same_v<C, input_range>)
    return "input_range";
  else if constexpr (std::is_same_v<C, vec_itrange>)
    return "iterator_range";
  else if constexpr (is_sa<C>::value)
    return "std::array";
  else if constexpr (is_fa<C>::value)
    return "fcppt::array";
  else if constexpr (is_tup<C>::value)
    return "tuple";
  else
    return "?";
}

template <class C, std::size_t... I>
C make_static(seq const &s, std::index_sequence<I...>)
{
  return C{s[I]...};
}
template <class T, std::size_t... I>
T make_tuple_of(seq const &s, std::index_sequence<I...>)
{
  return T{static_cast<typename tt<I>::type>(s[I])...};
}

// owns the container (and the backing store of views) built from a sequence
template <class C>
struct holder
{
  seq store;
  C c;
  explicit holder(seq const &s) : store(s), c(build(store)) {}
  static C build(seq const &s)
  {
    if constexpr (std::is_same_v<C, std::map<int, int>>)
    {
      C m;
      for (std::size_t i = 0; i < s.size(); ++i)
        m.emplace(static_cast<int>(i), s[i]);
      return m;
    }
    else if constexpr (std::is_same_v<C, input_range>)
      return input_range{s.data(), s.data() + s.size()};
    else if constexpr (std::is_same_v<C, vec_itrange>)
      return vec_itrange{s.begin(), s.end()};
    else if constexpr (is_sa<C>::value)
      return make_static<C>(s, std::make_index_sequence<std::tuple_size_v<C>>{});
    else if constexpr (is_fa<C>::value)
      return make_static<C>(s, std::make_index_sequence<std::tuple_size_v<typename C::impl_type>>{});
    else if constexpr (is_tup<C>::value)
      return make_tuple_of<C>(s, std::make_index_sequence<std::tuple_size_v<typename C::impl_type>>{});
    else
      return C(s.begin(), s.end());
  }
  // the sequence a plain loop over the source yields
  seq ref() const
  {
    if constexpr (std::is_same_v<C, std::set<int>>)
    {
      seq r = store;
      std::sort(r.begin(), r.end());
      r.erase(std::unique(r.begin(), r.end()), r.end());
      return r;
    }
    else if constexpr (std::is_same_v<C, std::multiset<int>>)
    {
      seq r = store;
      std::sort(r.begin(), r.end());
      return r;
    }
    else
      return store;
  }
};

template <class... Cs>
struct kinds
{
};

template <class C, class F>
void one(seq const &s, F const &chk)
{
  if (!start(name_of<C>(), s))
    return;
  holder<C> h(s);
  seq const r = h.ref();
  chk(name_of<C>(), h.c, r);
  finish();
}
template <template <std::size_t> class A, std::size_t Max, class F>
void one_static(seq const &s, F const &chk)
{
  [&]<std::size_t... N>(std::index_sequence<N...>)
  {
    ((s.size() == N ? one<A<N>>(s, chk) : void()), ...);
  }
  (std::make_index_sequence<Max + 1>{});
}
constexpr std::size_t static_max = 6;
constexpr std::size_t tuple_max = 5;

template <class... Cs, class F>
void run(kinds<Cs...>, std::string const &entry, unsigned maxlen, F const &chk)
{
  for_seqs(
      entry, maxlen, [&](seq const &s) { (one<Cs>(s, chk), ...); }, true);
}
template <class F>
void run_statics(std::string const &entry, F const &chk)
{
  for_seqs(entry, static_max, [&](seq const &s) {
    one_static<SA, static_max>(s, chk);
    one_static<FA, static_max>(s, chk);
  });
}
template <class F>
void run_tuples(std::string const &entry, F const &chk)
{
  for_seqs(entry, tuple_max, [&](seq const &s) { one_static<TUP, tuple_max>(s, chk); });
}

template <int... Vs>
using ML = fcppt::mpl::list::object<std::integral_constant<int, Vs>...>;
template <int... Vs, class F>
void one_mpl(std::uint64_t &idx, F const &chk)
{
  if (!vf::mine(idx++))
    return;
  seq const s{Vs...};
  if (!start("mpl::list", s))
    return;
  ML<Vs...> c{};
  chk("mpl::list", c, s);
  finish();
}
template <class F>
void run_mpl(std::string const &entry, F const &chk)
{
  if (!vf::entry_enabled(entry))
    return;
  vf::set_entry(entry);
  std::uint64_t idx = vf::hash_str(entry) % 512U;
  one_mpl<>(idx, chk);
  one_mpl<0>(idx, chk);
  one_mpl<2>(idx, chk);
  one_mpl<0, 1>(idx, chk);
  one_mpl<1, 1>(idx, chk);
  one_mpl<2, 0, 1>(idx, chk);
  one_mpl<0, 0, 2, 1>(idx, chk);
  one_mpl<1, 2, 0, 2, 1, 0>(idx, chk);
}

// fcppt int ranges and enum ranges; the reference sequence comes from (begin, end), not from the range
template <class F>
void run_ranges(std::string const &entry, F const &chk)
{
  if (!vf::entry_enabled(entry))
    return;
  vf::set_entry(entry);
  std::uint64_t idx = vf::hash_str(entry) % 256U;
  auto go = [&](char const *kn, long long b, long long e, seq const &r, auto c) {
    if (!vf::begin_case("src=%s begin=%lld end=%lld seq=%s", kn, b, e, show(r).c_str()))
      return;
    vf::sample_case(1);
    long long be[2] = {b, e};
    vf::note_distinct(case_hash(kn, be, sizeof be));
    g_calls = 0;
    if (r.empty())
      VF_COUNT("shape/empty-range");
    else
      VF_COUNT("shape/non-empty-range");
    chk(kn, c, r);
    finish();
  };
  for (int b = -1; b <= 4; ++b)
    for (int e = -1; e <= 4; ++e)
      if (vf::mine(idx++))
      {
        seq r;
        for (int i = b; i < e; ++i)
          r.push_back(i);
        if (e < b)
          VF_COUNT("shape/int_range-end-before-begin");
        go("int_range<int>", b, e, r, fcppt::make_int_range(b, e));
      }
  for (unsigned b = 0; b <= 4; ++b)
    for (unsigned e = 0; e <= 4; ++e)
      if (vf::mine(idx++))
      {
        seq r;
        for (unsigned i = b; i < e; ++i)
          r.push_back(static_cast<int>(i));
        go("int_range<unsigned>", b, e, r, fcppt::make_int_range(b, e));
      }
  for (std::size_t n = 0; n <= 6; ++n)
    if (vf::mine(idx++))
    {
      seq r;
      for (std::size_t i = 0; i < n; ++i)
        r.push_back(static_cast<int>(i));
      go("int_range_count<size_t>", 0, static_cast<long long>(n), r, fcppt::make_int_range_count(n));
    }
  if (vf::mine(idx++))
    go("enum_range", 0, 2, seq{0, 1, 2}, fcppt::enum_::make_range<E3>());
  for (int b = 0; b <= 2; ++b)
  {
    if (vf::mine(idx++))
    {
      seq r;
      for (int i = b; i <= 2; ++i)
        r.push_back(i);
      go("enum_range_start", b, 2, r, fcppt::enum_::make_range_start(static_cast<E3>(b)));
    }
    for (int e = b; e <= 2; ++e)
      if (vf::mine(idx++))
      {
        seq r;
        for (int i = b; i <= e; ++i)
          r.push_back(i);
        go("enum_range_start_end", b, e, r,
           fcppt::enum_::make_range_start_end(static_cast<E3>(b), static_cast<E3>(e)));
      }
  }
}

using k_vec = std::vector<int>;
using k_list = std::list<int>;
using k_deque = std::deque<int>;
using k_flist = std::forward_list<int>;
using k_set = std::set<int>;
using k_mset = std::multiset<int>;
using k_map = std::map<int, int>;
using all_dyn = kinds<k_vec, k_list, k_deque, k_flist, k_set, k_mset, k_map, input_range, vec_itrange>;
using int_dyn = kinds<k_vec, k_list, k_deque, k_flist, k_set, k_mset>;
using seq_rw = kinds<k_vec, k_deque, k_list>;

// every source kind: for checkers that touch the source only through the library
template <class F>
void run_everything(std::string const &entry, F const &chk)
{
  run(all_dyn{}, entry, L(), chk);
  run_statics(entry, chk);
  run_tuples(entry, chk);
  run_mpl(entry, chk);
  run_ranges(entry, chk);
}

#define LIFT(f) [](char const *kn, auto &c, seq const &r) { f(kn, c, r); }

template <class C>
concept mutable_int_range = requires(C &c) {
  {
    *c.begin()
  } -> std::same_as<int &>;
};

// ================================================================== loop family
template <class C>
void chk_loop_break(char const *kn, C &c, seq const &r)
{
  // stop decided by the element: all 8 predicates
  for (unsigned p = 0; p < 8; ++p)
  {
    vf::operands(p);
    seq visits;
    lib();
    fcppt::algorithm::loop_break(std::as_const(c), [&](auto const &e) {
      visits.push_back(val(e));
      return P(p, val(e)) ? loop::break_ : loop::continue_;
    });
    seq want;
    for (int e : r)
    {
      want.push_back(e);
      if (P(p, e))
        break;
    }
    if (want.size() < r.size())
      VF_COUNT("loop_break/stopped-before-end");
    else
      VF_COUNT("loop_break/ran-to-end");
    expect(visits, want, "loop_break", kn, "visits", par("pred", p));
  }
  // stop decided by the position: break in the k-th call (k = n: never)
  for (std::size_t k = 0; k <= r.size(); ++k)
  {
    vf::operands(100, static_cast<long long>(k));
    seq visits;
    std::size_t calls = 0;
    lib();
    fcppt::algorithm::loop_break(c, [&](auto &&e) {
      visits.push_back(val(e));
      return calls++ == k ? loop::break_ : loop::continue_;
    });
    seq want(r.begin(), r.begin() + static_cast<std::ptrdiff_t>(std::min(k + 1, r.size())));
    expect(visits, want, "loop_break", kn, "visits-positional", par("break_at", static_cast<unsigned>(k)));
  }
  VF_COUNT("judged/loop_break");
}

template <class C>
void chk_loop(char const *kn, C &c, seq const &r)
{
  {
    seq visits;
    lib();
    fcppt::algorithm::loop(std::as_const(c), [&](auto const &e) { visits.push_back(val(e)); });
    expect(visits, r, "loop", kn, "visits");
  }
  if constexpr (mutable_int_range<C>)
  {
    // rvalue source
    {
      seq visits;
      lib();
      fcppt::algorithm::loop(C(c), [&](auto &&e) { visits.push_back(val(e)); });
      expect(visits, r, "loop", kn, "visits-rvalue");
    }
    // the body receives the element itself: mutation must land in the container
    lib();
    fcppt::algorithm::loop(c, [](int &e) { e = e * 7 + 1; });
    seq want = r;
    for (int &e : want)
      e = e * 7 + 1;
    expect(to_seq(c), want, "loop", kn, "mutation");
    VF_COUNT("loop/mutating-body");
  }
  VF_COUNT("judged/loop");
}

template <class C>
void chk_fold(char const *kn, C &c, seq const &r)
{
  {
    seq visits;
    lib();
    std::uint64_t const got = fcppt::algorithm::fold(
        std::as_const(c), std::uint64_t{7}, [&](auto const &e, std::uint64_t const st) {
          visits.push_back(val(e));
          return st * 5U + static_cast<std::uint64_t>(dom(val(e))) + 1U;
        });
    std::uint64_t want = 7;
    for (int e : r)
      want = want * 5U + static_cast<std::uint64_t>(dom(e)) + 1U;
    expect(static_cast<unsigned long long>(got), static_cast<unsigned long long>(want), "fold", kn, "state");
    expect(visits, r, "fold", kn, "visits");
  }
  {
    // a state that is only movable in spirit: moved in, moved out
    lib();
    seq const got = fcppt::algorithm::fold(std::as_const(c), seq{}, [](auto const &e, seq &&st) {
      st.push_back(val(e));
      return std::move(st);
    });
    expect(got, r, "fold", kn, "state-vector");
  }
  for (unsigned p = 0; p < 8; ++p)
  {
    vf::operands(p);
    lib();
    unsigned const got = fcppt::algorithm::fold(
        c, 0U, [&](auto const &e, unsigned const n) { return n + (P(p, val(e)) ? 1U : 0U); });
    unsigned want = 0;
    for (int e : r)
      want += P(p, e) ? 1U : 0U;
    expect(got, want, "fold", kn, "count", par("pred", p));
  }
  VF_COUNT("judged/fold");
}

template <class C>
void chk_fold_break(char const *kn, C &c, seq const &r)
{
  for (unsigned p = 0; p < 8; ++p)
  {
    vf::operands(p);
    seq visits;
    lib();
    std::uint64_t const got = fcppt::algorithm::fold_break(
        std::as_const(c), std::uint64_t{7}, [&](auto const &e, std::uint64_t const st) {
          visits.push_back(val(e));
          return std::make_pair(
              P(p, val(e)) ? loop::break_ : loop::continue_, st * 5U + static_cast<std::uint64_t>(dom(val(e))) + 1U);
        });
    // (l_i, s_i) = f(e_i, s_{i-1}) for i = 1..x, x the first index with l_x = break (or n); result s_x
    std::uint64_t want = 7;
    seq wv;
    bool stopped = false;
    for (int e : r)
    {
      wv.push_back(e);
      want = want * 5U + static_cast<std::uint64_t>(dom(e)) + 1U;
      if (P(p, e))
      {
        stopped = true;
        break;
      }
    }
    if (stopped && wv.size() < r.size())
      VF_COUNT("fold_break/stopped-before-end");
    else if (stopped)
      VF_COUNT("fold_break/stopped-at-last");
    else
      VF_COUNT("fold_break/ran-to-end");
    expect(static_cast<unsigned long long>(got), static_cast<unsigned long long>(want), "fold_break", kn, "state",
           par("pred", p));
    expect(visits, wv, "fold_break", kn, "visits", par("pred", p));
  }
  VF_COUNT("judged/fold_break");
}

// result judged; visits judged to be an in-order prefix that justifies the result; where exactly the
// function stops is not documented for these and therefore only observed
inline void prefix_rule(seq const &visits, seq const &r, bool found, std::size_t first, char const *fn, char const *kn,
                        unsigned p)
{
  if (!is_prefix(visits, r))
    bad(fn, kn, "visit-order", par("pred", p) + " visits=" + show(visits) + " source=" + show(r));
  else if (found ? visits.size() <= first : visits.size() != r.size())
    bad(fn, kn, "visits-insufficient", par("pred", p) + " visits=" + show(visits) + " source=" + show(r));
  else if (found && visits.size() != first + 1)
  {
    vf::count(std::string("observed/") + fn + "/continues-after-decision");
    vf::observation(std::string(fn) + "<" + kn + "> keeps calling the function after the result is decided");
  }
  else if (found)
    vf::count(std::string("observed/") + fn + "/stops-at-decision");
}

template <class C>
void chk_all_of(char const *kn, C &c, seq const &r)
{
  for (unsigned p = 0; p < 8; ++p)
  {
    vf::operands(p);
    seq visits;
    lib();
    bool const got = fcppt::algorithm::all_of(c, [&](auto const &e) {
      visits.push_back(val(e));
      return P(p, val(e));
    });
    std::size_t first = r.size();
    for (std::size_t i = 0; i < r.size(); ++i)
      if (!P(p, r[i]))
      {
        first = i;
        break;
      }
    bool const want = first == r.size();
    if (want)
      VF_COUNT("all_of/true");
    else
      VF_COUNT("all_of/false");
    expect(got, want, "all_of", kn, "result", par("pred", p));
    prefix_rule(visits, r, !want, first, "all_of", kn, p);
  }
  VF_COUNT("judged/all_of");
}

template <class C>
void chk_contains_if(char const *kn, C &c, seq const &r)
{
  for (unsigned p = 0; p < 8; ++p)
  {
    vf::operands(p);
    seq visits;
    lib();
    bool const got = fcppt::algorithm::contains_if(c, [&](auto const &e) {
      visits.push_back(val(e));
      return P(p, val(e));
    });
    std::size_t first = r.size();
    for (std::size_t i = 0; i < r.size(); ++i)
      if (P(p, r[i]))
      {
        first = i;
        break;
      }
    bool const want = first != r.size();
    if (want)
      VF_COUNT("contains_if/true");
    else
      VF_COUNT("contains_if/false");
    expect(got, want, "contains_if", kn, "result", par("pred", p));
    prefix_rule(visits, r, want, first, "contains_if", kn, p);
  }
  VF_COUNT("judged/contains_if");
}

// ================================================================== search family
template <class C>
using elem_t = std::remove_cvref_t<decltype(*std::declval<C &>().begin())>;

template <class C>
void chk_contains(char const *kn, C &c, seq const &r)
{
  using V = elem_t<C>;
  for (int v = -1; v <= 4; ++v)
  {
    if constexpr (std::is_unsigned_v<V>)
      if (v < 0)
        continue;
    vf::operands(v);
    lib();
    bool const got = fcppt::algorithm::contains(c, static_cast<V>(v));
    bool want = false;
    for (int e : r)
      want = want || e == v;
    if (want)
      VF_COUNT("contains/true");
    else
      VF_COUNT("contains/false");
    expect(got, want, "contains", kn, "result", par("value+1", static_cast<unsigned>(v + 1)));
  }
  VF_COUNT("judged/contains");
}

inline long long first_index(seq const &r, int v)
{
  for (std::size_t i = 0; i < r.size(); ++i)
    if (r[i] == v)
      return static_cast<long long>(i);
  return -1;
}

template <class C>
void chk_find_opt(char const *kn, C &c, seq const &r)
{
  using V = elem_t<C>;
  for (int v = -1; v <= 4; ++v)
  {
    if constexpr (std::is_unsigned_v<V>)
      if (v < 0)
        continue;
    vf::operands(v);
    long long const want = first_index(r, v);
    if (want < 0)
      VF_COUNT("find_opt/absent");
    else if (std::count(r.begin(), r.end(), v) > 1)
      VF_COUNT("find_opt/several-occurrences");
    else
      VF_COUNT("find_opt/one-occurrence");
    {
      lib();
      auto const o = fcppt::algorithm::find_opt(c, static_cast<V>(v));
      static_assert(std::is_same_v<std::remove_cvref_t<decltype(o)>, fcppt::optional::object<typename C::iterator>>);
      long long const got = o.has_value() ? static_cast<long long>(std::distance(c.begin(), o.get_unsafe())) : -1;
      expect(got, want, "find_opt", kn, "position", par("value+1", static_cast<unsigned>(v + 1)));
      if (o.has_value() && want >= 0 && got == want)
        expect(val(*o.get_unsafe()), v, "find_opt", kn, "element");
    }
    {
      lib();
      auto const o = fcppt::algorithm::find_opt(std::as_const(c), static_cast<V>(v));
      static_assert(
          std::is_same_v<std::remove_cvref_t<decltype(o)>, fcppt::optional::object<typename C::const_iterator>>);
      long long const got =
          o.has_value() ? static_cast<long long>(std::distance(std::as_const(c).begin(), o.get_unsafe())) : -1;
      expect(got, want, "find_opt", kn, "position-const", par("value+1", static_cast<unsigned>(v + 1)));
    }
  }
  VF_COUNT("judged/find_opt");
}

template <class C>
void chk_find_if_opt(char const *kn, C &c, seq const &r)
{
  for (unsigned p = 0; p < 8; ++p)
  {
    vf::operands(p);
    std::size_t first = r.size();
    for (std::size_t i = 0; i < r.size(); ++i)
      if (P(p, r[i]))
      {
        first = i;
        break;
      }
    bool const found = first != r.size();
    if (found)
      VF_COUNT("find_if_opt/found");
    else
      VF_COUNT("find_if_opt/absent");
    seq visits;
    lib();
    auto const o = fcppt::algorithm::find_if_opt(c, [&](auto const &e) {
      visits.push_back(val(e));
      return P(p, val(e));
    });
    long long const got = o.has_value() ? static_cast<long long>(std::distance(c.begin(), o.get_unsafe())) : -1;
    expect(got, found ? static_cast<long long>(first) : -1LL, "find_if_opt", kn, "position", par("pred", p));
    prefix_rule(visits, r, found, first, "find_if_opt", kn, p);
    lib();
    auto const oc = fcppt::algorithm::find_if_opt(std::as_const(c), [&](auto const &e) { return P(p, val(e)); });
    long long const gotc =
        oc.has_value() ? static_cast<long long>(std::distance(std::as_const(c).begin(), oc.get_unsafe())) : -1;
    expect(gotc, found ? static_cast<long long>(first) : -1LL, "find_if_opt", kn, "position-const", par("pred", p));
  }
  VF_COUNT("judged/find_if_opt");
}

template <class C>
void chk_find_by_opt(char const *kn, C &c, seq const &r)
{
  for (unsigned m = 0; m < 64; ++m)
  {
    vf::operands(m);
    std::size_t first = r.size();
    for (std::size_t i = 0; i < r.size(); ++i)
      if (OMraw(m, r[i]) != 0)
      {
        first = i;
        break;
      }
    bool const found = first != r.size();
    if (found)
      VF_COUNT("find_by_opt/found");
    else
      VF_COUNT("find_by_opt/absent");
    seq visits;
    lib();
    // the result carries the position of the element it was computed from
    auto const o = fcppt::algorithm::find_by_opt(std::as_const(c), [&](auto const &e) {
      int const raw = OMraw(m, val(e));
      int const at = static_cast<int>(visits.size());
      visits.push_back(val(e));
      return raw == 0 ? fcppt::optional::object<int>{} : fcppt::optional::object<int>{(raw - 1) * 100 + at};
    });
    long long const got = o.has_value() ? o.get_unsafe() : -1;
    long long const want = found ? (OMraw(m, r[first]) - 1) * 100 + static_cast<long long>(first) : -1;
    expect(got, want, "find_by_opt", kn, "result", par("optmap", m));
    prefix_rule(visits, r, found, first, "find_by_opt", kn, m);
  }
  VF_COUNT("judged/find_by_opt");
}

template <class C>
void chk_index_of(char const *kn, C &c, seq const &r)
{
  for (int v = -1; v <= 3; ++v)
  {
    vf::operands(v);
    lib();
    auto const o = fcppt::algorithm::index_of(c, v);
    static_assert(std::is_same_v<std::remove_cvref_t<decltype(o)>, fcppt::optional::object<typename C::size_type>>);
    long long const got = o.has_value() ? static_cast<long long>(o.get_unsafe()) : -1;
    long long const want = first_index(r, v);
    if (want < 0)
      VF_COUNT("index_of/absent");
    else if (want + 1 == static_cast<long long>(r.size()))
      VF_COUNT("index_of/found-at-last");
    else
      VF_COUNT("index_of/found-before-last");
    expect(got, want, "index_of", kn, "index", par("value+1", static_cast<unsigned>(v + 1)));
  }
  VF_COUNT("judged/index_of");
}

// equal_range / binary_search: std::equal_range requires the range to be partitioned with respect to the
// value; every sorted range is.  Unsorted but partitioned inputs are judged too, others are skipped (counted).
template <class C>
void chk_sorted_search(char const *kn, C &c, seq const &r)
{
  bool const sorted = std::is_sorted(r.begin(), r.end());
  for (int v = -1; v <= 3; ++v)
  {
    vf::operands(v);
    // partitioned: all e < v first, then all e == v, then all e > v
    int stage = 0;
    bool part = true;
    for (int e : r)
    {
      int const s = e < v ? 0 : (e == v ? 1 : 2);
      if (s < stage)
        part = false;
      stage = std::max(stage, s);
    }
    if (!part)
    {
      VF_COUNT("sorted_search/skipped-not-partitioned");
      continue;
    }
    if (sorted)
      VF_COUNT("sorted_search/sorted-input");
    else
      VF_COUNT("sorted_search/unsorted-but-partitioned-input");
    long long lower = 0, upper = 0;
    for (int e : r)
    {
      lower += e < v ? 1 : 0;
      upper += e <= v ? 1 : 0;
    }
    {
      lib();
      auto const er = fcppt::algorithm::equal_range(c, v);
      static_assert(std::is_same_v<std::remove_cvref_t<decltype(er)>, fcppt::iterator::range<typename C::iterator>>);
      expect(static_cast<long long>(std::distance(c.begin(), er.begin())), lower, "equal_range", kn, "begin",
             par("value+1", static_cast<unsigned>(v + 1)));
      expect(static_cast<long long>(std::distance(c.begin(), er.end())), upper, "equal_range", kn, "end",
             par("value+1", static_cast<unsigned>(v + 1)));
      lib();
      auto const erc = fcppt::algorithm::equal_range(std::as_const(c), v);
      expect(static_cast<long long>(std::distance(std::as_const(c).begin(), erc.begin())), lower, "equal_range", kn,
             "begin-const");
      expect(static_cast<long long>(std::distance(std::as_const(c).begin(), erc.end())), upper, "equal_range", kn,
             "end-const");
    }
    {
      // "exactly one element that is uncomparable to the value": an iterator to it, otherwise nothing
      long long const want = upper - lower == 1 ? lower : -1;
      if (upper - lower == 1)
        VF_COUNT("binary_search/exactly-one");
      else if (upper - lower > 1)
        VF_COUNT("binary_search/duplicates");
      else
        VF_COUNT("binary_search/absent");
      lib();
      auto const o = fcppt::algorithm::binary_search(c, v);
      static_assert(std::is_same_v<std::remove_cvref_t<decltype(o)>, fcppt::optional::object<typename C::iterator>>);
      long long const got = o.has_value() ? static_cast<long long>(std::distance(c.begin(), o.get_unsafe())) : -1;
      expect(got, want, "binary_search", kn, "position", par("value+1", static_cast<unsigned>(v + 1)));
      lib();
      auto const oc = fcppt::algorithm::binary_search(std::as_const(c), v);
      long long const gotc =
          oc.has_value() ? static_cast<long long>(std::distance(std::as_const(c).begin(), oc.get_unsafe())) : -1;
      expect(gotc, want, "binary_search", kn, "position-const", par("value+1", static_cast<unsigned>(v + 1)));
    }
  }
  VF_COUNT("judged/binary_search");
  VF_COUNT("judged/equal_range");
}

// observed only
template <class C>
void obs_equal(char const *kn, C &c, seq const &r)
{
  std::vector<seq> others{r};
  others.push_back(r);
  others.back().push_back(0);
  if (!r.empty())
  {
    others.push_back(seq(r.begin(), r.end() - 1));
    others.push_back(r);
    others.back().back() = (r.back() + 1) % 3;
    others.push_back(r);
    others.back().front() = (r.front() + 1) % 3;
  }
  for (seq const &o : others)
  {
    bool const got = fcppt::algorithm::equal(c, o);
    std::list<int> const ol(o.begin(), o.end());
    bool const got2 = fcppt::algorithm::equal(ol, c);
    bool const want = o == r;
    VF_COUNT("observed/equal/calls");
    if (got != want || got2 != want)
    {
      VF_COUNT("observed/equal/unexpected");
      vf::observation(std::string("equal<") + kn + "> differs from element-wise equality on " + show(r) + " vs " + show(o));
    }
  }
}

// ================================================================== map family
template <class T>
constexpr char const *target_name()
{
  if constexpr (std::is_same_v<T, std::vector<int>>)
    return "map->vector";
  else if constexpr (std::is_same_v<T, std::list<int>>)
    return "map->list";
  else if constexpr (std::is_same_v<T, std::deque<int>>)
    return "map->deque";
  else if constexpr (std::is_same_v<T, std::set<int>>)
    return "map->set";
  else if constexpr (std::is_same_v<T, std::multiset<int>>)
    return "map->multiset";
  else
    return "map->?";
}
// what inserting the values one after the other at the end of an empty T yields
template <class T>
seq collect(seq const &values)
{
  if constexpr (std::is_same_v<T, std::set<int>>)
  {
    seq w = values;
    std::sort(w.begin(), w.end());
    w.erase(std::unique(w.begin(), w.end()), w.end());
    return w;
  }
  else if constexpr (std::is_same_v<T, std::multiset<int>>)
  {
    seq w = values;
    std::stable_sort(w.begin(), w.end());
    return w;
  }
  else
    return values;
}

template <class T, class C>
void chk_map_to(char const *kn, C &c, seq const &r)
{
  constexpr char const *fn = target_name<T>();
  for (unsigned m = 0; m < 27; ++m)
  {
    vf::operands(m);
    seq visits;
    lib();
    T const res = fcppt::algorithm::map<T>(std::as_const(c), [&](auto const &e) {
      visits.push_back(val(e));
      return M(m, val(e));
    });
    seq mapped;
    for (int e : r)
      mapped.push_back(M(m, e));
    expect(to_seq(res), collect<T>(mapped), fn, kn, "result", par("map", m));
    expect(visits, r, fn, kn, "visits", par("map", m));
    if constexpr (std::is_same_v<T, std::vector<int>>)
    {
      // the documented reserve optimisation: observed, not judged
      if (res.capacity() == r.size())
        VF_COUNT("observed/map/vector-capacity-equals-source-size");
      else
        VF_COUNT("observed/map/vector-capacity-differs");
    }
  }
  if constexpr (mutable_int_range<C> && std::is_same_v<T, std::vector<int>>)
  {
    seq visits;
    lib();
    T const res = fcppt::algorithm::map<T>(C(c), [&](int &&e) {
      visits.push_back(e);
      return e + 10;
    });
    seq want;
    for (int e : r)
      want.push_back(e + 10);
    expect(to_seq(res), want, fn, kn, "result-rvalue-source");
    expect(visits, r, fn, kn, "visits-rvalue-source");
  }
  VF_COUNT("judged/map");
}

template <class T, class C>
void chk_map_optional_to(char const *kn, C &c, seq const &r)
{
  for (unsigned m = 0; m < 64; ++m)
  {
    vf::operands(m);
    seq visits;
    lib();
    T const res = fcppt::algorithm::map_optional<T>(std::as_const(c), [&](auto const &e) {
      visits.push_back(val(e));
      int const raw = OMraw(m, val(e));
      return raw == 0 ? fcppt::optional::object<int>{} : fcppt::optional::object<int>{raw - 1};
    });
    seq kept;
    for (int e : r)
      if (OMraw(m, e) != 0)
        kept.push_back(OMraw(m, e) - 1);
    if (kept.empty() && !r.empty())
      VF_COUNT("map_optional/all-dropped");
    else if (kept.size() == r.size())
      VF_COUNT("map_optional/all-kept");
    else
      VF_COUNT("map_optional/some-dropped");
    expect(to_seq(res), collect<T>(kept), "map_optional", kn, "result", par("optmap", m));
    expect(visits, r, "map_optional", kn, "visits", par("optmap", m));
  }
  VF_COUNT("judged/map_optional");
}

// f(e) = the first len[e] elements of (10e, 10e+1); len over all 27 maps
template <class T, class C>
void chk_map_concat_to(char const *kn, C &c, seq const &r)
{
  for (unsigned m = 0; m < 27; ++m)
  {
    vf::operands(m);
    seq visits;
    lib();
    T const res = fcppt::algorithm::map_concat<T>(std::as_const(c), [&](auto const &e) {
      visits.push_back(val(e));
      T part;
      for (int i = 0; i < M(m, val(e)); ++i)
        part.insert(part.end(), dom(val(e)) * 10 + i);
      return part;
    });
    seq all;
    for (int e : r)
      for (int i = 0; i < M(m, e); ++i)
        all.push_back(dom(e) * 10 + i);
    if (all.empty() && !r.empty())
      VF_COUNT("map_concat/all-parts-empty");
    else
      VF_COUNT("map_concat/other");
    expect(to_seq(res), collect<T>(all), "map_concat", kn, "result", par("lenmap", m));
    expect(visits, r, "map_concat", kn, "visits", par("lenmap", m));
  }
  VF_COUNT("judged/map_concat");
}

template <class T>
void chk_generate_n(char const *tn, seq const &s)
{
  if (!start(tn, s))
    return;
  std::size_t k = 0;
  lib();
  T const res = fcppt::algorithm::generate_n<T>(s.size(), [&] { return s.at(k++); });
  expect(static_cast<unsigned long>(k), static_cast<unsigned long>(s.size()), "generate_n", tn, "call-count");
  expect(to_seq(res), collect<T>(s), "generate_n", tn, "result");
  VF_COUNT("judged/generate_n");
  finish();
}

template <class Count>
void chk_repeat(char const *tn, long long n)
{
  if (!vf::begin_case("count_type=%s count=%lld", tn, n))
    return;
  vf::sample_case(1);
  vf::note_distinct(case_hash(tn, &n, sizeof n));
  unsigned long calls = 0;
  fcppt::algorithm::repeat(static_cast<Count>(n), [&] { ++calls; });
  if (n <= 0)
    VF_COUNT("repeat/zero-or-negative-count");
  else
    VF_COUNT("repeat/positive-count");
  expect(calls, static_cast<unsigned long>(n < 0 ? 0 : n), "repeat", tn, "call-count");
  VF_COUNT("judged/repeat");
}

// ================================================================== mutating helpers
template <class C>
void chk_remove(char const *kn, C &c, seq const &r)
{
  auto classify = [&](seq const &want) {
    if (want.size() == r.size())
      VF_COUNT("remove/nothing-removed");
    else if (want.empty())
      VF_COUNT("remove/everything-removed");
    else
      VF_COUNT("remove/some-removed");
  };
  for (int v = -1; v <= 3; ++v)
  {
    vf::operands(v);
    C d(c);
    lib();
    bool const got = fcppt::algorithm::remove(d, v);
    seq want;
    for (int e : r)
      if (e != v)
        want.push_back(e);
    classify(want);
    expect(to_seq(d), want, "remove", kn, "final-state", par("value+1", static_cast<unsigned>(v + 1)));
    expect(got, want.size() != r.size(), "remove", kn, "result", par("value+1", static_cast<unsigned>(v + 1)));
  }
  VF_COUNT("judged/remove");
  // the value may be a reference INTO the container that is being modified (the parameter is the container's own
  // const_reference): remove(d, d[i]) must remove every element equal to the value d[i] had at the call
  for (std::size_t i = 0; i < r.size(); ++i)
  {
    vf::operands(static_cast<long long>(i));
    C d(c);
    auto it = d.begin();
    std::advance(it, static_cast<std::ptrdiff_t>(i));
    int const v = *it;
    lib();
    bool const got = fcppt::algorithm::remove(d, *it);
    seq want;
    for (int e : r)
      if (e != v)
        want.push_back(e);
    VF_COUNT("remove/value-aliases-element");
    expect(to_seq(d), want, "remove", kn, "final-state-aliased-value", par("index", static_cast<unsigned>(i)));
    expect(got, true, "remove", kn, "result-aliased-value", par("index", static_cast<unsigned>(i)));
  }
  for (unsigned p = 0; p < 8; ++p)
  {
    vf::operands(p);
    C d(c);
    lib();
    bool const got = fcppt::algorithm::remove_if(d, [&](int const &e) { return P(p, e); });
    seq want;
    for (int e : r)
      if (!P(p, e))
        want.push_back(e);
    classify(want);
    expect(to_seq(d), want, "remove_if", kn, "final-state", par("pred", p));
    expect(got, want.size() != r.size(), "remove_if", kn, "result", par("pred", p));
  }
  VF_COUNT("judged/remove_if");
}

template <class C>
void chk_unique(char const *kn, C &c, seq const &r, unsigned obs_maxlen)
{
  {
    C d(c);
    lib();
    fcppt::algorithm::unique(d);
    seq want;
    for (int e : r)
      if (want.empty() || want.back() != e)
        want.push_back(e);
    if (want.size() == r.size())
      VF_COUNT("unique/nothing-removed");
    else
      VF_COUNT("unique/something-removed");
    expect(to_seq(d), want, "unique", kn, "final-state");
    seq sorted_unique = r;
    std::sort(sorted_unique.begin(), sorted_unique.end());
    sorted_unique.erase(std::unique(sorted_unique.begin(), sorted_unique.end()), sorted_unique.end());
    if (to_seq(d).size() != sorted_unique.size())
    {
      VF_COUNT("observed/unique/non-adjacent-duplicates-remain");
      vf::observation("unique keeps duplicates that are not adjacent (std::unique semantics); the documentation says "
                      "only \"removes duplicate elements\"; judged against the adjacent-duplicates reading");
    }
  }
  VF_COUNT("judged/unique");
  // unique_if: the 5 equivalence relations over {0,1,2}
  for (unsigned q = 0; q < 5; ++q)
  {
    vf::operands(q);
    C d(c);
    lib();
    fcppt::algorithm::unique_if(d, [&](int const &a, int const &b) { return EQV[q][dom(a)] == EQV[q][dom(b)]; });
    seq want;
    for (int e : r)
      if (want.empty() || EQV[q][want.back()] != EQV[q][e])
        want.push_back(e);
    expect(to_seq(d), want, "unique_if", kn, "final-state", par("equivalence", q));
  }
  VF_COUNT("judged/unique_if");
  // all 512 binary relations: std::unique is only specified for equivalence relations -> observed
  if (r.size() <= obs_maxlen)
    for (unsigned rel = 0; rel < 512; ++rel)
    {
      C d(c);
      fcppt::algorithm::unique_if(d, [&](int const &a, int const &b) { return ((rel >> (dom(a) * 3 + dom(b))) & 1U) != 0; });
      seq want;
      for (int e : r)
        if (want.empty() || ((rel >> (want.back() * 3 + e)) & 1U) == 0)
          want.push_back(e);
      VF_COUNT("observed/unique_if/arbitrary-relation-calls");
      if (to_seq(d) != want)
      {
        VF_COUNT("observed/unique_if/arbitrary-relation-differs-from-last-kept-rule");
        vf::observation(std::string("unique_if<") + kn +
                        "> with a non-equivalence relation differs from the compare-with-last-kept loop");
      }
    }
}

template <class C>
void chk_reverse(char const *kn, C &c, seq const &r)
{
  seq const want(r.rbegin(), r.rend());
  {
    lib();
    C const res = fcppt::algorithm::reverse(std::as_const(c));
    expect(to_seq(res), want, "reverse", kn, "result-lvalue");
    expect(to_seq(c), r, "reverse", kn, "source-modified");
  }
  {
    lib();
    C const res = fcppt::algorithm::reverse(c); // non-const lvalue: also a copy
    expect(to_seq(res), want, "reverse", kn, "result-nonconst-lvalue");
    expect(to_seq(c), r, "reverse", kn, "source-modified-nonconst");
  }
  {
    lib();
    C const res = fcppt::algorithm::reverse(C(c));
    expect(to_seq(res), want, "reverse", kn, "result-rvalue");
  }
  VF_COUNT("judged/reverse");
}

template <class C>
void chk_sequence_iteration(char const *kn, C &c, seq const &r)
{
  for (unsigned p = 0; p < 8; ++p)
  {
    vf::operands(p);
    C d(c);
    seq visits;
    lib();
    fcppt::algorithm::sequence_iteration(d, [&](int &e) {
      visits.push_back(e);
      return P(p, e) ? update_action::remove : update_action::keep;
    });
    seq want;
    for (int e : r)
      if (!P(p, e))
        want.push_back(e);
    expect(visits, r, "sequence_iteration", kn, "visits", par("pred", p));
    expect(to_seq(d), want, "sequence_iteration", kn, "final-state", par("pred", p));
  }
  // every subset of positions is removed once; kept elements are modified through the reference
  for (unsigned mask = 0; mask < (1U << r.size()); ++mask)
  {
    vf::operands(100, mask);
    C d(c);
    seq visits;
    unsigned k = 0;
    lib();
    fcppt::algorithm::sequence_iteration(d, [&](int &e) {
      visits.push_back(e);
      bool const rem = ((mask >> k++) & 1U) != 0;
      if (!rem)
        e += 10;
      return rem ? update_action::remove : update_action::keep;
    });
    seq want;
    for (std::size_t i = 0; i < r.size(); ++i)
      if (((mask >> i) & 1U) == 0)
        want.push_back(r[i] + 10);
    if (!r.empty() && ((mask >> (r.size() - 1)) & 1U))
      VF_COUNT("sequence_iteration/last-element-erased");
    if (!r.empty() && mask + 1 == (1U << r.size()))
      VF_COUNT("sequence_iteration/all-erased");
    expect(visits, r, "sequence_iteration", kn, "visits-positional", par("mask", mask));
    expect(to_seq(d), want, "sequence_iteration", kn, "final-state-positional", par("mask", mask));
  }
  // a callback that throws at its t-th invocation: "if the action returns remove, the element is removed" - the loop
  // removes as it goes, so after the exception every earlier decision has taken effect and the rest is untouched
  struct action_fault
  {
  };
  for (unsigned mask = 0; mask < (1U << r.size()); ++mask)
    for (std::size_t t = 0; t < r.size(); ++t)
    {
      vf::operands(200, mask, static_cast<long long>(t));
      C d(c);
      unsigned k = 0;
      std::vector<std::size_t> sizes_seen;
      bool thrown = false;
      lib();
      try
      {
        fcppt::algorithm::sequence_iteration(d, [&](int &) {
          sizes_seen.push_back(static_cast<std::size_t>(std::distance(d.begin(), d.end())));
          if (k == t)
            throw action_fault{};
          return ((mask >> k++) & 1U) != 0 ? update_action::remove : update_action::keep;
        });
      }
      catch (action_fault const &)
      {
        thrown = true;
      }
      seq want;
      std::vector<std::size_t> want_sizes;
      std::size_t removed = 0;
      for (std::size_t i = 0; i < r.size(); ++i)
      {
        if (i <= t)
          want_sizes.push_back(r.size() - removed);
        if (i < t && ((mask >> i) & 1U) != 0)
          ++removed;
        else
          want.push_back(r[i]);
      }
      expect(thrown, true, "sequence_iteration", kn, "exception-swallowed", par("mask", mask));
      expect(to_seq(d), want, "sequence_iteration", kn, "state-after-throwing-action", par("mask", mask) + " " + par("throw-at", static_cast<unsigned>(t)));
      if (sizes_seen != want_sizes)
        VF_COUNT("observed/sequence_iteration/size-seen-by-the-action-differs-from-erase-as-you-go");
      VF_COUNT("sequence_iteration/throwing-action");
    }
  VF_COUNT("judged/sequence_iteration");
}

template <class MapT>
constexpr char const *map_name()
{
  if constexpr (std::is_same_v<MapT, std::map<int, int>>)
    return "map";
  else if constexpr (std::is_same_v<MapT, std::multimap<int, int>>)
    return "multimap";
  else if constexpr (std::is_same_v<MapT, std::unordered_map<int, int>>)
    return "unordered_map";
  else
    return "?";
}
// key i (i/2 for the multimap: duplicate keys) -> s[i]
template <class MapT>
MapT make_map(seq const &s)
{
  MapT m;
  for (std::size_t i = 0; i < s.size(); ++i)
    m.emplace(static_cast<int>(std::is_same_v<MapT, std::multimap<int, int>> ? i / 2 : i), s[i]);
  return m;
}

template <class MapT>
void chk_map_iteration(seq const &s)
{
  constexpr char const *kn = map_name<MapT>();
  if (!start(kn, s))
    return;
  MapT const c = make_map<MapT>(s);
  std::size_t const n = c.size();
  for (unsigned p = 0; p < 8; ++p)
  {
    vf::operands(p);
    MapT d(c);
    std::vector<std::pair<int, int>> const r = to_pairs(d); // (a copy of an unordered_map may iterate differently)
    std::vector<std::pair<int, int>> visits;
    lib();
    fcppt::algorithm::map_iteration(d, [&](typename MapT::value_type &e) {
      visits.emplace_back(e.first, e.second);
      return P(p, e.second) ? update_action::remove : update_action::keep;
    });
    std::vector<std::pair<int, int>> want;
    for (auto const &e : r)
      if (!P(p, e.second))
        want.push_back(e);
    expect(visits, r, "map_iteration", kn, "visits", par("pred", p));
    expect(to_pairs(d), want, "map_iteration", kn, "final-state", par("pred", p));
    // observed neighbour
    MapT d2(c);
    fcppt::algorithm::map_iteration_second(
        d2, [&](int &v) { return P(p, v) ? update_action::remove : update_action::keep; });
    VF_COUNT("observed/map_iteration_second/calls");
    auto got2 = to_pairs(d2);
    auto want2 = want;
    std::sort(got2.begin(), got2.end());
    std::sort(want2.begin(), want2.end());
    if (got2 != want2)
    {
      VF_COUNT("observed/map_iteration_second/unexpected");
      vf::observation(std::string("map_iteration_second<") + kn + "> leaves a different map than the filter loop");
    }
    // judged: the action receives the MAPPED OBJECT OF THE MAP (documented: "like map_iteration, but only the mapped
    // object is passed"): what it writes through the reference is in the map afterwards
    {
      MapT d3(c);
      lib();
      fcppt::algorithm::map_iteration_second(d3, [&](int &v) {
        bool const rem = P(p, v);
        if (!rem)
          v += 10;
        return rem ? update_action::remove : update_action::keep;
      });
      auto got3 = to_pairs(d3);
      std::vector<std::pair<int, int>> want3;
      for (auto const &kv : to_pairs(c))
        if (!P(p, kv.second))
          want3.emplace_back(kv.first, kv.second + 10);
      std::sort(got3.begin(), got3.end());
      std::sort(want3.begin(), want3.end());
      expect(got3, want3, "map_iteration_second", kn, "kept-values-written-through-the-reference", par("pred", p));
      VF_COUNT("judged/map_iteration_second-writes");
    }
  }
  for (unsigned mask = 0; mask < (1U << n); ++mask)
  {
    vf::operands(100, mask);
    MapT d(c);
    std::vector<std::pair<int, int>> const r = to_pairs(d);
    std::vector<std::pair<int, int>> visits;
    unsigned k = 0;
    lib();
    fcppt::algorithm::map_iteration(d, [&](typename MapT::value_type &e) {
      visits.emplace_back(e.first, e.second);
      bool const rem = ((mask >> k++) & 1U) != 0;
      if (!rem)
        e.second += 10;
      return rem ? update_action::remove : update_action::keep;
    });
    std::vector<std::pair<int, int>> want;
    for (std::size_t i = 0; i < r.size(); ++i)
      if (((mask >> i) & 1U) == 0)
        want.emplace_back(r[i].first, r[i].second + 10);
    if (!r.empty() && ((mask >> (r.size() - 1)) & 1U))
      VF_COUNT("map_iteration/last-element-erased");
    if (!r.empty() && mask + 1 == (1U << r.size()))
      VF_COUNT("map_iteration/all-erased");
    expect(visits, r, "map_iteration", kn, "visits-positional", par("mask", mask));
    expect(to_pairs(d), want, "map_iteration", kn, "final-state-positional", par("mask", mask));
  }
  VF_COUNT("judged/map_iteration");
  finish();
}

// ================================================================== split_string / join_strings
// strings over an alphabet of three characters, the last one being the delimiter
template <class Str, class F>
void for_strings(std::string const &entry, char const *kn, unsigned maxlen,
                 std::array<typename Str::value_type, 3> const &alphabet, F const &f)
{
  if (!vf::entry_enabled(entry))
    return;
  vf::set_entry(entry);
  std::uint64_t idx = vf::hash_mix(vf::hash_str(entry), vf::hash_str(kn)) % 1024U;
  for (unsigned len = 0; len <= maxlen; ++len)
  {
    unsigned const n = pow3(len);
    for (unsigned code = 0; code < n; ++code)
    {
      if (!vf::mine(idx++))
        continue;
      seq const s = decode(len, code);
      if (!vf::begin_case("type=%s string=%s (0,1 = letters, 2 = delimiter)", kn, show(s).c_str()))
        continue;
      vf::sample_case(1);
      vf::note_distinct(case_hash(kn, s.data(), s.size() * sizeof(int)));
      g_calls = 0;
      Str str;
      for (int d : s)
        str.insert(str.end(), alphabet[static_cast<std::size_t>(d)]);
      f(s, str);
      finish();
    }
  }
}

template <class Str>
void chk_split(char const *kn, seq const &code, Str const &s, typename Str::value_type delim, bool judge_join)
{
  // fields: the maximal runs between delimiter positions, m delimiters -> m+1 fields
  std::vector<Str> want(1);
  for (auto const ch : s)
  {
    if (ch == delim)
      want.emplace_back();
    else
      want.back().insert(want.back().end(), ch);
  }
  bool const at_start = !code.empty() && code.front() == 2;
  bool const at_end = !code.empty() && code.back() == 2;
  if (code.empty())
    VF_COUNT("split_string/empty-string");
  else if (want.size() == 1)
    VF_COUNT("split_string/no-delimiter");
  if (at_start && at_end && code.size() > 1)
    VF_COUNT("split_string/delimiter-at-both-ends");
  else if (at_end)
    VF_COUNT("split_string/delimiter-at-end");
  else if (at_start)
    VF_COUNT("split_string/delimiter-at-start");
  for (std::size_t i = 0; i + 1 < code.size(); ++i)
    if (code[i] == 2 && code[i + 1] == 2)
    {
      VF_COUNT("split_string/consecutive-delimiters");
      break;
    }
  lib();
  std::vector<Str> const got = fcppt::algorithm::split_string(s, delim);
  if (got != want)
  {
    std::string d = "fields got=" + std::to_string(got.size()) + " want=" + std::to_string(want.size());
    bad("split_string", kn, got.size() != want.size() ? "field-count" : "fields", d);
  }
  VF_COUNT("judged/split_string");
  if constexpr (std::is_same_v<Str, std::string> || std::is_same_v<Str, std::wstring>)
  {
    if (judge_join)
    {
      Str const dl(1, delim);
      lib();
      Str const back = fcppt::algorithm::join_strings(got, dl);
      if (back != s)
        bad("join_strings", kn, "does-not-invert-split_string", "fields=" + std::to_string(got.size()));
      lib();
      Str const back2 = fcppt::algorithm::join_strings(want, dl);
      if (back2 != s)
        bad("join_strings", kn, "result", "joining the reference fields does not give the string back");
      VF_COUNT("join_strings/inverse-of-split");
    }
  }
}

template <class R>
void chk_join_strings(char const *kn, std::vector<std::string> const &fields, std::string const &delim)
{
  R const range(fields.begin(), fields.end());
  std::string want;
  bool first = true;
  for (std::string const &f : range) // (a set reorders: the reference follows the range's own order)
  {
    if (!first)
      want += delim;
    first = false;
    want += f;
  }
  lib();
  std::string const got = fcppt::algorithm::join_strings(range, delim);
  expect(got, want, "join_strings", kn, "result", "fields=" + show(fields) + " delim=" + show(delim));
  VF_COUNT("judged/join_strings");
}

// ================================================================== container helpers
template <class C>
void chk_container_join(char const *kn, C &, seq const &s)
{
  auto sub = [&](std::size_t a, std::size_t b) {
    return C(s.begin() + static_cast<std::ptrdiff_t>(a), s.begin() + static_cast<std::ptrdiff_t>(b));
  };
  std::size_t const n = s.size();
  {
    C const a = sub(0, n);
    lib();
    expect(to_seq(fcppt::container::join(a)), s, "join", kn, "single-argument");
  }
  for (std::size_t k = 0; k <= n; ++k)
  {
    C const a = sub(0, k), b = sub(k, n);
    if (a.empty() || b.empty())
      VF_COUNT("join/an-empty-operand");
    else
      VF_COUNT("join/non-empty-operands");
    {
      lib();
      C const got = fcppt::container::join(a, b);
      expect(to_seq(got), s, "join", kn, "two-lvalues", par("split", static_cast<unsigned>(k)));
      expect(to_seq(a), seq(s.begin(), s.begin() + static_cast<std::ptrdiff_t>(k)), "join", kn, "lvalue-operand-modified");
      expect(to_seq(b), seq(s.begin() + static_cast<std::ptrdiff_t>(k), s.end()), "join", kn, "lvalue-operand-modified");
    }
    {
      lib();
      C const got = fcppt::container::join(C(a), C(b));
      expect(to_seq(got), s, "join", kn, "two-rvalues", par("split", static_cast<unsigned>(k)));
    }
    for (std::size_t k2 = k; k2 <= n; ++k2)
    {
      C const b1 = sub(k, k2), b2 = sub(k2, n);
      lib();
      C const got = fcppt::container::join(a, b1, C(b2));
      expect(to_seq(got), s, "join", kn, "three-operands",
             par("split", static_cast<unsigned>(k)) + par(" split2", static_cast<unsigned>(k2)));
      lib();
      C const got2 = fcppt::container::join(C(a), C(b1), b2);
      expect(to_seq(got2), s, "join", kn, "three-operands-rvalue-first");
    }
  }
  VF_COUNT("judged/join");
}

// join of NON-CONST lvalues of a type whose move is visible (std::string), up to five operands, the same container named
// several times: the obvious loop only reads its operands, so the result is the concatenation and every operand is
// what it was
template <class C>
void chk_container_join_strings(char const *kn, seq const &s)
{
  if (!start(kn, s))
    return;
  auto str = [](int v) { return std::string("element-number-") + std::to_string(v) + "-long-enough-to-live-on-the-heap"; };
  auto mk = [&](std::size_t a, std::size_t b) {
    C c;
    for (std::size_t i = a; i < b; ++i)
      c.push_back(str(s[i]));
    return c;
  };
  auto cat = [](std::initializer_list<C const *> parts) {
    std::vector<std::string> r;
    for (C const *p : parts)
      r.insert(r.end(), p->begin(), p->end());
    return r;
  };
  auto vec = [](C const &c) { return std::vector<std::string>(c.begin(), c.end()); };
  std::size_t const n = s.size();
  for (std::size_t k = 0; k <= n; ++k)
  {
    C a = mk(0, k), b = mk(k, n), sep = mk(0, std::min<std::size_t>(n, 1));
    C const a0 = a, b0 = b, sep0 = sep;
    auto unchanged = [&](char const *what) {
      expect(vec(a) == vec(a0) && vec(b) == vec(b0) && vec(sep) == vec(sep0), true, "join", kn, "lvalue-operand-modified", what);
    };
    {
      lib();
      C const got = fcppt::container::join(a, b, a);
      expect(vec(got) == cat({&a0, &b0, &a0}), true, "join", kn, "three-lvalues-one-repeated", par("split", static_cast<unsigned>(k)));
      unchanged("join(a,b,a)");
    }
    {
      lib();
      C const got = fcppt::container::join(a, a, a, a);
      expect(vec(got) == cat({&a0, &a0, &a0, &a0}), true, "join", kn, "same-lvalue-four-times", par("split", static_cast<unsigned>(k)));
      unchanged("join(a,a,a,a)");
    }
    {
      lib();
      C const got = fcppt::container::join(a, sep, b, sep, a);
      expect(vec(got) == cat({&a0, &sep0, &b0, &sep0, &a0}), true, "join", kn, "five-lvalues-separator-repeated", par("split", static_cast<unsigned>(k)));
      unchanged("join(a,sep,b,sep,a)");
    }
    {
      lib();
      C const got = fcppt::container::join(C(a), b, C(sep), b);
      expect(vec(got) == cat({&a0, &b0, &sep0, &b0}), true, "join", kn, "rvalues-and-lvalues-mixed", par("split", static_cast<unsigned>(k)));
      unchanged("join(C(a),b,C(sep),b)");
    }
    VF_COUNT("join/string-lvalues-repeated");
  }
  VF_COUNT("judged/join");
  finish();
}

// associative containers: join inserts the other containers into the first
template <class S>
void chk_container_join_assoc(char const *kn, seq const &s)
{
  if (!start(kn, s))
    return;
  std::size_t const n = s.size();
  for (std::size_t k = 0; k <= n; ++k)
  {
    if constexpr (std::is_same_v<S, std::map<int, int>>)
    {
      // key s[i] -> i, the first occurrence wins inside each operand and across the operands
      S a, b;
      for (std::size_t i = 0; i < n; ++i)
        (i < k ? a : b).emplace(s[i], static_cast<int>(i));
      lib();
      S const got = fcppt::container::join(a, b);
      std::vector<std::pair<int, int>> want;
      for (int v = 0; v < 3; ++v)
        if (first_index(s, v) >= 0)
          want.emplace_back(v, static_cast<int>(first_index(s, v)));
      expect(to_pairs(got), want, "join", kn, "union-first-wins", par("split", static_cast<unsigned>(k)));
      lib();
      S const got2 = fcppt::container::join(S(a), S(b));
      expect(to_pairs(got2), want, "join", kn, "union-first-wins-rvalues", par("split", static_cast<unsigned>(k)));
    }
    else
    {
      S const a(s.begin(), s.begin() + static_cast<std::ptrdiff_t>(k));
      S const b(s.begin() + static_cast<std::ptrdiff_t>(k), s.end());
      lib();
      S const got = fcppt::container::join(a, b);
      expect(to_seq(got), collect<S>(s), "join", kn, "union", par("split", static_cast<unsigned>(k)));
      lib();
      S const got2 = fcppt::container::join(S(a), b, S(a));
      seq twice(s.begin(), s.end());
      twice.insert(twice.end(), s.begin(), s.begin() + static_cast<std::ptrdiff_t>(k));
      expect(to_seq(got2), collect<S>(twice), "join", kn, "union-three-operands", par("split", static_cast<unsigned>(k)));
    }
  }
  VF_COUNT("judged/join");
  finish();
}

// containers that carry run-time state (a comparison object): the result of join is a copy of the FIRST container with
// the others inserted, so it orders - and identifies - elements as the first argument does
struct dircmp
{
  bool descending = false;
  bool operator()(int a, int b) const { return descending ? b < a : a < b; }
};
inline bool fn_desc(int a, int b) { return b < a; }
inline bool fn_mod2(int a, int b) { return (a % 2) < (b % 2); } // 0 and 2 are equivalent
void chk_container_join_stateful(seq const &s)
{
  if (!start("set<stateful-compare>", s))
    return;
  std::size_t const n = s.size();
  for (std::size_t k = 0; k <= n; ++k)
  {
    {
      using S = std::set<int, dircmp>;
      S a(s.begin(), s.begin() + static_cast<std::ptrdiff_t>(k), dircmp{true});
      S const b(s.begin() + static_cast<std::ptrdiff_t>(k), s.end(), dircmp{true});
      S want(s.begin(), s.end(), dircmp{true});
      lib();
      S const got = fcppt::container::join(a, b);
      expect(to_seq(got), to_seq(want), "join", "set<dircmp>", "lvalue-first/order-of-the-first-argument", par("split", static_cast<unsigned>(k)));
      lib();
      S const got1 = fcppt::container::join(a);
      expect(to_seq(got1), to_seq(a), "join", "set<dircmp>", "single-lvalue", par("split", static_cast<unsigned>(k)));
      lib();
      S const got2 = fcppt::container::join(S(a), b);
      expect(to_seq(got2), to_seq(want), "join", "set<dircmp>", "rvalue-first/order-of-the-first-argument", par("split", static_cast<unsigned>(k)));
    }
    {
      using F = std::set<int, bool (*)(int, int)>;
      F a(s.begin(), s.begin() + static_cast<std::ptrdiff_t>(k), &fn_desc);
      F const b(s.begin() + static_cast<std::ptrdiff_t>(k), s.end(), &fn_desc);
      F want(s.begin(), s.end(), &fn_desc);
      lib();
      F const got = fcppt::container::join(a, b);
      expect(to_seq(got), to_seq(want), "join", "set<fn-pointer>", "lvalue-first", par("split", static_cast<unsigned>(k)));
      // an ordering under which distinct values are equivalent: the first argument's notion of "same element" decides
      F c(s.begin(), s.begin() + static_cast<std::ptrdiff_t>(k), &fn_mod2);
      F const d(s.begin() + static_cast<std::ptrdiff_t>(k), s.end(), &fn_mod2);
      F want2(&fn_mod2);
      for (int v : c)
        want2.insert(v);
      for (int v : d)
        want2.insert(v);
      lib();
      F const got3 = fcppt::container::join(c, d);
      expect(to_seq(got3), to_seq(want2), "join", "set<fn-pointer>", "lvalue-first/equivalence-of-the-first-argument", par("split", static_cast<unsigned>(k)));
    }
  }
  VF_COUNT("judged/join-stateful-compare");
  finish();
}

// sequence containers whose value_type can be constructed from (almost) anything - std::any swallows an iterator as
// readily as an int: join still appends the ELEMENTS of the other containers
template <class C>
void chk_container_join_any(char const *kn, seq const &s)
{
  if (!start(kn, s))
    return;
  std::size_t const n = s.size();
  auto const ints = [](C const &c) {
    seq r;
    for (std::any const &a : c)
      r.push_back(a.type() == typeid(int) ? std::any_cast<int>(a) : -777);
    return r;
  };
  for (std::size_t k = 0; k <= n; ++k)
  {
    C a, b;
    for (std::size_t i = 0; i < n; ++i)
      (i < k ? a : b).push_back(std::any(s[i]));
    seq const b_before = ints(b);
    lib();
    C const got = fcppt::container::join(a, b);
    expect(ints(got), s, "join", kn, "lvalues", par("split", static_cast<unsigned>(k)));
    expect(ints(b), b_before, "join", kn, "second-argument-unchanged", par("split", static_cast<unsigned>(k)));
    // (lvalue operands only: rvalue operands of such a container stop compiling on a tree that takes the other branch)
    lib();
    C const got2 = fcppt::container::join(a, b, a);
    seq want2(s.begin(), s.end());
    want2.insert(want2.end(), s.begin(), s.begin() + static_cast<std::ptrdiff_t>(k));
    expect(ints(got2), want2, "join", kn, "three-operands", par("split", static_cast<unsigned>(k)));
  }
  VF_COUNT("judged/join-any");
  finish();
}

template <class C>
void chk_at_optional(char const *kn, C &c, seq const &r)
{
  using size_type = typename C::size_type;
  std::vector<size_type> idxs;
  for (std::size_t i = 0; i <= r.size() + 2; ++i)
    idxs.push_back(static_cast<size_type>(i));
  idxs.push_back(static_cast<size_type>(-1));
  idxs.push_back(static_cast<size_type>(-1) / 2 + 1);
  idxs.push_back(static_cast<size_type>(-1) / 2);
  for (size_type const i : idxs)
  {
    vf::operands(static_cast<long long>(i));
    bool const in = i < r.size();
    if (in)
      VF_COUNT("at_optional/in-range");
    else if (i == r.size())
      VF_COUNT("at_optional/index-equals-size");
    else
      VF_COUNT("at_optional/beyond-size");
    {
      lib();
      auto const o = fcppt::container::at_optional(c, i);
      static_assert(std::is_same_v<std::remove_cvref_t<decltype(o)>, fcppt::optional::reference<int>>);
      expect(o.has_value(), in, "at_optional", kn, "presence", par("index", static_cast<unsigned>(i)));
      if (o.has_value() && in)
      {
        auto it = c.begin();
        std::advance(it, static_cast<std::ptrdiff_t>(i));
        expect(&o.get_unsafe().get() == &*it, true, "at_optional", kn, "refers-to-other-object",
               par("index", static_cast<unsigned>(i)));
        expect(o.get_unsafe().get(), r[i], "at_optional", kn, "value", par("index", static_cast<unsigned>(i)));
      }
    }
    {
      lib();
      auto const o = fcppt::container::at_optional(std::as_const(c), i);
      static_assert(std::is_same_v<std::remove_cvref_t<decltype(o)>, fcppt::optional::reference<int const>>);
      expect(o.has_value(), in, "at_optional", kn, "presence-const", par("index", static_cast<unsigned>(i)));
      if (o.has_value() && in)
        expect(o.get_unsafe().get(), r[i], "at_optional", kn, "value-const", par("index", static_cast<unsigned>(i)));
    }
  }
  VF_COUNT("judged/at_optional");
}

template <class MapT>
constexpr char const *map_name2()
{
  if constexpr (std::is_same_v<MapT, std::map<int, int>>)
    return "map";
  else
    return "unordered_map";
}

// the map {s[i] -> i}, first occurrence wins; keys are probed over -1..3
template <class MapT>
void chk_map_lookup(seq const &s)
{
  constexpr char const *kn = map_name2<MapT>();
  if (!start(kn, s))
    return;
  MapT m;
  for (std::size_t i = 0; i < s.size(); ++i)
    m.emplace(s[i], static_cast<int>(i));
  auto sorted_pairs = [](MapT const &x) {
    auto v = to_pairs(x);
    std::sort(v.begin(), v.end());
    return v;
  };
  auto const before = sorted_pairs(m);
  for (int k = -1; k <= 3; ++k)
  {
    vf::operands(k);
    long long const fi = first_index(s, k);
    // find_opt_mapped
    {
      lib();
      auto const o = fcppt::container::find_opt_mapped(m, k);
      static_assert(
          std::is_same_v<std::remove_cvref_t<decltype(o)>, fcppt::optional::object<fcppt::reference<int>>>);
      if (fi >= 0)
        VF_COUNT("find_opt_mapped/found");
      else
        VF_COUNT("find_opt_mapped/absent");
      expect(o.has_value(), fi >= 0, "find_opt_mapped", kn, "presence", par("key+1", static_cast<unsigned>(k + 1)));
      if (o.has_value() && fi >= 0)
      {
        expect(static_cast<long long>(o.get_unsafe().get()), fi, "find_opt_mapped", kn, "value");
        expect(&o.get_unsafe().get() == &m.find(k)->second, true, "find_opt_mapped", kn, "refers-to-other-object");
      }
      lib();
      auto const oc = fcppt::container::find_opt_mapped(std::as_const(m), k);
      static_assert(
          std::is_same_v<std::remove_cvref_t<decltype(oc)>, fcppt::optional::object<fcppt::reference<int const>>>);
      expect(oc.has_value(), fi >= 0, "find_opt_mapped", kn, "presence-const");
      if (oc.has_value() && fi >= 0)
        expect(&oc.get_unsafe().get() == &m.find(k)->second, true, "find_opt_mapped", kn,
               "refers-to-other-object-const");
      expect(sorted_pairs(m), before, "find_opt_mapped", kn, "map-modified");
      VF_COUNT("judged/find_opt_mapped");
      // observed neighbours
      auto const o2 = fcppt::container::find_opt(m, k);
      auto const o3 = fcppt::container::find_opt_iterator(m, k);
      VF_COUNT("observed/container_find_opt/calls");
      if (o2.has_value() != (fi >= 0) || o3.has_value() != (fi >= 0))
        vf::observation(std::string("container::find_opt/find_opt_iterator<") + kn + "> presence differs from find()");
    }
    // get_or_insert
    {
      MapT d(m);
      unsigned calls = 0;
      int arg = -99;
      lib();
      int &ref = fcppt::container::get_or_insert(d, k, [&](int const kk) {
        ++calls;
        arg = kk;
        return 1000 + kk;
      });
      if (fi >= 0)
      {
        VF_COUNT("get_or_insert/found");
        expect(calls, 0U, "get_or_insert", kn, "create-called-although-found");
        expect(static_cast<long long>(ref), fi, "get_or_insert", kn, "value-found");
        expect(sorted_pairs(d), before, "get_or_insert", kn, "map-modified-although-found");
      }
      else
      {
        VF_COUNT("get_or_insert/inserted");
        expect(calls, 1U, "get_or_insert", kn, "create-call-count");
        expect(arg, k, "get_or_insert", kn, "create-argument");
        expect(ref, 1000 + k, "get_or_insert", kn, "value-inserted");
        auto want = before;
        want.emplace_back(k, 1000 + k);
        std::sort(want.begin(), want.end());
        expect(sorted_pairs(d), want, "get_or_insert", kn, "final-state");
      }
      auto const it = d.find(k);
      expect(it != d.end() && &it->second == &ref, true, "get_or_insert", kn, "refers-to-other-object");
      VF_COUNT("judged/get_or_insert");
      // failure path: the creating function throws - nothing may have been inserted (the obvious loop evaluates the
      // function before it touches the map)
      {
        MapT d3(m);
        struct create_failed
        {
        };
        bool threw = false;
        try
        {
          lib();
          (void)fcppt::container::get_or_insert(d3, k, [](int) -> int { throw create_failed{}; });
        }
        catch (create_failed const &)
        {
          threw = true;
        }
        expect(threw, fi < 0, "get_or_insert", kn, "throwing-create/called-iff-absent");
        expect(sorted_pairs(d3), before, "get_or_insert", kn, "throwing-create/map-modified");
        VF_COUNT("get_or_insert/throwing-create");
      }
      // observed: the flag of get_or_insert_with_result
      MapT d2(m);
      auto const res = fcppt::container::get_or_insert_with_result(d2, k, [](int const kk) { return 1000 + kk; });
      VF_COUNT("observed/get_or_insert_with_result/calls");
      if (res.inserted() == (fi < 0))
      {
        VF_COUNT("observed/get_or_insert_with_result/flag-true-iff-inserted");
        vf::observation("get_or_insert_with_result(...).inserted() is true exactly when the element was inserted (as "
                        "get_or_insert_result documents); the prose of get_or_insert_with_result says the opposite "
                        "(documentation slip, observed only)");
      }
      else
        VF_COUNT("observed/get_or_insert_with_result/flag-true-iff-found");
    }
  }
  finish();
}

template <class MapT, class SetT>
void chk_key_set(char const *kn, seq const &s)
{
  if (!start(kn, s))
    return;
  MapT const m = make_map<MapT>(s);
  lib();
  SetT const got = fcppt::container::key_set<SetT>(m);
  seq g = to_seq(got);
  std::sort(g.begin(), g.end());
  seq want;
  for (auto it = m.begin(); it != m.end(); ++it)
    want.push_back(it->first);
  std::sort(want.begin(), want.end());
  want.erase(std::unique(want.begin(), want.end()), want.end());
  expect(g, want, "key_set", kn, "keys");
  VF_COUNT("judged/key_set");
  finish();
}

template <class MapT>
void chk_map_values(seq const &s)
{
  constexpr char const *kn = map_name<MapT>();
  if (!start(kn, s))
    return;
  MapT m = make_map<MapT>(s);
  seq want;
  std::vector<int const *> addr;
  for (auto it = m.begin(); it != m.end(); ++it)
  {
    want.push_back(it->second);
    addr.push_back(&it->second);
  }
  {
    lib();
    auto const got = fcppt::container::map_values_copy<std::vector<int>>(m);
    expect(got, want, "map_values_copy", kn, "values");
    lib();
    auto const gotl = fcppt::container::map_values_copy<std::list<int>>(std::as_const(m));
    expect(to_seq(gotl), want, "map_values_copy", kn, "values-list");
  }
  {
    lib();
    auto const got = fcppt::container::map_values_ref<std::vector<fcppt::reference<int>>>(m);
    std::vector<int const *> ga;
    for (auto const &rf : got)
      ga.push_back(&rf.get());
    expect(ga == addr, true, "map_values_ref", kn, "refers-to-other-objects");
    lib();
    auto const gotc = fcppt::container::map_values_ref<std::vector<fcppt::reference<int const>>>(std::as_const(m));
    std::vector<int const *> gc;
    for (auto const &rf : gotc)
      gc.push_back(&rf.get());
    expect(gc == addr, true, "map_values_ref", kn, "refers-to-other-objects-const");
  }
  VF_COUNT("judged/map_values");
  finish();
}

void chk_set_ops(unsigned universe)
{
  std::string const entry = "container/set_union,intersection,difference";
  if (!vf::entry_enabled(entry))
    return;
  vf::set_entry(entry);
  std::uint64_t idx = 0;
  for (unsigned ma = 0; ma < (1U << universe); ++ma)
    for (unsigned mb = 0; mb < (1U << universe); ++mb)
    {
      if (!vf::mine(idx++))
        continue;
      if (!vf::begin_case("a=bits:%u b=bits:%u universe=%u", ma, mb, universe))
        continue;
      vf::sample_case(1);
      unsigned ab[2] = {ma, mb};
      vf::note_distinct(case_hash("set", ab, sizeof ab));
      std::set<int> a, b;
      seq wu, wi, wd;
      for (unsigned e = 0; e < universe; ++e)
      {
        bool const ina = ((ma >> e) & 1U) != 0, inb = ((mb >> e) & 1U) != 0;
        if (ina)
          a.insert(static_cast<int>(e));
        if (inb)
          b.insert(static_cast<int>(e));
        if (ina || inb)
          wu.push_back(static_cast<int>(e));
        if (ina && inb)
          wi.push_back(static_cast<int>(e));
        if (ina && !inb)
          wd.push_back(static_cast<int>(e));
      }
      if (wd.size() != a.size() && !wd.empty())
        VF_COUNT("set_difference/proper-non-empty");
      if ((mb & ~ma) != 0 && (ma & ~mb) != 0)
        VF_COUNT("set_ops/incomparable-operands");
      expect(to_seq(fcppt::container::set_union(a, b)), wu, "set_union", "set", "result");
      expect(to_seq(fcppt::container::set_intersection(a, b)), wi, "set_intersection", "set", "result");
      expect(to_seq(fcppt::container::set_difference(a, b)), wd, "set_difference", "set", "result");
      vf::add_evals(2);
      VF_COUNT("judged/set_union");
      VF_COUNT("judged/set_intersection");
      VF_COUNT("judged/set_difference");
      // multisets ("must be an associative container"): multiplicities 0..2 per element, derived from the two masks; the
      // obvious specification is the sorted merge of std::set_union / set_intersection / set_difference:
      // max(m,n), min(m,n), max(m-n,0) occurrences
      {
        std::multiset<int> am, bm;
        seq mu, mi, md;
        for (unsigned e = 0; e < universe; ++e)
        {
          unsigned const m = ((ma >> e) & 1U) + (((ma >> ((e + 1) % universe)) & (mb >> e)) & 1U);
          unsigned const n = ((mb >> e) & 1U) + (((mb >> ((e + 1) % universe)) & (ma >> e)) & 1U);
          for (unsigned k = 0; k < m; ++k)
            am.insert(static_cast<int>(e));
          for (unsigned k = 0; k < n; ++k)
            bm.insert(static_cast<int>(e));
          for (unsigned k = 0; k < std::max(m, n); ++k)
            mu.push_back(static_cast<int>(e));
          for (unsigned k = 0; k < std::min(m, n); ++k)
            mi.push_back(static_cast<int>(e));
          for (unsigned k = n; k < m; ++k)
            md.push_back(static_cast<int>(e));
          if (m > 0 && n > 0 && m + n > 2)
            VF_COUNT("set_ops/multiset-common-element-with-multiplicity");
        }
        expect(to_seq(fcppt::container::set_union(am, bm)), mu, "set_union", "multiset", "result");
        expect(to_seq(fcppt::container::set_intersection(am, bm)), mi, "set_intersection", "multiset", "result");
        expect(to_seq(fcppt::container::set_difference(am, bm)), md, "set_difference", "multiset", "result");
        vf::add_evals(3);
      }
    }
}

// ================================================================== fcppt::array helpers
template <std::size_t N>
void chk_array_n(seq const &s)
{
  constexpr char const *kn = "fcppt::array";
  if (s.size() != N)
    return;
  if (!start(kn, s))
    return;
  using A = FA<N>;
  holder<A> h(s);
  A &a = h.c;
  // init: f is called once for every index, in index order
  {
    std::vector<int> order;
    lib();
    A const got = fcppt::array::init<A>([&]<std::size_t I>(std::integral_constant<std::size_t, I>) {
      order.push_back(static_cast<int>(I));
      return s[I];
    });
    seq idx;
    for (std::size_t i = 0; i < N; ++i)
      idx.push_back(static_cast<int>(i));
    expect(to_seq(got), s, "array::init", kn, "result");
    expect(order, idx, "array::init", kn, "call-order");
    VF_COUNT("judged/array::init");
  }
  // map
  for (unsigned m = 0; m < 27; ++m)
  {
    vf::operands(m);
    seq visits, want;
    for (int e : s)
      want.push_back(M(m, e) + 5);
    lib();
    auto const got = fcppt::array::map(std::as_const(a), [&](int const &e) {
      visits.push_back(e);
      return static_cast<long>(M(m, e) + 5);
    });
    static_assert(std::is_same_v<std::remove_cvref_t<decltype(got)>, fcppt::array::object<long, N>>);
    expect(to_seq(got), want, "array::map", kn, "result", par("map", m));
    expect(visits, s, "array::map", kn, "visits", par("map", m));
    if (m % 9 == 0)
    {
      seq v2;
      lib();
      auto const got2 = fcppt::array::map(A(a), [&](int &&e) {
        v2.push_back(e);
        return M(m, e) + 5;
      });
      expect(to_seq(got2), want, "array::map", kn, "result-rvalue", par("map", m));
      expect(v2, s, "array::map", kn, "visits-rvalue", par("map", m));
      // through algorithm::map (map_array.hpp)
      lib();
      auto const got3 = fcppt::algorithm::map<fcppt::array::object<long, N>>(
          std::as_const(a), [&](int const &e) { return static_cast<long>(M(m, e) + 5); });
      expect(to_seq(got3), want, "map->fcppt::array", kn, "result", par("map", m));
    }
  }
  VF_COUNT("judged/array::map");
  // push_back (the source has to be an rvalue: an lvalue source does not compile, see the report)
  for (int v = 0; v < 3; ++v)
  {
    lib();
    auto const got = fcppt::array::push_back(A(a), v);
    static_assert(std::is_same_v<std::remove_cvref_t<decltype(got)>, FA<N + 1>>);
    seq want = s;
    want.push_back(v);
    expect(to_seq(got), want, "array::push_back", kn, "result");
    int const lv = v;
    lib();
    auto const got2 = fcppt::array::push_back(A(a), lv);
    expect(to_seq(got2), want, "array::push_back", kn, "result-lvalue-element");
  }
  VF_COUNT("judged/array::push_back");
  // from_range<K> for every K in 0..static_max+1: a value exactly if the sizes agree
  [&]<std::size_t... K>(std::index_sequence<K...>)
  {
    auto one_k = [&]<std::size_t KK>(std::integral_constant<std::size_t, KK>) {
      std::vector<int> const v(s.begin(), s.end());
      std::deque<int> const d(s.begin(), s.end());
      lib();
      auto const o1 = fcppt::array::from_range<KK>(v);
      static_assert(std::is_same_v<std::remove_cvref_t<decltype(o1)>, fcppt::optional::object<FA<KK>>>);
      lib();
      auto const o2 = fcppt::array::from_range<KK>(d);
      lib();
      auto const o3 = fcppt::array::from_range<KK>(std::vector<int>(v));
      lib();
      holder<SA<N>> const hs(s);
      auto const o4 = fcppt::array::from_range<KK>(hs.c);
      bool const want = KK == N;
      if (want)
        VF_COUNT("array::from_range/size-matches");
      else if (KK < N)
        VF_COUNT("array::from_range/source-longer");
      else
        VF_COUNT("array::from_range/source-shorter");
      expect(o1.has_value(), want, "array::from_range", "vector", "presence", par("size", KK));
      expect(o2.has_value(), want, "array::from_range", "deque", "presence", par("size", KK));
      expect(o3.has_value(), want, "array::from_range", "vector-rvalue", "presence", par("size", KK));
      expect(o4.has_value(), want, "array::from_range", "std::array", "presence", par("size", KK));
      if (want)
      {
        if (o1.has_value())
          expect(to_seq(o1.get_unsafe()), s, "array::from_range", "vector", "elements");
        if (o2.has_value())
          expect(to_seq(o2.get_unsafe()), s, "array::from_range", "deque", "elements");
        if (o3.has_value())
          expect(to_seq(o3.get_unsafe()), s, "array::from_range", "vector-rvalue", "elements");
        if (o4.has_value())
          expect(to_seq(o4.get_unsafe()), s, "array::from_range", "std::array", "elements");
      }
    };
    (one_k(std::integral_constant<std::size_t, K>{}), ...);
  }
  (std::make_index_sequence<static_max + 2>{});
  VF_COUNT("judged/array::from_range");
  // observed: make, apply
  if constexpr (N == 3)
  {
    auto const mk = fcppt::array::make(s[0], s[1], s[2]);
    auto const ap = fcppt::array::apply([](int x, int y) { return x * 3 + y; }, a, mk);
    seq want;
    for (int e : s)
      want.push_back(e * 3 + e);
    VF_COUNT("observed/array::make,apply/calls");
    if (to_seq(mk) != s || to_seq(ap) != want)
      vf::observation("array::make/apply differ from the element-wise expectation on " + show(s));
  }
  finish();
}

// append / join: the sequence is cut into two (three) arrays
template <std::size_t N1, std::size_t N2>
void chk_array_append(seq const &s)
{
  if (s.size() != N1 + N2)
    return;
  constexpr char const *kn = "fcppt::array";
  if (!vf::begin_case("src=fcppt::array sizes=%zu+%zu seq=%s", N1, N2, show(s).c_str()))
    return;
  vf::sample_case(1);
  std::size_t const nn[2] = {N1, N2};
  vf::note_distinct(vf::hash_mix(case_hash(kn, s.data(), s.size() * sizeof(int)), vf::hash_bytes(nn, sizeof nn)));
  g_calls = 0;
  seq const s1(s.begin(), s.begin() + static_cast<std::ptrdiff_t>(N1)), s2(s.begin() + static_cast<std::ptrdiff_t>(N1), s.end());
  holder<FA<N1>> h1(s1);
  holder<FA<N2>> h2(s2);
  if (N1 == 0 || N2 == 0)
    VF_COUNT("array::append/an-empty-operand");
  else
    VF_COUNT("array::append/non-empty-operands");
  {
    lib();
    auto const got = fcppt::array::append(FA<N1>(h1.c), FA<N2>(h2.c));
    static_assert(std::is_same_v<std::remove_cvref_t<decltype(got)>, FA<N1 + N2>>);
    expect(to_seq(got), s, "array::append", kn, "result");
    lib();
    auto const got2 = fcppt::array::append(FA<N1>(h1.c), h2.c); // second operand may be an lvalue
    expect(to_seq(got2), s, "array::append", kn, "result-lvalue-second");
    expect(to_seq(h2.c), s2, "array::append", kn, "lvalue-operand-modified");
    VF_COUNT("judged/array::append");
  }
  {
    lib();
    auto const got = fcppt::array::join(FA<N1>(h1.c), FA<N2>(h2.c));
    expect(to_seq(got), s, "array::join", kn, "two-operands");
    lib();
    auto const got1 = fcppt::array::join(FA<N1>(h1.c));
    expect(to_seq(got1), s1, "array::join", kn, "single-operand");
    // three operands: the second part is cut once more
    constexpr std::size_t NA = N2 / 2, NB = N2 - NA;
    seq const sa(s2.begin(), s2.begin() + static_cast<std::ptrdiff_t>(NA)), sb(s2.begin() + static_cast<std::ptrdiff_t>(NA), s2.end());
    holder<FA<NA>> ha(sa);
    holder<FA<NB>> hb(sb);
    lib();
    auto const got3 = fcppt::array::join(FA<N1>(h1.c), ha.c, FA<NB>(hb.c));
    static_assert(std::is_same_v<std::remove_cvref_t<decltype(got3)>, FA<N1 + N2>>);
    expect(to_seq(got3), s, "array::join", kn, "three-operands");
    VF_COUNT("judged/array::join");
  }
  finish();
}

// ================================================================== fcppt::tuple helpers
template <class T, std::size_t... I>
seq tuple_seq(T const &t, std::index_sequence<I...>)
{
  return seq{static_cast<int>(std::get<I>(t.impl()))...};
}
template <class... Ts>
seq tuple_seq(fcppt::tuple::object<Ts...> const &t)
{
  return tuple_seq(t, std::index_sequence_for<Ts...>{});
}

template <std::size_t N>
void chk_tuple_n(seq const &s)
{
  constexpr char const *kn = "tuple";
  if (s.size() != N)
    return;
  if (!start(kn, s))
    return;
  using T = TUP<N>;
  holder<T> h(s);
  T &t = h.c;
  for (unsigned m = 0; m < 27; ++m)
  {
    vf::operands(m);
    seq visits, want;
    for (int e : s)
      want.push_back(M(m, e));
    lib();
    auto const got = fcppt::tuple::map(std::as_const(t), [&](auto const &e) {
      visits.push_back(val(e));
      return static_cast<std::remove_cvref_t<decltype(e)>>(M(m, val(e)));
    });
    static_assert(std::is_same_v<std::remove_cvref_t<decltype(got)>, T>); // element types are kept in place
    expect(tuple_seq(got), want, "tuple::map", kn, "result", par("map", m));
    expect(visits, s, "tuple::map", kn, "visits", par("map", m));
    if (m % 9 == 4)
    {
      seq v2;
      lib();
      auto const got2 = fcppt::tuple::map(T(t), [&](auto &&e) {
        v2.push_back(val(e));
        return static_cast<long>(M(m, val(e)));
      });
      expect(tuple_seq(got2), want, "tuple::map", kn, "result-rvalue", par("map", m));
      expect(v2, s, "tuple::map", kn, "visits-rvalue", par("map", m));
      lib();
      auto const got3 = fcppt::algorithm::map<T>(std::as_const(t), [&](auto const &e) {
        return static_cast<std::remove_cvref_t<decltype(e)>>(M(m, val(e)));
      });
      expect(tuple_seq(got3), want, "map->tuple", kn, "result", par("map", m));
    }
  }
  VF_COUNT("judged/tuple::map");
  for (int v = 0; v < 3; ++v)
  {
    seq want = s;
    want.push_back(v);
    lib();
    auto const got = fcppt::tuple::push_back(std::as_const(t), static_cast<short>(v));
    expect(tuple_seq(got), want, "tuple::push_back", kn, "result");
    expect(tuple_seq(t), s, "tuple::push_back", kn, "source-modified");
    lib();
    long const lv = v;
    auto const got2 = fcppt::tuple::push_back(T(t), lv);
    expect(tuple_seq(got2), want, "tuple::push_back", kn, "result-rvalue");
    static_assert(std::tuple_size_v<typename std::remove_cvref_t<decltype(got2)>::impl_type> == N + 1);
    static_assert(std::is_same_v<std::tuple_element_t<N, typename std::remove_cvref_t<decltype(got2)>::impl_type>, long>);
  }
  VF_COUNT("judged/tuple::push_back");
  // observed: init, apply, invoke, make, from_array
  {
    seq order;
    auto const ti = fcppt::tuple::init<T>([&]<std::size_t I>(std::integral_constant<std::size_t, I>) {
      order.push_back(static_cast<int>(I));
      return static_cast<typename tt<I>::type>(s[I]);
    });
    auto const ap = fcppt::tuple::apply([](auto a, auto b) { return static_cast<int>(a) * 3 + static_cast<int>(b); }, T(t), T(ti));
    seq want;
    for (int e : s)
      want.push_back(e * 3 + e);
    int const sum = fcppt::tuple::invoke([](auto... x) { return (0 + ... + static_cast<int>(x)); }, t);
    int wsum = 0;
    for (int e : s)
      wsum += e;
    VF_COUNT("observed/tuple::init,apply,invoke/calls");
    if (tuple_seq(ti) != s || tuple_seq(ap) != want || sum != wsum || !std::is_sorted(order.begin(), order.end()))
      vf::observation("tuple::init/apply/invoke differ from the element-wise expectation on " + show(s));
  }
  finish();
}

template <std::size_t N1, std::size_t N2>
void chk_tuple_concat(seq const &s)
{
  if (s.size() != N1 + N2)
    return;
  constexpr char const *kn = "tuple";
  if (!vf::begin_case("src=tuple sizes=%zu+%zu seq=%s", N1, N2, show(s).c_str()))
    return;
  vf::sample_case(1);
  std::size_t const nn[2] = {N1, N2};
  vf::note_distinct(vf::hash_mix(case_hash(kn, s.data(), s.size() * sizeof(int)), vf::hash_bytes(nn, sizeof nn)));
  g_calls = 0;
  seq const s1(s.begin(), s.begin() + static_cast<std::ptrdiff_t>(N1)), s2(s.begin() + static_cast<std::ptrdiff_t>(N1), s.end());
  holder<TUP<N1>> h1(s1);
  holder<TUP<N2>> h2(s2);
  if (N1 == 0 || N2 == 0)
    VF_COUNT("tuple::concat/an-empty-operand");
  else
    VF_COUNT("tuple::concat/non-empty-operands");
  // (only rvalue operands compile, see the report)
  lib();
  auto const got = fcppt::tuple::concat(TUP<N1>(h1.c), TUP<N2>(h2.c));
  static_assert(std::tuple_size_v<typename std::remove_cvref_t<decltype(got)>::impl_type> == N1 + N2);
  expect(tuple_seq(got), s, "tuple::concat", kn, "two-operands");
  lib();
  auto const got3 = fcppt::tuple::concat(TUP<N1>(h1.c), TUP<0>{}, TUP<N2>(h2.c), TUP<N1>(h1.c));
  seq want3 = s;
  want3.insert(want3.end(), s1.begin(), s1.end());
  expect(tuple_seq(got3), want3, "tuple::concat", kn, "four-operands");
  lib();
  auto const got1 = fcppt::tuple::concat(TUP<N1>(h1.c));
  expect(tuple_seq(got1), s1, "tuple::concat", kn, "single-operand");
  VF_COUNT("judged/tuple::concat");
  finish();
}
} // namespace

// ================================================================== registry, cut into slices
#if VF_IN_SLICE(0)
void vf_slice_0()
{
  run_everything("algorithm/loop_break", LIFT(chk_loop_break));
  run_everything("algorithm/loop", LIFT(chk_loop));
}
#endif
#if VF_IN_SLICE(1)
void vf_slice_1()
{
  run_everything("algorithm/fold", LIFT(chk_fold));
  run_everything("algorithm/fold_break", LIFT(chk_fold_break));
}
#endif
#if VF_IN_SLICE(2)
void vf_slice_2()
{
  run_everything("algorithm/all_of", LIFT(chk_all_of));
  run_everything("algorithm/contains_if", LIFT(chk_contains_if));
  run(int_dyn{}, "algorithm/contains", L(), LIFT(chk_contains));
  run_statics("algorithm/contains", LIFT(chk_contains));
  run_ranges("algorithm/contains", LIFT(chk_contains));
}
#endif
#if VF_IN_SLICE(3)
void vf_slice_3()
{
  run(int_dyn{}, "algorithm/find_opt", L(), LIFT(chk_find_opt));
  run_statics("algorithm/find_opt", LIFT(chk_find_opt));
  run_ranges("algorithm/find_opt", LIFT(chk_find_opt));
  run(kinds<k_vec, k_list, k_deque, k_flist, k_set, k_mset, k_map>{}, "algorithm/find_if_opt", L(), LIFT(chk_find_if_opt));
  run_statics("algorithm/find_if_opt", LIFT(chk_find_if_opt));
  run_ranges("algorithm/find_if_opt", LIFT(chk_find_if_opt));
}
#endif
#if VF_IN_SLICE(4)
void vf_slice_4()
{
  unsigned const l = vf::tier(5U, 6U); // 64 partial maps per sequence
  run(kinds<k_vec, k_list, k_deque, k_flist, k_set, k_mset, k_map, input_range>{}, "algorithm/find_by_opt", l, LIFT(chk_find_by_opt));
  run_statics("algorithm/find_by_opt", LIFT(chk_find_by_opt));
  run_ranges("algorithm/find_by_opt", LIFT(chk_find_by_opt));
  run(kinds<k_vec, k_deque>{}, "algorithm/index_of", L(), LIFT(chk_index_of));
  run_statics("algorithm/index_of", LIFT(chk_index_of));
}
#endif
#if VF_IN_SLICE(5)
void vf_slice_5()
{
  run(kinds<k_vec, k_list, k_deque, k_set, k_mset>{}, "algorithm/binary_search,equal_range", L(), LIFT(chk_sorted_search));
  run_statics("algorithm/binary_search,equal_range", LIFT(chk_sorted_search));
  run(int_dyn{}, "observed/algorithm/equal", 5, LIFT(obs_equal));
}
#endif
#if VF_IN_SLICE(6)
void vf_slice_6()
{
  run_everything("algorithm/map->vector", [](char const *kn, auto &c, seq const &r) { chk_map_to<std::vector<int>>(kn, c, r); });
}
#endif
#if VF_IN_SLICE(7)
void vf_slice_7()
{
  run(all_dyn{}, "algorithm/map->list", L(), [](char const *kn, auto &c, seq const &r) { chk_map_to<std::list<int>>(kn, c, r); });
  run(all_dyn{}, "algorithm/map->set", L(), [](char const *kn, auto &c, seq const &r) { chk_map_to<std::set<int>>(kn, c, r); });
  run(kinds<k_vec, k_flist, input_range>{}, "algorithm/map->deque", L(), [](char const *kn, auto &c, seq const &r) { chk_map_to<std::deque<int>>(kn, c, r); });
  run(kinds<k_vec, k_flist, input_range>{}, "algorithm/map->multiset", L(), [](char const *kn, auto &c, seq const &r) { chk_map_to<std::multiset<int>>(kn, c, r); });
}
#endif
#if VF_IN_SLICE(8)
void vf_slice_8()
{
  unsigned const l = vf::tier(5U, 6U); // 64 partial maps per sequence
  auto to_vec = [](char const *kn, auto &c, seq const &r) { chk_map_optional_to<std::vector<int>>(kn, c, r); };
  run(all_dyn{}, "algorithm/map_optional->vector", l, to_vec);
  run_statics("algorithm/map_optional->vector", to_vec);
  run_ranges("algorithm/map_optional->vector", to_vec);
  run(kinds<k_vec, k_list, input_range>{}, "algorithm/map_optional->set", l, [](char const *kn, auto &c, seq const &r) { chk_map_optional_to<std::set<int>>(kn, c, r); });
  run(kinds<k_vec, k_set, input_range>{}, "algorithm/map_optional->list", l, [](char const *kn, auto &c, seq const &r) { chk_map_optional_to<std::list<int>>(kn, c, r); });
}
#endif
#if VF_IN_SLICE(9)
void vf_slice_9()
{
  auto to_vec = [](char const *kn, auto &c, seq const &r) { chk_map_concat_to<std::vector<int>>(kn, c, r); };
  run(all_dyn{}, "algorithm/map_concat->vector", L(), to_vec);
  run_statics("algorithm/map_concat->vector", to_vec);
  run_ranges("algorithm/map_concat->vector", to_vec);
  run(kinds<k_vec, k_list, input_range>{}, "algorithm/map_concat->list", L(), [](char const *kn, auto &c, seq const &r) { chk_map_concat_to<std::list<int>>(kn, c, r); });
  run(kinds<k_vec, k_mset, input_range>{}, "algorithm/map_concat->set", L(), [](char const *kn, auto &c, seq const &r) { chk_map_concat_to<std::set<int>>(kn, c, r); });
  for_seqs("algorithm/generate_n", L(), [](seq const &s) {
    chk_generate_n<std::vector<int>>("->vector", s);
    chk_generate_n<std::list<int>>("->list", s);
    chk_generate_n<std::deque<int>>("->deque", s);
    chk_generate_n<std::set<int>>("->set", s);
    chk_generate_n<std::multiset<int>>("->multiset", s);
  }, true);
  if (vf::entry_enabled("algorithm/repeat"))
  {
    vf::set_entry("algorithm/repeat");
    std::uint64_t idx = 0;
    for (long long n = -3; n <= 9; ++n)
    {
      if (!vf::mine(idx++))
        continue;
      chk_repeat<int>("int", n);
      chk_repeat<long>("long", n);
      chk_repeat<short>("short", n);
      chk_repeat<signed char>("signed char", n);
      chk_repeat<long long>("long long", n);
      if (n >= 0)
      {
        chk_repeat<unsigned>("unsigned", n);
        chk_repeat<std::size_t>("size_t", n);
        chk_repeat<unsigned char>("unsigned char", n);
        chk_repeat<unsigned short>("unsigned short", n);
      }
    }
    if (vf::mine(idx++))
    {
      chk_repeat<signed char>("signed char", 127);
      chk_repeat<signed char>("signed char", -128);
      chk_repeat<unsigned char>("unsigned char", 255);
      chk_repeat<short>("short", 32767);
      chk_repeat<unsigned short>("unsigned short", 65535);
      chk_repeat<int>("int", 100000);
    }
  }
}
#endif
#if VF_IN_SLICE(10)
void vf_slice_10()
{
  run(seq_rw{}, "algorithm/remove,remove_if", L(), LIFT(chk_remove));
  unsigned const obs = vf::tier(3U, 4U);
  run(seq_rw{}, "algorithm/unique,unique_if", L(), [obs](char const *kn, auto &c, seq const &r) { chk_unique(kn, c, r, obs); });
  run(seq_rw{}, "algorithm/reverse", L(), LIFT(chk_reverse));
  run_statics("algorithm/reverse", LIFT(chk_reverse));
}
#endif
#if VF_IN_SLICE(11)
void vf_slice_11()
{
  run(seq_rw{}, "algorithm/sequence_iteration", L(), LIFT(chk_sequence_iteration));
  for_seqs("algorithm/map_iteration", L(), [](seq const &s) {
    chk_map_iteration<std::map<int, int>>(s);
    chk_map_iteration<std::multimap<int, int>>(s);
    chk_map_iteration<std::unordered_map<int, int>>(s);
  }, true);
}
#endif
#if VF_IN_SLICE(12)
void vf_slice_12()
{
  unsigned const sl = vf::tier(7U, 8U);
  for_strings<std::string>("algorithm/split_string,join_strings", "std::string", sl, {'a', 'b', ','},
              [](seq const &code, std::string const &s) { chk_split("std::string", code, s, ',', true); });
  for_strings<std::wstring>("algorithm/split_string,join_strings", "std::wstring", sl, {L'x', L'y', L'\n'},
              [](seq const &code, std::wstring const &s) { chk_split("std::wstring", code, s, L'\n', true); });
  for_strings<std::vector<int>>("algorithm/split_string", "vector<int>", 6, {0, 1, 2},
              [](seq const &code, std::vector<int> const &s) { chk_split("vector<int>", code, s, 2, false); });
  for_strings<std::list<char>>("algorithm/split_string", "list<char>", 6, {'a', 'b', '/'},
              [](seq const &code, std::list<char> const &s) { chk_split("list<char>", code, s, '/', false); });
  // join_strings on arbitrary field lists (fields may contain the delimiter), delimiters of length 0, 1, 2
  if (vf::entry_enabled("algorithm/join_strings"))
  {
    vf::set_entry("algorithm/join_strings");
    static char const *const F[4] = {"", "a", "b,", ","};
    static char const *const D[3] = {"", ",", "ab"};
    std::uint64_t idx = 0;
    unsigned const maxn = vf::tier(4U, 5U);
    for (unsigned n = 0; n <= maxn; ++n)
      for (unsigned code = 0; code < (1U << (2 * n)); ++code)
      {
        if (!vf::mine(idx++))
          continue;
        std::vector<std::string> fields;
        for (unsigned i = 0; i < n; ++i)
          fields.emplace_back(F[(code >> (2 * i)) & 3U]);
        if (!vf::begin_case("fields=%s", show(fields).c_str()))
          continue;
        vf::sample_case(1);
        unsigned const nc[2] = {n, code};
        vf::note_distinct(case_hash("fields", nc, sizeof nc));
        g_calls = 0;
        if (n == 0)
          VF_COUNT("join_strings/no-fields");
        else if (n == 1)
          VF_COUNT("join_strings/one-field");
        else
          VF_COUNT("join_strings/several-fields");
        for (char const *d : D)
        {
          chk_join_strings<std::vector<std::string>>("vector<string>", fields, d);
          chk_join_strings<std::list<std::string>>("list<string>", fields, d);
          chk_join_strings<std::deque<std::string>>("deque<string>", fields, d);
          chk_join_strings<std::multiset<std::string>>("multiset<string>", fields, d);
        }
        finish();
      }
  }
}
#endif
#if VF_IN_SLICE(13)
namespace
{
// int_range over NARROW integer types whose element count exceeds the type's own maximum ([-100,100) over signed char has
// 200 elements): the algorithms return what the plain loop returns (the range's own size() is C18's subject)
template <class I>
void narrow_range_one(char const *tn, long long b, long long e)
{
  if (!vf::begin_case("int_range<%s>[%lld,%lld)", tn, b, e))
    return;
  vf::sample_case(1);
  vf::note_distinct(vf::hash_mix(vf::hash_str(tn), static_cast<std::uint64_t>(b * 100003 + e)));
  seq want;
  for (long long i = b; i < e; ++i)
    want.push_back(static_cast<int>(i));
  auto const range = fcppt::make_int_range(static_cast<I>(b), static_cast<I>(e));
  std::string const kn = std::string("int_range<") + tn + ">";
  if (static_cast<long long>(want.size()) > static_cast<long long>(std::numeric_limits<I>::max()))
    VF_COUNT("narrow-int-range/more-elements-than-the-type-holds");
  lib();
  auto const v = fcppt::algorithm::map<std::vector<int>>(range, [](I const i) { return static_cast<int>(i); });
  expect(seq(v.begin(), v.end()), want, "map", kn.c_str(), "to-vector(reserves)");
  lib();
  auto const d = fcppt::algorithm::map<std::deque<int>>(range, [](I const i) { return static_cast<int>(i); });
  expect(seq(d.begin(), d.end()), want, "map", kn.c_str(), "to-deque");
  lib();
  auto const mo = fcppt::algorithm::map_optional<std::vector<int>>(range, [](I const i) {
    return fcppt::optional::make_if(i % 2 == 0, [i] { return static_cast<int>(i); });
  });
  seq want_even;
  for (int x : want)
    if (x % 2 == 0)
      want_even.push_back(x);
  expect(seq(mo.begin(), mo.end()), want_even, "map_optional", kn.c_str(), "to-vector");
  lib();
  long const sum = fcppt::algorithm::fold(range, 0L, [](I const i, long const acc) { return acc + static_cast<long>(i); });
  long wsum = 0;
  for (int x : want)
    wsum += x;
  expect(sum, wsum, "fold", kn.c_str(), "sum");
  lib();
  seq visited;
  fcppt::algorithm::loop(range, [&visited](I const i) { visited.push_back(static_cast<int>(i)); });
  expect(visited, want, "loop", kn.c_str(), "visits");
  lib();
  auto const mc = fcppt::algorithm::map_concat<std::vector<int>>(range, [](I const i) { return std::vector<int>{static_cast<int>(i)}; });
  expect(seq(mc.begin(), mc.end()), want, "map_concat", kn.c_str(), "to-vector");
  VF_COUNT("judged/narrow-int-ranges");
  finish();
}
template <class I>
void narrow_ranges(char const *tn)
{
  long long const lo = std::numeric_limits<I>::min(), hi = std::numeric_limits<I>::max();
  std::vector<long long> pts{lo, lo + 1, lo + 28, -1, 0, 1, hi - 27, hi - 1, hi};
  std::uint64_t idx = 0;
  for (long long b : pts)
    for (long long e : pts)
      if (b >= lo && e <= hi && b <= e && e - b <= 70000 && vf::mine(idx++))
        narrow_range_one<I>(tn, b, e);
}
// ---- single-pass input ranges supplied by the user.  (a) std::istream_iterator keeps the current value INSIDE the iterator
// and hands out a reference to it; (b) an iterator over a shared queue consumes an element when it is incremented.  The
// obvious loop  for (auto &&x : range) { body(x); }  dereferences, runs the body, and only then increments - and does not
// increment after a break.
struct istream_range
{
  // (the member types a range usually has - code that asks a range for them must find them)
  using iterator = std::istream_iterator<int>;
  using const_iterator = iterator;
  using value_type = int;
  using size_type = std::size_t;
  using difference_type = std::ptrdiff_t;
  std::istringstream *in;
  std::istream_iterator<int> begin() const { return std::istream_iterator<int>(*in); }
  std::istream_iterator<int> end() const { return std::istream_iterator<int>(); }
};
struct queue_iter
{
  using iterator_category = std::input_iterator_tag;
  using value_type = int;
  using difference_type = std::ptrdiff_t;
  using pointer = int const *;
  using reference = int const &;
  std::deque<int> *q = nullptr; // nullptr: the end iterator
  int const &operator*() const { return q->front(); }
  queue_iter &operator++()
  {
    q->pop_front();
    return *this;
  }
  void operator++(int) { q->pop_front(); }
  bool at_end() const { return q == nullptr || q->empty(); }
  friend bool operator==(queue_iter const &a, queue_iter const &b) { return a.at_end() == b.at_end(); }
  friend bool operator!=(queue_iter const &a, queue_iter const &b) { return a.at_end() != b.at_end(); }
};
struct queue_range
{
  using iterator = queue_iter;
  using const_iterator = queue_iter;
  using value_type = int;
  using size_type = std::size_t;
  using difference_type = std::ptrdiff_t;
  std::deque<int> *q;
  queue_iter begin() const { return queue_iter{q}; }
  queue_iter end() const { return queue_iter{}; }
};
void chk_single_pass(seq const &r)
{
  if (!start("single-pass-input-range", r))
    return;
  std::string text;
  for (int v : r)
    text += std::to_string(v) + " ";
  auto const fresh = [&text](std::istringstream &is) {
    is.clear();
    is.str(text);
    return istream_range{&is};
  };
  std::istringstream is;
  {
    lib();
    seq visits;
    fcppt::algorithm::loop(fresh(is), [&visits](int const &e) { visits.push_back(e); });
    expect(visits, r, "loop", "istream_iterator", "visits");
  }
  {
    lib();
    std::uint64_t const got = fcppt::algorithm::fold(fresh(is), std::uint64_t{7}, [](int const &e, std::uint64_t const st) { return st * 5U + static_cast<std::uint64_t>(e) + 1U; });
    std::uint64_t want = 7;
    for (int v : r)
      want = want * 5U + static_cast<std::uint64_t>(v) + 1U;
    expect(got, want, "fold", "istream_iterator", "value");
  }
  {
    lib();
    auto const got = fcppt::algorithm::map<std::vector<int>>(fresh(is), [](int const &e) { return e * 10; });
    seq want;
    for (int v : r)
      want.push_back(v * 10);
    expect(seq(got.begin(), got.end()), want, "map", "istream_iterator", "value");
  }
  {
    // a target with reserve() and a source without size(): the source is walked ONCE (counting it first would use it up)
    lib();
    unsigned calls = 0;
    auto const got = fcppt::algorithm::map_optional<std::vector<int>>(fresh(is), [&calls](int const &e) {
      ++calls;
      return fcppt::optional::make_if(e != 1, [e] { return e + 100; });
    });
    seq want;
    for (int v : r)
      if (v != 1)
        want.push_back(v + 100);
    expect(seq(got.begin(), got.end()), want, "map_optional", "istream_iterator", "value");
    expect(calls, static_cast<unsigned>(r.size()), "map_optional", "istream_iterator", "calls");
    std::deque<int> q(r.begin(), r.end());
    lib();
    auto const got_q = fcppt::algorithm::map_optional<std::vector<int>>(queue_range{&q}, [](int const &e) { return fcppt::optional::make_if(e != 1, [e] { return e + 100; }); });
    expect(seq(got_q.begin(), got_q.end()), want, "map_optional", "shared-queue", "value");
    std::deque<int> q2(r.begin(), r.end());
    lib();
    auto const got_c = fcppt::algorithm::map_concat<std::vector<int>>(queue_range{&q2}, [](int const &e) { return std::vector<int>{e, e}; });
    seq want_c;
    for (int v : r)
    {
      want_c.push_back(v);
      want_c.push_back(v);
    }
    expect(seq(got_c.begin(), got_c.end()), want_c, "map_concat", "shared-queue", "value");
  }
  for (int probe = 0; probe < 3; ++probe)
  {
    lib();
    bool const got = fcppt::algorithm::contains_if(fresh(is), [probe](int const &e) { return e == probe; });
    expect(got, std::find(r.begin(), r.end(), probe) != r.end(), "contains_if", "istream_iterator", "value", par("probe", static_cast<unsigned>(probe)));
  }
  // a break at position k of a shared source: the elements from k on are still in the source
  for (std::size_t k = 0; k <= r.size(); ++k)
  {
    std::deque<int> q(r.begin(), r.end());
    seq visits;
    std::size_t i = 0;
    lib();
    fcppt::algorithm::loop_break(queue_range{&q}, [&](int const &e) {
      visits.push_back(e);
      return i++ == k ? loop::break_ : loop::continue_;
    });
    seq const want_visits(r.begin(), r.begin() + static_cast<std::ptrdiff_t>(std::min(k + 1, r.size())));
    seq const want_left(r.begin() + static_cast<std::ptrdiff_t>(std::min(k, r.size())), r.end());
    expect(visits, want_visits, "loop_break", "shared-queue", "visits", par("break-at", static_cast<unsigned>(k)));
    expect(seq(q.begin(), q.end()), want_left, "loop_break", "shared-queue", "left-in-the-source-after-the-break", par("break-at", static_cast<unsigned>(k)));
    std::deque<int> q2(r.begin(), r.end());
    std::size_t j = 0;
    lib();
    std::uint64_t const got = fcppt::algorithm::fold_break(queue_range{&q2}, std::uint64_t{3}, [&](int const &e, std::uint64_t const st) {
      return std::make_pair(j++ == k ? loop::break_ : loop::continue_, st * 5U + static_cast<std::uint64_t>(e) + 1U);
    });
    std::uint64_t want = 3;
    for (std::size_t m = 0; m < std::min(k + 1, r.size()); ++m)
      want = want * 5U + static_cast<std::uint64_t>(r[m]) + 1U;
    expect(got, want, "fold_break", "shared-queue", "value", par("break-at", static_cast<unsigned>(k)));
    expect(seq(q2.begin(), q2.end()), want_left, "fold_break", "shared-queue", "left-in-the-source-after-the-break", par("break-at", static_cast<unsigned>(k)));
  }
  VF_COUNT("judged/single-pass-input-ranges");
  finish();
}
// fold_break whose step hands the state back BY REFERENCE inside the pair (an in-place accumulator: std::pair<loop, State &&>)
void chk_fold_break_state_by_reference(seq const &r)
{
  if (!start("fold_break-state-by-reference", r))
    return;
  for (std::size_t k = 0; k <= r.size(); ++k)
  {
    std::size_t i = 0;
    lib();
    std::vector<int> const got = fcppt::algorithm::fold_break(r, std::vector<int>{}, [&](int const e, std::vector<int> &&st) {
      st.push_back(e * e);
      return std::pair<loop, std::vector<int> &&>(i++ == k ? loop::break_ : loop::continue_, std::move(st));
    });
    seq want;
    for (std::size_t m = 0; m < std::min(k + 1, r.size()); ++m)
      want.push_back(r[m] * r[m]);
    expect(seq(got.begin(), got.end()), want, "fold_break", "state-by-reference", "value", par("break-at", static_cast<unsigned>(k)));
  }
  VF_COUNT("judged/fold_break-state-by-reference");
  finish();
}

void chk_narrow_int_ranges()
{
  std::string const entry = "algorithm/narrow-int-ranges";
  if (!vf::entry_enabled(entry))
    return;
  vf::set_entry(entry);
  narrow_ranges<signed char>("signed char");
  narrow_ranges<unsigned char>("unsigned char");
  narrow_ranges<short>("short");
}
}
#endif
#if VF_IN_SLICE(13)
void vf_slice_13()
{
  run(seq_rw{}, "container/join", L(), LIFT(chk_container_join));
  for_seqs("container/join(strings)", std::min(L(), 5U), [](seq const &s) {
    chk_container_join_strings<std::vector<std::string>>("vector<string>", s);
    chk_container_join_strings<std::list<std::string>>("list<string>", s);
    chk_container_join_strings<std::deque<std::string>>("deque<string>", s);
  }, true);
  for_seqs("container/join(associative)", L(), [](seq const &s) {
    chk_container_join_assoc<std::set<int>>("set", s);
    chk_container_join_assoc<std::multiset<int>>("multiset", s);
    chk_container_join_assoc<std::map<int, int>>("map", s);
    chk_container_join_stateful(s);
    chk_container_join_any<std::list<std::any>>("list<any>", s);
    chk_container_join_any<std::vector<std::any>>("vector<any>", s);
  }, true);
  chk_narrow_int_ranges();
  for_seqs("algorithm/single-pass-input-ranges", std::min(L(), 5U), [](seq const &s) { chk_single_pass(s); });
  for_seqs("algorithm/fold_break-state-by-reference", std::min(L(), 5U), [](seq const &s) { chk_fold_break_state_by_reference(s); });
  run(kinds<k_vec, k_deque>{}, "container/at_optional", L(), LIFT(chk_at_optional));
  run_statics("container/at_optional", LIFT(chk_at_optional));
}
#endif
#if VF_IN_SLICE(14)
void vf_slice_14()
{
  for_seqs("container/find_opt_mapped,get_or_insert", L(), [](seq const &s) {
    chk_map_lookup<std::map<int, int>>(s);
    chk_map_lookup<std::unordered_map<int, int>>(s);
  }, true);
  for_seqs("container/key_set", L(), [](seq const &s) {
    chk_key_set<std::map<int, int>, std::set<int>>("map->set", s);
    chk_key_set<std::multimap<int, int>, std::set<int>>("multimap->set", s);
    chk_key_set<std::unordered_map<int, int>, std::unordered_set<int>>("unordered_map->unordered_set", s);
    chk_key_set<std::map<int, int>, std::multiset<int>>("map->multiset", s);
  }, true);
  for_seqs("container/map_values_copy,map_values_ref", L(), [](seq const &s) {
    chk_map_values<std::map<int, int>>(s);
    chk_map_values<std::multimap<int, int>>(s);
    chk_map_values<std::unordered_map<int, int>>(s);
  }, true);
  chk_set_ops(vf::tier(5U, 6U));
  // observed neighbours
  for_seqs("observed/container,range", 4, [](seq const &s) {
    if (!start("vector", s))
      return;
    std::vector<int> v(s.begin(), s.end());
    auto const f = fcppt::container::maybe_front(v);
    auto const b = fcppt::container::maybe_back(v);
    bool ok = f.has_value() == !s.empty() && b.has_value() == !s.empty();
    if (ok && !s.empty())
      ok = &f.get_unsafe().get() == &v.front() && &b.get_unsafe().get() == &v.back();
    ok = ok && fcppt::range::empty(v) == s.empty() && fcppt::range::singular(v) == (s.size() == 1) &&
         fcppt::range::size(v) == s.size();
    VF_COUNT("observed/container,range/calls");
    if (!ok)
      vf::observation("maybe_front/maybe_back/range::empty/singular/size differ from the expectation on " + show(s));
    finish();
  });
}
#endif
#if VF_IN_SLICE(15)
void vf_slice_15()
{
  for_seqs("array/init,map,push_back,from_range", static_max, [](seq const &s) {
    [&]<std::size_t... N>(std::index_sequence<N...>) { (chk_array_n<N>(s), ...); }
    (std::make_index_sequence<static_max + 1>{});
  });
}
#endif
#if VF_IN_SLICE(16)
void vf_slice_16()
{
  // all cuts of sequences up to length 5 (and a few of length 6)
  for_seqs("array/append,join", static_max, [](seq const &s) {
    [&]<std::size_t... N>(std::index_sequence<N...>)
    {
      auto cuts = [&]<std::size_t T>(std::integral_constant<std::size_t, T>) {
        [&]<std::size_t... K>(std::index_sequence<K...>) { (chk_array_append<K, T - K>(s), ...); }
        (std::make_index_sequence<T + 1>{});
      };
      (cuts(std::integral_constant<std::size_t, N>{}), ...);
    }
    (std::make_index_sequence<6>{});
    chk_array_append<3, 3>(s);
    chk_array_append<0, 6>(s);
    chk_array_append<6, 0>(s);
    chk_array_append<1, 5>(s);
  });
}
#endif
#if VF_IN_SLICE(17)
// index_map: a vector that grows on access. Reference: std::vector; get(i, f) calls f exactly max(0, i + 1 - size) times, in
// order, appends the results, and returns a reference to element i; operator[] is get with a value-initialising f.
void chk_index_map(std::uint64_t h)
{
  vf::rng g(vf::seed_for("container/index_map", h));
  unsigned const steps = 1 + static_cast<unsigned>(g.below(10));
  std::string text;
  std::vector<unsigned> plan;
  for (unsigned i = 0; i < steps; ++i)
  {
    unsigned const op = static_cast<unsigned>(g.below(3)), at = static_cast<unsigned>(g.below(9));
    plan.push_back(op * 16 + at);
    text += " " + std::to_string(op) + ":" + std::to_string(at);
  }
  if (!vf::begin_case("index_map history%s", text.c_str()))
    return;
  vf::sample_case(1);
  vf::note_distinct(vf::hash_str("index_map" + text));
  fcppt::container::index_map<int> m;
  std::vector<int> ref;
  int next = 100;
  for (unsigned code : plan)
  {
    unsigned const op = code / 16, at = code % 16;
    std::size_t const before = ref.size();
    if (op == 0)
    {
      unsigned calls = 0;
      lib();
      int &r = m.get(at, fcppt::container::index_map<int>::insert_function{[&] { ++calls; return next++; }});
      unsigned const want_calls = at >= before ? static_cast<unsigned>(at + 1 - before) : 0U;
      for (unsigned k = 0; k < want_calls; ++k)
        ref.push_back(next - static_cast<int>(want_calls) + static_cast<int>(k));
      if (at >= before)
        VF_COUNT("index_map/get/grew");
      else
        VF_COUNT("index_map/get/present");
      expect(calls, want_calls, "index_map::get", "int", "insert-function-call-count");
      expect(&r == &m.impl()[at], true, "index_map::get", "int", "returned-reference");
    }
    else if (op == 1)
    {
      lib();
      int &r = m[at];
      while (ref.size() <= at)
        ref.push_back(0);
      VF_COUNT("index_map/subscript");
      expect(&r == &m.impl()[at], true, "index_map::operator[]", "int", "returned-reference");
    }
    else
    {
      lib();
      m[at] = next; // a write through the returned reference stays
      while (ref.size() <= at)
        ref.push_back(0);
      ref[at] = next++;
      VF_COUNT("index_map/write-through-reference");
    }
    expect(seq(m.impl().begin(), m.impl().end()), seq(ref.begin(), ref.end()), "index_map", "int", "contents");
  }
  VF_COUNT("judged/index_map");
}

void vf_slice_17()
{
  if (vf::entry_enabled("container/index_map"))
  {
    vf::set_entry("container/index_map");
    std::uint64_t const n = vf::tier<std::uint64_t>(3000, 200000);
    for (std::uint64_t h = 0; h < n; ++h)
      if (vf::mine(h))
        chk_index_map(h);
  }
  for_seqs("tuple/map,push_back", tuple_max, [](seq const &s) {
    [&]<std::size_t... N>(std::index_sequence<N...>) { (chk_tuple_n<N>(s), ...); }
    (std::make_index_sequence<tuple_max + 1>{});
  });
  for_seqs("tuple/concat", tuple_max, [](seq const &s) {
    [&]<std::size_t... N>(std::index_sequence<N...>)
    {
      auto cuts = [&]<std::size_t T>(std::integral_constant<std::size_t, T>) {
        [&]<std::size_t... K>(std::index_sequence<K...>) { (chk_tuple_concat<K, T - K>(s), ...); }
        (std::make_index_sequence<T + 1>{});
      };
      (cuts(std::integral_constant<std::size_t, N>{}), ...);
    }
    (std::make_index_sequence<tuple_max + 1>{});
  });
}
#endif

#if VF_SLICE < 0
#define VF_NUM_SLICES 18
void vf_slice_0();
void vf_slice_1();
void vf_slice_2();
void vf_slice_3();
void vf_slice_4();
void vf_slice_5();
void vf_slice_6();
void vf_slice_7();
void vf_slice_8();
void vf_slice_9();
void vf_slice_10();
void vf_slice_11();
void vf_slice_12();
void vf_slice_13();
void vf_slice_14();
void vf_slice_15();
void vf_slice_16();
void vf_slice_17();
namespace
{
void body()
{
  for (char const *b :
       {// every function the statement enumerates must have been judged at least once
        "judged/map", "judged/map_optional", "judged/map_concat", "judged/fold", "judged/fold_break", "judged/loop",
        "judged/loop_break", "judged/all_of", "judged/contains", "judged/contains_if", "judged/find_opt",
        "judged/find_if_opt", "judged/find_by_opt", "judged/index_of", "judged/binary_search", "judged/equal_range",
        "judged/remove", "judged/remove_if", "judged/unique", "judged/unique_if", "judged/reverse", "judged/repeat",
        "judged/generate_n", "judged/split_string", "judged/join_strings", "judged/map_iteration",
        "judged/sequence_iteration", "judged/join", "judged/at_optional", "judged/find_opt_mapped",
        "judged/get_or_insert", "judged/key_set", "judged/map_values", "judged/set_union", "judged/set_intersection",
        "judged/set_difference", "judged/array::map", "judged/array::join", "judged/array::append",
        "judged/array::push_back", "judged/array::init", "judged/array::from_range", "judged/tuple::map",
        "judged/tuple::concat", "judged/tuple::push_back", "judged/index_map", "index_map/get/grew", "index_map/get/present",
        // the boundary shapes the property is about
        "shape/empty-input", "shape/non-empty-input", "shape/empty-range", "shape/int_range-end-before-begin",
        "loop_break/stopped-before-end", "loop_break/ran-to-end", "fold_break/stopped-before-end",
        "fold_break/stopped-at-last", "fold_break/ran-to-end", "all_of/true", "all_of/false", "contains_if/true",
        "contains_if/false", "contains/true", "contains/false", "find_opt/absent", "find_opt/several-occurrences",
        "find_if_opt/found", "find_if_opt/absent", "find_by_opt/found", "find_by_opt/absent", "index_of/absent",
        "index_of/found-at-last", "index_of/found-before-last", "sorted_search/sorted-input",
        "sorted_search/unsorted-but-partitioned-input", "binary_search/exactly-one", "binary_search/duplicates",
        "binary_search/absent", "map_optional/all-dropped", "map_optional/all-kept", "map_optional/some-dropped",
        "map_concat/all-parts-empty", "remove/nothing-removed", "remove/everything-removed", "remove/some-removed", "remove/value-aliases-element",
        "unique/nothing-removed", "unique/something-removed", "repeat/zero-or-negative-count",
        "sequence_iteration/last-element-erased", "sequence_iteration/all-erased", "map_iteration/last-element-erased",
        "map_iteration/all-erased", "split_string/empty-string", "split_string/no-delimiter",
        "split_string/delimiter-at-both-ends", "split_string/delimiter-at-end", "split_string/delimiter-at-start",
        "split_string/consecutive-delimiters", "join_strings/inverse-of-split", "join_strings/no-fields",
        "join_strings/one-field", "join/an-empty-operand", "join/non-empty-operands", "join/string-lvalues-repeated", "at_optional/in-range",
        "at_optional/index-equals-size", "at_optional/beyond-size", "find_opt_mapped/found", "find_opt_mapped/absent",
        "get_or_insert/found", "get_or_insert/inserted", "get_or_insert/throwing-create", "set_difference/proper-non-empty",
        "set_ops/incomparable-operands", "set_ops/multiset-common-element-with-multiplicity", "array::from_range/size-matches", "array::from_range/source-longer",
        "array::from_range/source-shorter", "array::append/an-empty-operand", "tuple::concat/an-empty-operand",
        "sequence_iteration/throwing-action", "judged/join-stateful-compare", "narrow-int-range/more-elements-than-the-type-holds", "judged/single-pass-input-ranges", "judged/join-any"})
    vf::require_bucket(b);
  vf_slice_0();
  vf_slice_1();
  vf_slice_2();
  vf_slice_3();
  vf_slice_4();
  vf_slice_5();
  vf_slice_6();
  vf_slice_7();
  vf_slice_8();
  vf_slice_9();
  vf_slice_10();
  vf_slice_11();
  vf_slice_12();
  vf_slice_13();
  vf_slice_14();
  vf_slice_15();
  vf_slice_16();
  vf_slice_17();
}
}
VF_MAIN(body)
#endif
