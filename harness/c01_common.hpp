// C01: shared part of the totality harness: exception classification, workload lattices, exactly sized
// heap buffers for string_views and the fault-injecting stream buffers (with their self-test).
#ifndef C01_COMMON_HPP_INCLUDED
#define C01_COMMON_HPP_INCLUDED

#include <vf.hpp>

#include <cxxabi.h>

#include <algorithm>
#include <cstddef>
#include <cstdint>
#include <cstdlib>
#include <exception>
#include <ios>
#include <istream>
#include <limits>
#include <memory>
#include <sstream>
#include <stdexcept>
#include <streambuf>
#include <string>
#include <string_view>
#include <type_traits>
#include <typeinfo>
#include <vector>

namespace c01
{
using i128 = __int128;

// ------------------------------------------------------------------ exception classification
// Thrown by the fault-injecting stream buffers; deliberately not derived from std::exception.
struct injected_fault
{
  std::size_t position;
};

enum : unsigned
{
  wl_none = 0U,
  wl_runtime_error = 1U, // std::runtime_error (is-a)
  wl_ios_failure = 2U,   // std::ios_base::failure (is-a)
  wl_injected = 4U,      // c01::injected_fault
  wl_extra = 8U          // the Extra type given to guard<Extra> (is-a)
};

struct no_extra
{
};

inline std::string current_exception_type()
{
  std::type_info const *t = abi::__cxa_current_exception_type();
  if (t == nullptr)
    return "unknown";
  int status = 0;
  char *d = abi::__cxa_demangle(t->name(), nullptr, nullptr, &status);
  std::string r = (status == 0 && d != nullptr) ? d : t->name();
  std::free(d);
  for (char &c : r)
    if (c == ' ')
      c = '_';
  return r;
}

inline std::uint64_t &item_counter()
{
  static std::uint64_t n = 0;
  return n;
}
// round-robin partitioning over everything that is enumerated, independent of the entry
inline bool my_item() { return vf::mine(item_counter()++); }

// Runs one library call.  The try/catch exists only to CLASSIFY what escapes: the dynamic type is compared with
// the whitelist of the entry; anything else is a violation <entry>/undocumented-exception:<type>.
template <class Extra = no_extra, class F>
bool guard(unsigned const whitelist, F &&f)
{
  try
  {
    f();
    return true;
  }
  catch (...)
  {
    unsigned cat = 0U;
    std::string const tn = current_exception_type();
    std::string what;
    try
    {
      throw;
    }
    catch (Extra const &)
    {
      cat |= wl_extra;
    }
    catch (std::ios_base::failure const &e)
    {
      cat |= wl_ios_failure | wl_runtime_error;
      what = e.what();
    }
    catch (std::runtime_error const &e)
    {
      cat |= wl_runtime_error;
      what = e.what();
    }
    catch (injected_fault const &)
    {
      cat |= wl_injected;
    }
    catch (std::exception const &e)
    {
      what = e.what();
    }
    catch (...)
    {
    }
    vf::count("exceptions/type/" + tn);
    if ((cat & whitelist) != 0U)
      vf::count("exceptions/whitelisted");
    else
      vf::violation(vf::st().entry + "/undocumented-exception:" + tn, "exception", "what=\"" + what + "\"");
    return false;
  }
}

// ------------------------------------------------------------------ integers
template <class T>
char const *tn()
{
  if constexpr (std::is_same_v<T, std::int8_t>)
    return "i8";
  else if constexpr (std::is_same_v<T, std::uint8_t>)
    return "u8";
  else if constexpr (std::is_same_v<T, std::int16_t>)
    return "i16";
  else if constexpr (std::is_same_v<T, std::uint16_t>)
    return "u16";
  else if constexpr (std::is_same_v<T, std::int32_t>)
    return "i32";
  else if constexpr (std::is_same_v<T, std::uint32_t>)
    return "u32";
  else if constexpr (std::is_same_v<T, std::int64_t>)
    return "i64";
  else if constexpr (std::is_same_v<T, std::uint64_t>)
    return "u64";
  else if constexpr (std::is_same_v<T, float>)
    return "float";
  else if constexpr (std::is_same_v<T, double>)
    return "double";
  else
    return "?";
}

inline std::string s128(i128 v)
{
  if (v == 0)
    return "0";
  bool const neg = v < 0;
  std::string r;
  unsigned __int128 u = neg ? -static_cast<unsigned __int128>(v) : static_cast<unsigned __int128>(v);
  while (u != 0)
  {
    r.insert(r.begin(), static_cast<char>('0' + static_cast<int>(u % 10)));
    u /= 10;
  }
  return neg ? "-" + r : r;
}

template <class T>
constexpr i128 lo()
{
  return static_cast<i128>(std::numeric_limits<T>::min());
}
template <class T>
constexpr i128 hi()
{
  return static_cast<i128>(std::numeric_limits<T>::max());
}
template <class T>
constexpr bool fits(i128 const v)
{
  return v >= lo<T>() && v <= hi<T>();
}

// boundary lattice {0, +-1, 2^k, 2^k+-1, min, min+1, max-1, max} plus the small numbers
template <class T>
std::vector<T> lattice()
{
  std::vector<T> r;
  auto add = [&](i128 v) {
    if (fits<T>(v))
      r.push_back(static_cast<T>(v));
  };
  for (int k = 0; k < 65; ++k)
  {
    i128 const p = static_cast<i128>(1) << k;
    for (int d = -1; d <= 1; ++d)
    {
      add(p + d);
      add(-p + d);
    }
  }
  for (int d = 0; d <= 2; ++d)
  {
    add(lo<T>() + d);
    add(hi<T>() - d);
  }
  for (int v = -10; v <= 10; ++v)
    add(v);
  std::sort(r.begin(), r.end());
  r.erase(std::unique(r.begin(), r.end()), r.end());
  return r;
}

template <class T>
T random_value(vf::rng &g)
{
  std::uint64_t x = g.next();
  x >>= g.below(sizeof(T) * 8); // mix the magnitudes
  if (g.chance(1, 2))
    x = ~x;
  return static_cast<T>(x);
}

template <class T>
std::vector<T> full_range()
{
  static_assert(sizeof(T) <= 2);
  std::vector<T> r;
  for (i128 v = lo<T>(); v <= hi<T>(); ++v)
    r.push_back(static_cast<T>(v));
  return r;
}

// unary workloads: every value of an 8/16-bit type, lattice + seeded random values otherwise.
// The random part depends on the partition (vf::seed_for), so the union over the partitions is nparts times as large.
template <class T>
std::vector<T> unary_values(std::string const &entry, std::size_t const nrandom)
{
  if constexpr (sizeof(T) <= 2)
    return full_range<T>();
  else
  {
    std::vector<T> r = lattice<T>();
    vf::rng g(vf::seed_for(entry));
    for (std::size_t i = 0; i < nrandom; ++i)
      r.push_back(random_value<T>(g));
    return r;
  }
}

// binary workloads: every value for 8 bit (=> all pairs), lattice + a few random values otherwise
template <class T>
std::vector<T> binary_values(std::string const &entry, std::size_t const nrandom)
{
  if constexpr (sizeof(T) == 1)
    return full_range<T>();
  else
  {
    std::vector<T> r = lattice<T>();
    vf::rng g(vf::seed_for(entry));
    for (std::size_t i = 0; i < nrandom; ++i)
      r.push_back(random_value<T>(g));
    return r;
  }
}

template <class T>
std::uint64_t hash_values(std::vector<T> const &v)
{
  return vf::hash_bytes(v.data(), v.size() * sizeof(T));
}

// ------------------------------------------------------------------ strings
// A string_view over an exactly sized heap buffer without terminator: reading *end() is a red-zone hit.
template <class Ch>
class exact_buf
{
public:
  explicit exact_buf(std::basic_string_view<Ch> const s) : p_(new Ch[s.size()]), n_(s.size())
  {
    std::copy(s.begin(), s.end(), p_.get());
  }
  std::basic_string_view<Ch> view() const { return std::basic_string_view<Ch>(p_.get(), n_); }

private:
  std::unique_ptr<Ch[]> p_;
  std::size_t n_;
};

inline std::string printable(std::string_view const s, std::size_t const max = 80)
{
  std::string r;
  for (std::size_t i = 0; i < s.size() && i < max; ++i)
  {
    unsigned char const c = static_cast<unsigned char>(s[i]);
    if (c >= 0x20 && c < 0x7f && c != '\\' && c != '%')
      r += static_cast<char>(c);
    else
    {
      char b[8];
      std::snprintf(b, sizeof b, "\\x%02x", c);
      r += b;
    }
  }
  if (s.size() > max)
    r += "...(" + std::to_string(s.size()) + " bytes)";
  return r;
}
inline std::string printable(std::wstring_view const s, std::size_t const max = 40)
{
  std::string r;
  for (std::size_t i = 0; i < s.size() && i < max; ++i)
  {
    auto const c = static_cast<unsigned long>(s[i]);
    if (c >= 0x20 && c < 0x7f && c != '\\' && c != '%')
      r += static_cast<char>(c);
    else
    {
      char b[16];
      std::snprintf(b, sizeof b, "\\u{%lx}", c);
      r += b;
    }
  }
  if (s.size() > max)
    r += "...(" + std::to_string(s.size()) + " chars)";
  return r;
}

// empty, one char, digits, sign only, whitespace around, overflow-length digit strings, embedded NUL, ...
inline std::vector<std::string> string_lattice()
{
  using S = std::string;
  std::vector<S> r{
      "", "0", "7", "a", " ", "\n", "-", "+", ".", "123", "-123", "+5", " 42", "42 ", " 42 ", "\t7\n", "4 2", "0x1F", "0x",
      "1e3", "1.5", "-0.0", ".5", "5.", "1e", "1e+", "1e999", "-1e999", "1e-999", "nan", "inf", "-inf", "infinity", "true",
      "false", "1", "2", "-0", "+0", "00", "-1", "--1", "+-1", "- 1", "2147483647", "2147483648", "-2147483648",
      "-2147483649", "4294967295", "4294967296", "-4294967295", "32767", "32768", "-32768", "-32769", "65535", "65536",
      "127", "128", "255", "256", "-128", "-129", "9223372036854775807", "9223372036854775808", "-9223372036854775808",
      "-9223372036854775809", "18446744073709551615", "18446744073709551616", "-18446744073709551615",
      "99999999999999999999999999999999999999", "abc", "abc def", "\xff\xfe", "\xc3\xa9", "\xe2\x82", "1,000", "1.000,5",
      "0000000000000000000000000000000000000001", "1.7976931348623157e308", "1.7976931348623159e308", "4.9e-324",
      "3.4028235e38", "3.5e38", "0.1e-5000", "1e5000"};
  r.push_back(S(300, '9'));
  r.push_back(S(5000, '1'));
  r.push_back("-" + S(100, '0') + "1");
  r.push_back(S(400, '0') + "." + S(400, '0') + "1");
  r.push_back("1" + S(400, '0') + ".5");
  r.push_back(S("1\0002", 3));
  r.push_back(S("\0", 1));
  r.push_back(S("12\0", 3));
  r.push_back(S("\0001", 2));
  r.push_back(S(64, ' '));
  r.push_back(S(64, ' ') + "1");
  r.push_back("1" + S(64, ' '));
  return r;
}

inline std::string random_string(vf::rng &g, std::string_view const alphabet, std::size_t const maxlen)
{
  std::size_t const n = g.below(maxlen + 1);
  std::string r;
  for (std::size_t i = 0; i < n; ++i)
    r += alphabet[g.below(alphabet.size())];
  return r;
}

inline std::wstring to_wide(std::string_view const s)
{
  std::wstring r;
  for (char c : s)
    r += static_cast<wchar_t>(static_cast<unsigned char>(c));
  return r;
}

// ------------------------------------------------------------------ fault-injecting stream buffers
// Serves `text` one character at a time (every character costs one underflow call).  After `limit` characters it
//   eof_after : reports end of file,
//   throw_after: throws injected_fault from underflow (again on every further call; limit == size: instead of EOF).
// seekable == false: seekoff/seekpos are refused (the std::basic_streambuf defaults, which return pos_type(-1)).
// seekable == true : positions inside [0, text.size()] can be queried and restored.
// A counter stops a run-away reader: after `budget` underflow calls the buffer reports end of file for good and
// the harness reports it (bucket harness/double-budget-exhausted).
enum class fault
{
  none,
  eof_after,
  throw_after
};

template <class Ch>
class fault_buf : public std::basic_streambuf<Ch>
{
  using base = std::basic_streambuf<Ch>;

public:
  using int_type = typename base::int_type;
  using pos_type = typename base::pos_type;
  using off_type = typename base::off_type;
  using traits = typename base::traits_type;

  fault_buf(std::basic_string<Ch> text, fault const kind, std::size_t const limit, bool const seekable)
      : text_(std::move(text)), kind_(kind), limit_(kind == fault::none ? text_.size() : std::min(limit, text_.size())),
        seekable_(seekable), budget_(64U * (text_.size() + 16U) * (text_.size() + 16U))
  {
  }
  std::uint64_t underflows() const { return underflows_; }
  bool fault_reached() const { return fault_reached_; }
  bool exhausted() const { return exhausted_; }

protected:
  int_type underflow() override
  {
    if (this->gptr() != nullptr && this->gptr() < this->egptr())
      return traits::to_int_type(*this->gptr());
    if (have_)
    {
      ++pos_;
      have_ = false;
    }
    this->setg(nullptr, nullptr, nullptr);
    if (++underflows_ > budget_)
    {
      exhausted_ = true;
      return traits::eof();
    }
    if (pos_ >= limit_)
    {
      if (kind_ != fault::none)
        fault_reached_ = true;
      if (kind_ == fault::throw_after)
        throw injected_fault{pos_};
      return traits::eof();
    }
    ch_ = text_[pos_];
    have_ = true;
    this->setg(&ch_, &ch_, &ch_ + 1);
    return traits::to_int_type(ch_);
  }
  pos_type seekoff(off_type const off, std::ios_base::seekdir const dir, std::ios_base::openmode const which) override
  {
    if (!seekable_ || (which & std::ios_base::in) == 0)
      return pos_type(off_type(-1));
    off_type const cur = static_cast<off_type>(current());
    off_type const target = dir == std::ios_base::beg   ? off
                            : dir == std::ios_base::cur ? cur + off
                                                        : static_cast<off_type>(text_.size()) + off;
    return move_to(target);
  }
  pos_type seekpos(pos_type const pos, std::ios_base::openmode const which) override
  {
    if (!seekable_ || (which & std::ios_base::in) == 0)
      return pos_type(off_type(-1));
    return move_to(static_cast<off_type>(pos));
  }

private:
  std::size_t current() const { return pos_ + ((have_ && this->gptr() == this->egptr()) ? 1U : 0U); }
  pos_type move_to(off_type const target)
  {
    if (target < 0 || target > static_cast<off_type>(text_.size()))
      return pos_type(off_type(-1));
    pos_ = static_cast<std::size_t>(target);
    have_ = false;
    this->setg(nullptr, nullptr, nullptr);
    return pos_type(target);
  }

  std::basic_string<Ch> text_;
  fault kind_;
  std::size_t limit_;
  bool seekable_;
  std::uint64_t budget_;
  std::size_t pos_ = 0;
  bool have_ = false;
  Ch ch_{};
  std::uint64_t underflows_ = 0;
  bool fault_reached_ = false;
  bool exhausted_ = false;
};

// Self-test of the test double against std::basic_stringbuf on fault-free input: the same characters through
// sgetc/sbumpc/sgetn and through an istream, the same end-of-file behaviour, and (seekable) the same answers to
// tellg/seekg.  A double that fails is a harness defect: reported as harness/test-double-selftest.
template <class Ch>
bool selftest_double(std::basic_string<Ch> const &text)
{
  bool ok = true;
  auto fail = [&](char const *what) {
    ok = false;
    vf::violation("harness/test-double-selftest", "harness", what);
  };
  for (bool seekable : {false, true})
  {
    // 1. raw streambuf interface, character by character
    {
      fault_buf<Ch> d(text, fault::none, 0, seekable);
      std::basic_stringbuf<Ch> r(text, std::ios_base::in);
      for (std::size_t i = 0; i < text.size() + 3; ++i)
      {
        if (d.sgetc() != r.sgetc())
          fail("sgetc differs");
        if (d.sbumpc() != r.sbumpc())
          fail("sbumpc differs");
      }
      if (d.underflows() > 4 * (text.size() + 4))
        fail("too many underflow calls for a linear read");
    }
    // 2. block read
    {
      fault_buf<Ch> d(text, fault::none, 0, seekable);
      std::basic_stringbuf<Ch> r(text, std::ios_base::in);
      std::basic_string<Ch> a(text.size() + 5, Ch()), b(text.size() + 5, Ch());
      auto const na = d.sgetn(a.data(), static_cast<std::streamsize>(a.size()));
      auto const nb = r.sgetn(b.data(), static_cast<std::streamsize>(b.size()));
      if (na != nb || a != b)
        fail("sgetn differs");
    }
    // 3. through an istream: rdbuf copy terminates and yields the text
    {
      fault_buf<Ch> d(text, fault::none, 0, seekable);
      std::basic_istream<Ch> is(&d);
      std::basic_ostringstream<Ch> os;
      if (!text.empty())
        os << is.rdbuf();
      if (os.str() != text)
        fail("rdbuf copy differs");
      if (d.exhausted())
        fail("budget exhausted on a linear read");
    }
    // 4. positions
    {
      fault_buf<Ch> d(text, fault::none, 0, seekable);
      std::basic_stringbuf<Ch> r(text, std::ios_base::in);
      std::basic_istream<Ch> is(&d), rs(&r);
      for (std::size_t i = 0; i < text.size() / 2; ++i)
      {
        is.get();
        rs.get();
      }
      auto const p = is.tellg();
      auto const q = rs.tellg();
      if (seekable)
      {
        if (p != q)
          fail("tellg differs");
        is.get();
        rs.get();
        is.clear();
        rs.clear();
        is.seekg(p);
        rs.seekg(q);
        if (is.fail() != rs.fail() || is.peek() != rs.peek())
          fail("seekg differs");
        is.clear();
        rs.clear();
        is.seekg(0);
        rs.seekg(0);
        std::basic_string<Ch> a, b;
        for (auto c = is.get(); c != std::char_traits<Ch>::eof(); c = is.get())
          a += std::char_traits<Ch>::to_char_type(c);
        for (auto c = rs.get(); c != std::char_traits<Ch>::eof(); c = rs.get())
          b += std::char_traits<Ch>::to_char_type(c);
        if (a != b)
          fail("re-read after seekg(0) differs");
      }
      else if (p != typename std::basic_istream<Ch>::pos_type(-1))
        fail("non-seekable double answered tellg");
    }
  }
  // 5. the faults themselves: limit k => exactly k characters, then EOF / exception
  for (std::size_t k = 0; k <= text.size(); ++k)
  {
    {
      fault_buf<Ch> d(text, fault::eof_after, k, false);
      std::basic_string<Ch> a;
      for (auto c = d.sbumpc(); c != std::char_traits<Ch>::eof() && a.size() <= text.size(); c = d.sbumpc())
        a += std::char_traits<Ch>::to_char_type(c);
      if (a != text.substr(0, k))
        fail("eof_after(k) did not serve exactly k characters");
    }
    {
      fault_buf<Ch> d(text, fault::throw_after, k, false);
      std::basic_string<Ch> a;
      bool thrown = false;
      try
      {
        for (auto c = d.sbumpc(); c != std::char_traits<Ch>::eof() && a.size() <= text.size(); c = d.sbumpc())
          a += std::char_traits<Ch>::to_char_type(c);
      }
      catch (injected_fault const &f)
      {
        thrown = f.position == k;
      }
      if (a != text.substr(0, k) || !thrown)
        fail("throw_after(k) did not serve exactly k characters and then throw");
    }
  }
  vf::count(ok ? "harness/double-selftest-passed" : "harness/double-selftest-failed");
  return ok;
}

#ifndef VF_SLICE
#define VF_SLICE -2 // single translation unit build: everything
#endif
#define VF_IN_SLICE(i) (VF_SLICE == (i) || VF_SLICE == -2)

} // namespace c01

#endif
