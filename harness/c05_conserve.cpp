// C05: generic operations conserve values - rvalues are moved (never copied), lvalues are left
// untouched, moved-from objects are never read, nothing is duplicated or lost.
//
// Oracle: the event log of the instrumented element types in c05_tracked.hpp, replayed after each
// case (see case_t::finish), plus the contents of the result and of every lvalue argument.
// The same source is compiled a second time with -DC05_MO (move-only element types, all-rvalue
// category combinations only) by the post hook in lib/vf/props_c05.py: that is the compile-time half
// of "these operations accept move-only element types".
#include "c05_tracked.hpp"

#include <fcppt/reference_fwd.hpp>
#include <fcppt/unit_fwd.hpp>
#include <fcppt/container/tree/object_fwd.hpp>
#include <fcppt/either/object_fwd.hpp>
#include <fcppt/optional/object_fwd.hpp>
#include <fcppt/record/object_fwd.hpp>
#include <fcppt/tuple/object_fwd.hpp>
#include <fcppt/variant/object_fwd.hpp>

#include <deque>
#include <list>
#include <variant>
#include <map>
#include <set>
#include <string>
#include <vector>

#ifndef VF_SLICE
#define VF_SLICE -2 // single translation unit build: everything
#endif
#define VF_IN_SLICE(i) (VF_SLICE == (i) || VF_SLICE == -2)
#define FW(c, a) c05::fwd<decltype(c)::value>(a)

namespace
{
using namespace c05;
using E = tk<0, !move_only_build>;
using F = tk<1, !move_only_build>;
using G = tk<2, !move_only_build>;

// result of an operation that returns a reference or nothing: only the snapshot is kept
struct snap_result
{
  std::vector<int> s;
};
}
namespace c05
{
template <>
struct collector<snap_result>
{
  static void run(snap_result const &x, std::vector<int> &o) { o.insert(o.end(), x.s.begin(), x.s.end()); }
};
// fcppt types (only forward declarations are needed here; each slice includes what it uses)
template <class T>
struct collector<fcppt::optional::object<T>>
{
  static void run(fcppt::optional::object<T> const &x, std::vector<int> &o)
  {
    if (x.has_value())
    {
      o.push_back(mk_some);
      collect(x.get_unsafe(), o);
    }
    else
      o.push_back(mk_nothing);
  }
};
template <class T>
struct collector<fcppt::reference<T>>
{
  static void run(fcppt::reference<T> const &x, std::vector<int> &o) { collect(x.get(), o); }
};
template <class Fl, class Su>
struct collector<fcppt::either::object<Fl, Su>>
{
  static void run(fcppt::either::object<Fl, Su> const &x, std::vector<int> &o)
  {
    if (x.has_success())
    {
      o.push_back(mk_success);
      collect(x.get_success_unsafe(), o);
    }
    else
    {
      o.push_back(mk_failure);
      collect(x.get_failure_unsafe(), o);
    }
  }
};
template <class... Ts>
struct collector<fcppt::variant::object<Ts...>>
{
  static void run(fcppt::variant::object<Ts...> const &x, std::vector<int> &o)
  {
    o.push_back(mk_alt - static_cast<int>(x.impl().index()));
    std::visit([&o](auto const &v) { collect(v, o); }, x.impl());
  }
};
template <class... Ts>
struct collector<fcppt::tuple::object<Ts...>>
{
  static void run(fcppt::tuple::object<Ts...> const &x, std::vector<int> &o) { collect(x.impl(), o); }
};
template <class... Ts>
struct collector<fcppt::record::object<Ts...>>
{
  static void run(fcppt::record::object<Ts...> const &x, std::vector<int> &o) { collect(x.impl(), o); }
};
template <class T>
struct collector<fcppt::container::tree::object<T>>
{
  static void run(fcppt::container::tree::object<T> const &x, std::vector<int> &o)
  {
    o.push_back(mk_node);
    collect(x.value(), o);
    for (auto const &c : x.children())
      run(c, o);
    o.push_back(mk_end);
  }
};
template <>
struct collector<fcppt::unit>
{
  static void run(fcppt::unit const &, std::vector<int> &) {}
};
}
namespace
{
// A continuation that takes its parameter BY VALUE (used with rvalue arguments only): if the library
// hands it an lvalue instead of forwarding the rvalue element, the parameter is copy-initialised by the
// library's call expression and the log shows a copy of an rvalue element.
struct byval
{
  template <class X>
  X operator()(X x) const
  {
    return X(std::move(x));
  }
};
#define C05_BYVAL "/by-value-continuation"
unsigned nmax() { return vf::tier(4U, 7U); } // dynamic sizes 0 .. nmax()-1
unsigned rounds() { return vf::tier(1U, 3U); }

template <class Tuple, std::size_t... I>
void reg_args(case_t &cx, Tuple const &args, int const *cats, std::vector<int> &all, std::index_sequence<I...>)
{
  (
      [&] {
        cx.arg(static_cast<int>(I), cats[I], std::get<I>(args));
        for (int p : payloads_of(snapshot(std::get<I>(args))))
          all.push_back(p);
      }(),
      ...);
}
template <class Tuple, std::size_t... I>
void unchanged_args(case_t &cx, Tuple const &args, int const *cats, std::index_sequence<I...>)
{
  (
      [&] {
        if (cats[I] != cat_r)
          cx.unchanged(static_cast<int>(I), std::get<I>(args));
      }(),
      ...);
}

// The default post-condition: the result holds every element of every argument exactly once.
struct keep_all
{
  template <class R, class Args>
  void operator()(case_t &cx, unsigned, std::vector<int> const &all, R const &r, Args const &) const
  {
    cx.result_of(r, &all);
  }
};
// Only "at most once".
struct at_most_once
{
  template <class R, class Args>
  void operator()(case_t &cx, unsigned, std::vector<int> const &, R const &r, Args const &) const
  {
    cx.result_of(r, nullptr);
  }
};

// An operation with N arguments: every combination of value categories x nshapes argument shapes.
//   mk(cx, shape)            -> std::tuple of the arguments (built from fresh payloads)
//   call(ic<c0>.., a0&, ..)  -> the result BY VALUE (use snap_result for references / void)
//   post(cx, shape, all, result, args)
//   filter(ic<c0>..)         -> std::bool_constant: is this combination of categories instantiated at all
struct all_cats
{
  template <class... Cs>
  std::true_type operator()(Cs...) const
  {
    return {};
  }
};
// functions declared to take `T const &` only: an rvalue would bind to the const reference and be
// copied by design, so only the lvalue categories are judged (see the assumptions)
struct no_rvalues
{
  template <class... Cs>
  std::bool_constant<((Cs::value != cat_r) && ...)> operator()(Cs...) const
  {
    return {};
  }
};
// operations whose constraints reject lvalue arguments at compile time
struct only_rvalues
{
  template <class... Cs>
  std::bool_constant<((Cs::value == cat_r) && ...)> operator()(Cs...) const
  {
    return {};
  }
};
// array::append takes array::size<Array1> of the deduced (reference) type: an lvalue first array does
// not compile, and join / push_back are built on append
struct first_rvalue
{
  template <class C0, class... Cs>
  std::bool_constant<C0::value == cat_r> operator()(C0, Cs...) const
  {
    return {};
  }
};
template <int N, class Mk, class Call, class Post = keep_all, class Filter = all_cats>
void nary(std::string const &entry, unsigned nshapes, Mk mk, Call call, Post post = Post{}, Filter = Filter{})
{
  for_cats<N>([&](auto... cs) {
    if constexpr (decltype(Filter{}(cs...))::value)
    {
    std::string const cats = cats_str(decltype(cs)::value...);
    for (unsigned sh = 0; sh < nshapes; ++sh)
     for (unsigned round = 0; round < rounds(); ++round) // further rounds: other payload ids and random choices
      run_case(entry, cats, "shape=" + std::to_string(sh) + (round ? " round=" + std::to_string(round) : std::string()), [&](case_t &cx) {
        auto args = mk(cx, sh);
        int const cat_arr[N] = {decltype(cs)::value...};
        std::vector<int> all;
        reg_args(cx, args, cat_arr, all, std::make_index_sequence<N>{});
        cx.begin();
        auto r = std::apply([&](auto &...a) { return call(cs..., a...); }, args);
        cx.end();
        post(cx, sh, all, r, args);
        unchanged_args(cx, args, cat_arr, std::make_index_sequence<N>{});
      });
    }
  });
}
}

// =================================================================================== slice 0
#if VF_IN_SLICE(0)
#include <fcppt/loop.hpp>
#include <fcppt/algorithm/fold.hpp>
#include <fcppt/algorithm/fold_break.hpp>
#include <fcppt/algorithm/loop.hpp>
#include <fcppt/algorithm/loop_break.hpp>
#include <fcppt/algorithm/map.hpp>
#include <fcppt/algorithm/map_array.hpp>
#include <fcppt/algorithm/map_concat.hpp>
#include <fcppt/algorithm/map_optional.hpp>
#include <fcppt/algorithm/reverse.hpp>
#include <fcppt/array/object.hpp>
#include <fcppt/container/make_move_range.hpp>
#include <fcppt/optional/object.hpp>
namespace
{
template <class Src>
struct src_traits; // how to build a source range of n elements
template <class T>
struct src_traits<std::vector<T>>
{
  static constexpr bool dynamic = true;
  static std::vector<T> make(case_t &cx, unsigned n) { return make_seq<std::vector<T>>(cx, n); }
};
template <class T>
struct src_traits<std::deque<T>>
{
  static constexpr bool dynamic = true;
  static std::deque<T> make(case_t &cx, unsigned n) { return make_seq<std::deque<T>>(cx, n); }
};
template <class T>
struct src_traits<std::list<T>>
{
  static constexpr bool dynamic = true;
  static std::list<T> make(case_t &cx, unsigned n) { return make_seq<std::list<T>>(cx, n); }
};
template <class T, std::size_t N>
struct src_traits<std::array<T, N>>
{
  static constexpr bool dynamic = false;
  static std::array<T, N> make(case_t &cx, unsigned) { return make_std_array<T, N>(cx); }
};
template <class T, std::size_t... I>
fcppt::array::object<T, sizeof...(I)> make_fa_impl(case_t &cx, std::index_sequence<I...>)
{
  return fcppt::array::object<T, sizeof...(I)>{((void)I, T(make_t{}, cx.fresh()))...};
}
template <class T, std::size_t N>
struct src_traits<fcppt::array::object<T, N>>
{
  static constexpr bool dynamic = false;
  static fcppt::array::object<T, N> make(case_t &cx, unsigned) { return make_fa_impl<T>(cx, std::make_index_sequence<N>{}); }
};
template <class Src>
unsigned shapes_of()
{
  return src_traits<Src>::dynamic ? nmax() : 1U;
}

template <class Src, class Tgt>
void t_map(std::string const &inst)
{
  nary<1>(
      "algorithm::map<" + inst + ">", shapes_of<Src>(),
      [](case_t &cx, unsigned n) { return std::make_tuple(src_traits<Src>::make(cx, n)); },
      [](auto c0, auto &a) { return fcppt::algorithm::map<Tgt>(FW(c0, a), conv<E>{}); });
}

template <class Src, class Tgt>
void t_map_byval(std::string const &inst)
{
  nary<1>(
      "algorithm::map<" + inst + ">" C05_BYVAL, shapes_of<Src>(),
      [](case_t &cx, unsigned n) { return std::make_tuple(src_traits<Src>::make(cx, n)); },
      [](auto c0, auto &a) { return fcppt::algorithm::map<Tgt>(FW(c0, a), byval{}); }, keep_all{}, only_rvalues{});
}

template <class Src>
void t_map_optional(std::string const &inst)
{
  for (unsigned mask_kind = 0; mask_kind < 3; ++mask_kind) // keep none / all / random subset
  {
    keep_set ks;
    nary<1>(
        "algorithm::map_optional<" + inst + ">/keep=" + (mask_kind == 0 ? "none" : mask_kind == 1 ? "all" : "some"),
        shapes_of<Src>(),
        [&ks, mask_kind](case_t &cx, unsigned n) {
          auto a = src_traits<Src>::make(cx, n);
          ks.keep.clear();
          for (int p : payloads_of(snapshot(a)))
            if (mask_kind == 1 || (mask_kind == 2 && cx.rng().chance(1, 2)))
              ks.keep.insert(p);
          return std::make_tuple(std::move(a));
        },
        [&ks](auto c0, auto &a) {
          return fcppt::algorithm::map_optional<std::vector<E>>(FW(c0, a), [&ks](auto &&x) {
            using opt = fcppt::optional::object<E>;
            return ks(x) ? opt{conv<E>{}(std::forward<decltype(x)>(x))} : opt{};
          });
        },
        [&ks](case_t &cx, unsigned, std::vector<int> const &, auto const &r, auto const &) {
          std::vector<int> want(ks.keep.begin(), ks.keep.end());
          cx.result_of(r, &want);
        });
  }
}

template <class Src>
void t_map_concat(std::string const &inst)
{
  std::vector<int> want;
  keep_set ks;
  case_t *cur = nullptr;
  nary<1>(
      "algorithm::map_concat<" + inst + ">", shapes_of<Src>(),
      [&](case_t &cx, unsigned n) {
        auto a = src_traits<Src>::make(cx, n);
        ks.keep.clear();
        want.clear();
        cur = &cx;
        for (int p : payloads_of(snapshot(a)))
          if (cx.rng().chance(2, 3))
            ks.keep.insert(p);
        return std::make_tuple(std::move(a));
      },
      [&](auto c0, auto &a) {
        // every element yields 0, 1 or 2 values: itself (kept ones) and possibly a brand new one
        return fcppt::algorithm::map_concat<std::vector<E>>(FW(c0, a), [&](auto &&x) {
          std::vector<E> part;
          if (ks(x))
          {
            want.push_back(x.peek());
            part.push_back(conv<E>{}(std::forward<decltype(x)>(x)));
            if (cur->rng().chance(1, 2))
            {
              int const p = cur->fresh();
              want.push_back(p);
              part.push_back(E(make_t{}, p));
            }
          }
          return part;
        });
      },
      [&](case_t &cx, unsigned, std::vector<int> const &, auto const &r, auto const &) { cx.result_of(r, &want); });
}

template <class Src>
void t_fold(std::string const &inst)
{
  // state: a vector the continuation appends to; 0 or 2 elements initially
  nary<2>(
      "algorithm::fold<" + inst + ">", shapes_of<Src>() * 2U,
      [](case_t &cx, unsigned sh) {
        return std::make_tuple(src_traits<Src>::make(cx, sh / 2U), make_seq<std::vector<E>>(cx, (sh % 2U) * 2U));
      },
      [](auto c0, auto c1, auto &a, auto &s) {
        return fcppt::algorithm::fold(FW(c0, a), FW(c1, s), [](auto &&e, std::vector<E> &&st) {
          st.push_back(conv<E>{}(std::forward<decltype(e)>(e)));
          return std::move(st);
        });
      });
}

template <class Src>
void t_fold_break(std::string const &inst)
{
  unsigned stop_after = 0;
  std::vector<int> want;
  nary<2>(
      "algorithm::fold_break<" + inst + ">", shapes_of<Src>() * 2U,
      [&](case_t &cx, unsigned sh) {
        auto a = src_traits<Src>::make(cx, sh / 2U);
        auto s = make_seq<std::vector<E>>(cx, sh % 2U);
        stop_after = static_cast<unsigned>(cx.rng().below(5));
        want = payloads_of(snapshot(s));
        return std::make_tuple(std::move(a), std::move(s));
      },
      [&](auto c0, auto c1, auto &a, auto &s) {
        unsigned seen = 0;
        return fcppt::algorithm::fold_break(FW(c0, a), FW(c1, s), [&](auto &&e, std::vector<E> &&st) {
          want.push_back(e.peek());
          st.push_back(conv<E>{}(std::forward<decltype(e)>(e)));
          ++seen;
          return std::make_pair(seen > stop_after ? fcppt::loop::break_ : fcppt::loop::continue_, std::move(st));
        });
      },
      [&](case_t &cx, unsigned, std::vector<int> const &, auto const &r, auto const &) { cx.result_of(r, &want); });
}

template <class Src>
void t_reverse(std::string const &inst)
{
  nary<1>(
      "algorithm::reverse<" + inst + ">", shapes_of<Src>(),
      [](case_t &cx, unsigned n) { return std::make_tuple(src_traits<Src>::make(cx, n)); },
      [](auto c0, auto &a) { return fcppt::algorithm::reverse(FW(c0, a)); });
}

template <class Src>
void t_loop(std::string const &inst)
{
  nary<1>(
      "algorithm::loop<" + inst + ">", shapes_of<Src>(),
      [](case_t &cx, unsigned n) { return std::make_tuple(src_traits<Src>::make(cx, n)); },
      [](auto c0, auto &a) {
        std::vector<E> sink;
        fcppt::algorithm::loop(FW(c0, a), [&sink](auto &&x) { sink.push_back(conv<E>{}(std::forward<decltype(x)>(x))); });
        return sink;
      });
}

// map / loop / fold over make_move_range(std::move(container)): the range is meant to be consumed
template <class Src>
void t_move_range(std::string const &inst)
{
  for (unsigned n = 0; n < nmax(); ++n)
  {
    run_case("container::make_move_range<" + inst + ">+algorithm::map", "R", "n=" + std::to_string(n), [&](case_t &cx) {
      Src a = src_traits<Src>::make(cx, n);
      std::vector<int> all = payloads_of(snapshot(a));
      cx.arg(0, cat_r, a);
      cx.begin();
      std::vector<E> r = fcppt::algorithm::map<std::vector<E>>(fcppt::container::make_move_range(std::move(a)), conv<E>{});
      cx.end();
      cx.result_of(r, &all);
    });
    run_case("container::make_move_range<" + inst + ">+algorithm::map" C05_BYVAL, "R", "n=" + std::to_string(n), [&](case_t &cx) {
      Src a = src_traits<Src>::make(cx, n);
      std::vector<int> all = payloads_of(snapshot(a));
      cx.arg(0, cat_r, a);
      cx.begin();
      std::vector<E> r = fcppt::algorithm::map<std::vector<E>>(fcppt::container::make_move_range(std::move(a)), byval{});
      cx.end();
      cx.result_of(r, &all);
    });
    run_case("container::make_move_range<" + inst + ">+algorithm::fold", "R", "n=" + std::to_string(n), [&](case_t &cx) {
      Src a = src_traits<Src>::make(cx, n);
      std::vector<int> all = payloads_of(snapshot(a));
      cx.arg(0, cat_r, a);
      cx.begin();
      std::vector<E> r = fcppt::algorithm::fold(
          fcppt::container::make_move_range(std::move(a)), std::vector<E>{}, [](auto &&e, std::vector<E> &&st) {
            st.push_back(conv<E>{}(std::forward<decltype(e)>(e)));
            return std::move(st);
          });
      cx.end();
      cx.result_of(r, &all);
    });
  }
}
}

void vf_slice_0()
{
  using fa3 = fcppt::array::object<E, 3>;
  using fa1 = fcppt::array::object<E, 1>;
  t_map<std::vector<E>, std::vector<E>>("vector->vector");
  t_map<std::deque<E>, std::vector<E>>("deque->vector");
  t_map<std::list<E>, std::vector<E>>("list->vector");
  t_map<std::array<E, 3>, std::vector<E>>("std::array3->vector");
  t_map<fa3, std::vector<E>>("fcppt::array3->vector");
  t_map<fa3, fa3>("fcppt::array3->fcppt::array3");
  t_map<fa1, fa1>("fcppt::array1->fcppt::array1");
  t_map<std::vector<E>, std::deque<E>>("vector->deque");
  t_map<std::vector<E>, std::list<E>>("vector->list");
  t_map<std::list<E>, std::deque<E>>("list->deque");
  t_map_byval<std::vector<E>, std::vector<E>>("vector->vector");
  t_map_byval<std::list<E>, std::vector<E>>("list->vector");
  t_map_byval<fa3, std::vector<E>>("fcppt::array3->vector");
  t_map_byval<fa3, fa3>("fcppt::array3->fcppt::array3");

  t_map_optional<std::vector<E>>("vector");
  t_map_optional<std::list<E>>("list");
  t_map_optional<fa3>("fcppt::array3");

  t_map_concat<std::vector<E>>("vector");
  t_map_concat<std::deque<E>>("deque");
  t_map_concat<fa3>("fcppt::array3");

  t_fold<std::vector<E>>("vector");
  t_fold<std::list<E>>("list");
  t_fold<std::array<E, 3>>("std::array3");
  t_fold<fa3>("fcppt::array3");

  t_fold_break<std::vector<E>>("vector");
  t_fold_break<std::deque<E>>("deque");
  t_fold_break<fa3>("fcppt::array3");

  t_reverse<std::vector<E>>("vector");
  t_reverse<std::deque<E>>("deque");
  t_reverse<std::list<E>>("list");

  t_loop<std::vector<E>>("vector");
  t_loop<std::list<E>>("list");
  t_loop<fa3>("fcppt::array3");

  t_move_range<std::vector<E>>("vector");
  t_move_range<std::deque<E>>("deque");
  t_move_range<std::list<E>>("list");
}
#endif

// =================================================================================== slice 1
#if VF_IN_SLICE(1)
#include <fcppt/move_clear.hpp>
#include <fcppt/move_if_rvalue.hpp>
#include <fcppt/move_iterator_if_rvalue.hpp>
#include <fcppt/container/get_or_insert.hpp>
#include <fcppt/container/get_or_insert_with_result.hpp>
#include <fcppt/container/insert.hpp>
#include <fcppt/container/join.hpp>
#include <fcppt/container/key_set.hpp>
#include <fcppt/container/make.hpp>
#include <fcppt/container/map_values_copy.hpp>
#include <fcppt/container/pop_back.hpp>
#include <fcppt/container/pop_front.hpp>
#include <fcppt/container/set_difference.hpp>
#include <fcppt/container/set_intersection.hpp>
#include <fcppt/container/set_union.hpp>
#include <fcppt/optional/object.hpp>
#include <algorithm>
#include <functional>
#include <iterator>
#include <unordered_map>
namespace
{
template <class C>
C make_set(case_t &cx, unsigned n)
{
  C c;
  using T = typename C::value_type;
  for (unsigned i = 0; i < n; ++i)
    c.insert(T(make_t{}, cx.fresh()));
  return c;
}

template <class C, class Make>
void t_join2(std::string const &inst, Make make)
{
  nary<2>(
      "container::join<" + inst + ">/2", 9,
      [make](case_t &cx, unsigned sh) { return std::make_tuple(make(cx, sh / 3U), make(cx, sh % 3U)); },
      [](auto c0, auto c1, auto &a, auto &b) { return fcppt::container::join(FW(c0, a), FW(c1, b)); });
}
template <class C, class Make>
void t_join3(std::string const &inst, Make make)
{
  nary<3>(
      "container::join<" + inst + ">/3", 4,
      [make](case_t &cx, unsigned sh) {
        return std::make_tuple(make(cx, sh == 1 ? 0U : 2U), make(cx, sh == 2 ? 0U : 1U), make(cx, sh == 3 ? 0U : 2U));
      },
      [](auto c0, auto c1, auto c2, auto &a, auto &b, auto &c) {
        return fcppt::container::join(FW(c0, a), FW(c1, b), FW(c2, c));
      });
}
template <class C, class Make>
void t_join1(std::string const &inst, Make make)
{
  nary<1>(
      "container::join<" + inst + ">/1", 3, [make](case_t &cx, unsigned sh) { return std::make_tuple(make(cx, sh)); },
      [](auto c0, auto &a) { return fcppt::container::join(FW(c0, a)); });
}

// pop_back / pop_front: the container is the subject; the popped element must be moved out (never
// copied), the others stay where they are.
template <class C, bool Back>
void t_pop(std::string const &inst)
{
  for (unsigned n = 0; n < nmax(); ++n)
    run_case(std::string("container::pop_") + (Back ? "back<" : "front<") + inst + ">", "subject", "n=" + std::to_string(n),
             [&](case_t &cx) {
               C a = make_seq<C>(cx, n);
               std::vector<int> const all = payloads_of(snapshot(a));
               cx.subject(0, a);
               if (n > 0)
                 cx.set_role(Back ? all.back() : all.front(), role::rv);
               cx.begin();
               auto r = [&] {
                 if constexpr (Back)
                   return fcppt::container::pop_back(a);
                 else
                   return fcppt::container::pop_front(a);
               }();
               cx.end();
               std::vector<int> got = snapshot(r);
               std::vector<int> rest = payloads_of(snapshot(a));
               std::vector<int> want_rest = all, want_res;
               if (n > 0)
               {
                 want_res.push_back(Back ? all.back() : all.front());
                 if (Back)
                   want_rest.pop_back();
                 else
                   want_rest.erase(want_rest.begin());
               }
               cx.result(got, &want_res);
               if (rest != want_rest)
                 cx.viol("remaining-elements", "mismatch", "container holds " + show(rest) + ", documented " + show(want_rest));
               std::vector<int> both = got;
               both.insert(both.end(), rest.begin(), rest.end());
               cx.result(both, &all);
             });
}

template <class M>
void t_get_or_insert(std::string const &inst, bool with_result)
{
  // key: argument 1, `key_type const &`; present or absent
  for_cats<1>([&](auto c1) {
    constexpr int C1 = decltype(c1)::value;
    if constexpr (C1 != cat_r)
      for (unsigned n = 0; n < 3; ++n)
        for (unsigned present = 0; present < 2; ++present)
        {
          if (present && n == 0)
            continue;
          run_case(std::string("container::get_or_insert") + (with_result ? "_with_result<" : "<") + inst + ">",
                   std::string("subject,") + cat_char(C1), "n=" + std::to_string(n) + (present ? " key present" : " key absent"),
                   [&](case_t &cx) {
                     M m;
                     for (unsigned i = 0; i < n; ++i)
                       m.emplace(E(make_t{}, cx.fresh()), F(make_t{}, cx.fresh()));
                     std::vector<int> const before = snapshot(m);
                     std::vector<int> const all = payloads_of(before);
                     // a present key is a second object holding the same payload as a key of the map
                     int const kp = present ? m.begin()->first.peek() : cx.fresh();
                     E key(make_t{}, kp);
                     cx.subject(0, m);
                     cx.arg(1, C1, key);
                     unsigned created = 0;
                     int made = 0;
                     cx.begin();
                     auto create = [&](E const &k) {
                       ++created;
                       (void)k.read();
                       made = cx.fresh();
                       return F(make_t{}, made);
                     };
                     int got = 0;
                     bool inserted = false;
                     if (with_result)
                     {
                       auto r = fcppt::container::get_or_insert_with_result(m, FW(c1, key), create);
                       got = r.element().peek();
                       inserted = r.inserted();
                     }
                     else
                     {
                       F &r = fcppt::container::get_or_insert(m, FW(c1, key), create);
                       got = r.peek();
                       inserted = created != 0;
                     }
                     cx.end();
                     cx.unchanged(1, key);
                     std::vector<int> after = payloads_of(snapshot(m));
                     std::vector<int> want = all;
                     if (!present)
                     {
                       want.push_back(kp);
                       want.push_back(made);
                     }
                     std::sort(after.begin(), after.end());
                     std::sort(want.begin(), want.end());
                     if (after != want || inserted == static_cast<bool>(present) || created != (present ? 0U : 1U) ||
                         (!present && got != made))
                       cx.viol("map-contents", "mismatch",
                                     "map holds " + show(after) + ", documented " + show(want) + " created=" + std::to_string(created));
                     cx.result(after, nullptr);
                   });
        }
  });
}

template <class S>
void t_insert(std::string const &inst)
{
  for_cats<1>([&](auto c1) {
    constexpr int C1 = decltype(c1)::value;
    for (unsigned n = 0; n < 3; ++n)
      run_case("container::insert<" + inst + ">", std::string("subject,") + cat_char(C1), "n=" + std::to_string(n), [&](case_t &cx) {
        S s = make_set<S>(cx, n);
        E v(make_t{}, cx.fresh());
        std::vector<int> all = payloads_of(snapshot(s));
        all.push_back(v.peek());
        cx.subject(0, s);
        cx.arg(1, C1, v);
        cx.begin();
        bool const ins = fcppt::container::insert(s, FW(c1, v));
        cx.end();
        if (!ins)
          cx.viol("not-inserted", "mismatch", "a new element was not inserted");
        cx.result_of(s, &all);
        if (C1 != cat_r)
          cx.unchanged(1, v);
      });
  });
}

enum class setop
{
  uni,
  diff,
  inter
};
template <class S>
void t_setop(std::string const &name, setop op)
{
  std::vector<int> want;
  nary<2>(
      "container::" + name + "<set>", 6,
      [&](case_t &cx, unsigned sh) {
        // shapes: sizes (0,0) (2,0) (0,2) (2,2 disjoint) (3,3 one common) (2,2 equal)
        static unsigned const na[] = {0, 2, 0, 2, 3, 2}, nb[] = {0, 0, 2, 2, 3, 2}, common[] = {0, 0, 0, 0, 1, 2};
        S a = make_set<S>(cx, na[sh]);
        S b;
        std::vector<int> pa = payloads_of(snapshot(a));
        for (unsigned i = 0; i < common[sh]; ++i)
          b.insert(E(make_t{}, pa[i])); // a second object with the same payload: an equal element
        while (b.size() < nb[sh])
          b.insert(E(make_t{}, cx.fresh()));
        std::vector<int> pb = payloads_of(snapshot(b));
        std::sort(pa.begin(), pa.end());
        std::sort(pb.begin(), pb.end());
        want.clear();
        switch (op)
        {
        case setop::uni: std::set_union(pa.begin(), pa.end(), pb.begin(), pb.end(), std::back_inserter(want)); break;
        case setop::diff: std::set_difference(pa.begin(), pa.end(), pb.begin(), pb.end(), std::back_inserter(want)); break;
        case setop::inter: std::set_intersection(pa.begin(), pa.end(), pb.begin(), pb.end(), std::back_inserter(want)); break;
        }
        return std::make_tuple(std::move(a), std::move(b));
      },
      [op](auto c0, auto c1, auto &a, auto &b) {
        switch (op)
        {
        case setop::uni: return fcppt::container::set_union(FW(c0, a), FW(c1, b));
        case setop::diff: return fcppt::container::set_difference(FW(c0, a), FW(c1, b));
        default: return fcppt::container::set_intersection(FW(c0, a), FW(c1, b));
        }
      },
      [&](case_t &cx, unsigned, std::vector<int> const &, auto const &r, auto const &) { cx.result_of(r, &want); }, no_rvalues{});
}

// the value-category dispatch helpers themselves
void t_dispatch()
{
  run_case("move_if_rvalue", "-", "result types", [&](case_t &cx) {
    E x = mk<E>(cx);
    E const &cx_ref = x;
    bool const ok =
        std::is_same_v<decltype(fcppt::move_if_rvalue<std::vector<E> &>(x)), E &> &&
        std::is_same_v<decltype(fcppt::move_if_rvalue<std::vector<E> const &>(x)), E &> &&
        std::is_same_v<decltype(fcppt::move_if_rvalue<std::vector<E>>(x)), E &&> &&
        std::is_same_v<decltype(fcppt::move_if_rvalue<std::vector<E> &&>(x)), E &&> &&
        std::is_same_v<decltype(fcppt::move_if_rvalue<std::vector<E> &>(cx_ref)), E const &> &&
        std::is_same_v<decltype(fcppt::move_if_rvalue<std::vector<E> &>(std::move(x))), E &&>;
    using it = std::vector<E>::iterator;
    bool const ok_it = std::is_same_v<decltype(fcppt::move_iterator_if_rvalue<std::vector<E> &>(std::declval<it const &>())), it> &&
                       std::is_same_v<decltype(fcppt::move_iterator_if_rvalue<std::vector<E>>(std::declval<it const &>())),
                                      std::move_iterator<it>>;
    if (!ok)
      cx.viol("result-type", "mismatch", "move_if_rvalue<Type>(arg) does not yield an lvalue for lvalue Type / an rvalue for rvalue Type");
    if (!ok_it)
      cx.viol("iterator-type", "mismatch", "move_iterator_if_rvalue<Type>(it) does not yield it / move_iterator<it>");
#ifndef C05_MO
    // and at run time: an lvalue Type leaves the object alone, an rvalue Type lets it be moved
    cx.arg(0, cat_l, x);
    cx.begin();
    E y(fcppt::move_if_rvalue<std::vector<E> &>(x));
    cx.end();
    cx.unchanged(0, x);
    E z(fcppt::move_if_rvalue<std::vector<E>>(y));
    std::vector<int> want{z.peek()};
    cx.result_of(z, &want);
#endif
  });
  // move_clear: everything is moved out, a default constructed value is left behind
  for (unsigned n = 0; n < nmax(); ++n)
    run_case("move_clear<vector>", "subject", "n=" + std::to_string(n), [&](case_t &cx) {
      std::vector<E> a = make_seq<std::vector<E>>(cx, n);
      std::vector<int> all = payloads_of(snapshot(a));
      cx.arg(0, cat_r, a); // documented to be moved out of
      cx.begin();
      std::vector<E> r = fcppt::move_clear(a);
      cx.end();
      cx.result_of(r, &all);
      if (!a.empty())
        cx.viol("not-cleared", "mismatch", "the source is not empty afterwards");
    });
  run_case("move_clear<std::array2>", "subject", "2 elements", [&](case_t &cx) {
    std::array<E, 2> a = make_std_array<E, 2>(cx);
    std::vector<int> all = payloads_of(snapshot(a));
    cx.arg(0, cat_r, a);
    cx.begin();
    std::array<E, 2> r = fcppt::move_clear(a);
    cx.end();
    cx.result_of(r, &all);
    if (!payloads_of(snapshot(a)).empty())
      cx.viol("not-cleared", "mismatch", "the source still holds " + show(snapshot(a)));
  });
}

void t_make()
{
  // container::make "creates a container from variadic arguments by moving": rvalue arguments only
  run_case("container::make<vector>", "R,R,R", "3 values", [&](case_t &cx) {
    E a = mk<E>(cx), b = mk<E>(cx), c = mk<E>(cx);
    std::vector<int> all{a.peek(), b.peek(), c.peek()};
    cx.arg(0, cat_r, a);
    cx.arg(1, cat_r, b);
    cx.arg(2, cat_r, c);
    cx.begin();
    auto r = fcppt::container::make<std::vector<E>>(std::move(a), std::move(b), std::move(c));
    cx.end();
    cx.result_of(r, &all);
  });
  run_case("container::make<list>", "R", "1 value", [&](case_t &cx) {
    E a = mk<E>(cx);
    std::vector<int> all{a.peek()};
    cx.arg(0, cat_r, a);
    cx.begin();
    auto r = fcppt::container::make<std::list<E>>(std::move(a));
    cx.end();
    cx.result_of(r, &all);
  });
}

void t_map_values()
{
  using M = std::map<int, E>;
  nary<1>(
      "container::map_values_copy<map<int,E>>", 3,
      [](case_t &cx, unsigned n) {
        M m;
        for (unsigned i = 0; i < n; ++i)
          m.emplace(static_cast<int>(i), E(make_t{}, cx.fresh()));
        return std::make_tuple(std::move(m));
      },
      [](auto c0, auto &m) { return fcppt::container::map_values_copy<std::vector<E>>(FW(c0, m)); }, keep_all{}, no_rvalues{});
  using M2 = std::map<E, int>;
  nary<1>(
      "container::key_set<map<E,int>>", 3,
      [](case_t &cx, unsigned n) {
        M2 m;
        for (unsigned i = 0; i < n; ++i)
          m.emplace(E(make_t{}, cx.fresh()), static_cast<int>(i));
        return std::make_tuple(std::move(m));
      },
      [](auto c0, auto &m) { return fcppt::container::key_set<std::set<E>>(FW(c0, m)); }, keep_all{}, no_rvalues{});
}
}

void vf_slice_1()
{
  auto mkvec = [](case_t &cx, unsigned n) { return make_seq<std::vector<E>>(cx, n); };
  auto mkdeq = [](case_t &cx, unsigned n) { return make_seq<std::deque<E>>(cx, n); };
  auto mklist = [](case_t &cx, unsigned n) { return make_seq<std::list<E>>(cx, n); };
  auto mkset = [](case_t &cx, unsigned n) { return make_set<std::set<E>>(cx, n); };
  t_join1<std::vector<E>>("vector", mkvec);
  t_join2<std::vector<E>>("vector", mkvec);
  t_join3<std::vector<E>>("vector", mkvec);
  t_join2<std::deque<E>>("deque", mkdeq);
  t_join2<std::list<E>>("list", mklist);
#ifndef C05_MO
  {
    // std::set is not among the registered container kinds: its elements are const, so join can only copy them
    observed_scope const os;
    t_join2<std::set<E>>("set", mkset);
  }
  // a set whose ordering is run-time state of the container object: "never duplicate or lose an element" - every
  // element of every argument is in the result of join exactly once (all payloads are distinct), whatever the value
  // category of the FIRST argument (the result starts out as that argument: its ordering comes along)
  {
    using cmp_t = bool (*)(E const &, E const &);
    using SF = std::set<E, cmp_t>;
    cmp_t const descending = [](E const &a, E const &b) { return b.peek() < a.peek(); };
    cmp_t const by_tens = [](E const &a, E const &b) { return a.peek() / 10 < b.peek() / 10; };
    (void)by_tens;
    observed_scope const os; // the event log is not judged (copies are what a set can do); presence and order are, below
    for (unsigned first_rvalue = 0; first_rvalue < 2; ++first_rvalue)
      for (unsigned na = 0; na < 4; ++na)
        for (unsigned nb = 0; nb < 3; ++nb)
          run_case("container::join<set<E,function-pointer-compare>>/2", first_rvalue ? "R,L" : "L,L",
                   "na=" + std::to_string(na) + " nb=" + std::to_string(nb), [&](case_t &cx) {
                     SF a(descending), b(descending);
                     for (unsigned i = 0; i < na; ++i)
                       a.insert(E(make_t{}, cx.fresh()));
                     for (unsigned i = 0; i < nb; ++i)
                       b.insert(E(make_t{}, cx.fresh()));
                     std::vector<int> all = payloads_of(snapshot(a));
                     for (int q : payloads_of(snapshot(b)))
                       all.push_back(q);
                     std::vector<int> const a_before = payloads_of(snapshot(a));
                     SF const r = first_rvalue ? fcppt::container::join(SF(a), b) : fcppt::container::join(a, b);
                     std::vector<int> got = payloads_of(snapshot(r));
                     std::vector<int> want = all;
                     std::sort(want.begin(), want.end(), std::greater<int>());
                     if (got != want)
                       vf::violation("container::join<set<E,function-pointer-compare>>/2/elements-or-order-of-the-first-argument", "mismatch",
                                     "result holds " + show(got) + ", the arguments hold " + show(want) + " (in the first argument's order)");
                     if (!first_rvalue && payloads_of(snapshot(a)) != a_before)
                       vf::violation("container::join<set<E,function-pointer-compare>>/2/lvalue-argument-changed", "mismatch", "first argument");
                     VF_COUNT("join/set-with-run-time-ordering");
                   });
  }
#else
  (void)mkset;
#endif
  // an element type that is copyable AND whose move constructor is not declared noexcept (most hand-written classes,
  // std::deque in libstdc++): pop_back / pop_front still MOVE the popped element out - "never copies an element"
  {
    struct counted
    {
      int payload;
      static int &copies()
      {
        static int n = 0;
        return n;
      }
      static int &moves()
      {
        static int n = 0;
        return n;
      }
      explicit counted(int p) : payload(p) {}
      counted(counted const &o) : payload(o.payload) { ++copies(); }
      counted(counted &&o) : payload(o.payload) // deliberately not noexcept
      {
        o.payload = -1;
        ++moves();
      }
      counted &operator=(counted const &o)
      {
        payload = o.payload;
        ++copies();
        return *this;
      }
      counted &operator=(counted &&o)
      {
        payload = o.payload;
        o.payload = -1;
        ++moves();
        return *this;
      }
    };
    static_assert(!std::is_nothrow_move_constructible_v<counted> && std::is_copy_constructible_v<counted>);
    observed_scope const os;
    for (unsigned back = 0; back < 2; ++back)
      for (unsigned n = 0; n < 4; ++n)
        run_case(std::string("container::pop_") + (back ? "back" : "front") + "<deque<element with a throwing move constructor>>", "subject", "n=" + std::to_string(n),
                 [&](case_t &cx) {
                   std::deque<counted> d;
                   std::vector<int> all;
                   for (unsigned i = 0; i < n; ++i)
                   {
                     all.push_back(cx.fresh());
                     d.emplace_back(all.back());
                   }
                   counted::copies() = 0;
                   counted::moves() = 0;
                   auto const r = back ? fcppt::container::pop_back(d) : fcppt::container::pop_front(d);
                   std::string const key = std::string("container::pop_") + (back ? "back" : "front") + "<deque<element with a throwing move constructor>>";
                   if (counted::copies() != 0)
                     vf::violation(key + "/popped-element-copied", "mismatch", std::to_string(counted::copies()) + " copies of an element (moves: " + std::to_string(counted::moves()) + ")");
                   if (r.has_value() != (n > 0) || (n > 0 && r.get_unsafe().payload != (back ? all.back() : all.front())) || d.size() != (n > 0 ? n - 1 : 0))
                     vf::violation(key + "/result", "mismatch", "");
                   VF_COUNT("pop/element-with-a-throwing-move-constructor");
                 });
  }
  t_pop<std::vector<E>, true>("vector");
  t_pop<std::deque<E>, true>("deque");
  t_pop<std::list<E>, true>("list");
  t_pop<std::deque<E>, false>("deque");
  t_pop<std::list<E>, false>("list");
  t_make();
  t_dispatch();
#ifndef C05_MO
  // these copy by design (key_type const &, Set const &): not part of the move-only build
  t_get_or_insert<std::map<E, F>>("map", false);
  t_get_or_insert<std::map<E, F>>("map", true);
  t_get_or_insert<std::unordered_map<E, F>>("unordered_map", false);
  t_setop<std::set<E>>("set_union", setop::uni);
  t_setop<std::set<E>>("set_difference", setop::diff);
  t_setop<std::set<E>>("set_intersection", setop::inter);
  t_map_values();
#endif
  t_insert<std::set<E>>("set");
}
#endif

// =================================================================================== slice 2
#if VF_IN_SLICE(2)
#include <fcppt/reference.hpp>
#include <fcppt/optional/alternative.hpp>
#include <fcppt/optional/apply.hpp>
#include <fcppt/optional/assign.hpp>
#include <fcppt/optional/bind.hpp>
#include <fcppt/optional/cat.hpp>
#include <fcppt/optional/combine.hpp>
#include <fcppt/optional/copy_value.hpp>
#include <fcppt/optional/filter.hpp>
#include <fcppt/optional/from.hpp>
#include <fcppt/optional/join.hpp>
#include <fcppt/optional/make_if.hpp>
#include <fcppt/optional/map.hpp>
#include <fcppt/optional/maybe.hpp>
#include <fcppt/optional/maybe_multi.hpp>
#include <fcppt/optional/maybe_void.hpp>
#include <fcppt/optional/object.hpp>
#include <fcppt/optional/reference.hpp>
#include <fcppt/optional/sequence.hpp>
#include <fcppt/optional/to_container.hpp>
#include <fcppt/optional/to_exception.hpp>
#include <stdexcept>
namespace
{
using oE = fcppt::optional::object<E>;
oE mk_opt(case_t &cx, bool present) { return present ? oE{mk<E>(cx)} : oE{}; }

// a sequence of optionals; presence pattern: 0 = all present, 1 = none, 2 = random, 3 = only the last missing
template <class C>
C mk_opt_seq(case_t &cx, unsigned n, unsigned pattern)
{
  C c;
  for (unsigned i = 0; i < n; ++i)
  {
    bool const present = pattern == 0 ? true : pattern == 1 ? false : pattern == 2 ? cx.rng().chance(1, 2) : i + 1 != n;
    c.push_back(mk_opt(cx, present));
  }
  return c;
}

void t_optional_unary()
{
  auto mk1 = [](case_t &cx, unsigned sh) { return std::make_tuple(mk_opt(cx, sh == 1)); };
  nary<1>("optional::map", 2, mk1, [](auto c0, auto &a) { return fcppt::optional::map(FW(c0, a), conv<E>{}); });
  nary<1>("optional::map" C05_BYVAL, 2, mk1, [](auto c0, auto &a) { return fcppt::optional::map(FW(c0, a), byval{}); }, keep_all{},
          only_rvalues{});
  nary<1>("optional::bind" C05_BYVAL, 2, mk1,
          [](auto c0, auto &a) { return fcppt::optional::bind(FW(c0, a), [](E x) { return oE{std::move(x)}; }); }, keep_all{},
          only_rvalues{});
  nary<1>("optional::maybe_void" C05_BYVAL, 2, mk1,
          [](auto c0, auto &a) {
            std::vector<E> sink;
            fcppt::optional::maybe_void(FW(c0, a), [&sink](E x) { sink.push_back(std::move(x)); });
            return sink;
          },
          keep_all{}, only_rvalues{});
  nary<1>("optional::map/to-other-type", 2, mk1, [](auto c0, auto &a) { return fcppt::optional::map(FW(c0, a), conv<F>{}); });
  nary<1>("optional::bind/some", 2, mk1, [](auto c0, auto &a) {
    return fcppt::optional::bind(FW(c0, a), [](auto &&x) { return oE{conv<E>{}(std::forward<decltype(x)>(x))}; });
  });
  nary<1>(
      "optional::bind/nothing", 2, mk1,
      [](auto c0, auto &a) {
        return fcppt::optional::bind(FW(c0, a), [](auto &&x) {
          (void)x.read();
          return oE{};
        });
      },
      at_most_once{});
  {
    int dflt = 0;
    case_t *cur = nullptr;
    auto mkd = [&](case_t &cx, unsigned sh) {
      cur = &cx;
      dflt = 0;
      return std::make_tuple(mk_opt(cx, sh == 1));
    };
    auto post = [&](case_t &cx, unsigned sh, std::vector<int> const &all, auto const &r, auto const &) {
      std::vector<int> want = all;
      if (sh == 0)
        want.push_back(dflt);
      cx.result_of(r, &want);
    };
    auto make_default = [&] {
      dflt = cur->fresh();
      return E(make_t{}, dflt);
    };
    nary<1>(
        "optional::maybe", 2, mkd, [&](auto c0, auto &a) { return fcppt::optional::maybe(FW(c0, a), make_default, conv<E>{}); },
        post);
    nary<1>(
        "optional::from", 2, mkd, [&](auto c0, auto &a) { return fcppt::optional::from(FW(c0, a), make_default); }, post);
    nary<1>(
        "optional::alternative/some", 2, mkd,
        [&](auto c0, auto &a) { return fcppt::optional::alternative(FW(c0, a), [&] { return oE{make_default()}; }); }, post);
    nary<1>(
        "optional::to_exception", 1, [&](case_t &cx, unsigned) { return std::make_tuple(mk_opt(cx, true)); },
        [&](auto c0, auto &a) {
          // returns a reference into the argument: only a snapshot of what it refers to is kept
          auto &&ref = fcppt::optional::to_exception(FW(c0, a), [] { return std::runtime_error("nothing"); });
          return snap_result{snapshot(ref)};
        },
        keep_all{});
  }
  nary<1>(
      "optional::alternative/nothing", 2, mk1,
      [](auto c0, auto &a) { return fcppt::optional::alternative(FW(c0, a), [] { return oE{}; }); });
  nary<1>("optional::maybe_void", 2, mk1, [](auto c0, auto &a) {
    std::vector<E> sink;
    fcppt::optional::maybe_void(FW(c0, a), [&sink](auto &&x) { sink.push_back(conv<E>{}(std::forward<decltype(x)>(x))); });
    return sink;
  });
  for (unsigned keep = 0; keep < 2; ++keep)
    nary<1>(
        std::string("optional::filter/") + (keep ? "accept" : "reject"), 2, mk1,
        [keep](auto c0, auto &a) {
          return fcppt::optional::filter(FW(c0, a), [keep](E const &x) {
            (void)x.read();
            return keep != 0;
          });
        },
        [keep](case_t &cx, unsigned, std::vector<int> const &all, auto const &r, auto const &) {
          std::vector<int> none;
          cx.result_of(r, keep ? &all : &none);
        });
  // filter with a predicate that takes its parameter BY VALUE (legal for the documented signature bool (value_type)) and
  // consumes it: whatever the predicate does with its own parameter object, the optional that filter returns still
  // holds the element ("appears exactly once in the result", "never reads an object after moving from it").  The event
  // log is not judged here (the by-value parameter is the caller's copy); the returned payload is.
#ifndef C05_MO // (a by-value parameter is copy-initialised from the held element: not for the move-only build)
  {
    observed_scope const os;
    for (unsigned rvalue = 0; rvalue < 2; ++rvalue)
      run_case("optional::filter/by-value-consuming-predicate", rvalue ? "R" : "L", "accept", [&](case_t &cx) {
        int const payload = cx.fresh();
        oE src{E(make_t{}, payload)};
        auto const consuming = [](E x) {
          E sink(std::move(x));
          (void)sink;
          return true;
        };
        oE const r = rvalue ? fcppt::optional::filter(std::move(src), consuming) : fcppt::optional::filter(src, consuming);
        if (!r.has_value() || r.get_unsafe().peek() != payload)
          vf::violation(std::string("optional::filter/by-value-consuming-predicate[") + (rvalue ? "R" : "L") + "]/element-lost-from-the-result", "mismatch",
                        "the returned optional holds payload " + std::to_string(r.has_value() ? r.get_unsafe().peek() : -999) + ", the argument held " + std::to_string(payload));
        if (!rvalue && (!src.has_value() || src.get_unsafe().peek() != payload))
          vf::violation("optional::filter/by-value-consuming-predicate[L]/lvalue-argument-changed", "mismatch", "");
        VF_COUNT("filter/by-value-consuming-predicate");
      });
  }
#endif
  // join: optional<optional<E>>: nothing / some(nothing) / some(some(x))
  nary<1>(
      "optional::join", 3,
      [](case_t &cx, unsigned sh) {
        using oo = fcppt::optional::object<oE>;
        return std::make_tuple(sh == 0 ? oo{} : oo{mk_opt(cx, sh == 2)});
      },
      [](auto c0, auto &a) { return fcppt::optional::join(FW(c0, a)); });
  // (C05_NO_CONST_TO_CONTAINER is set by the registry for trees in which the const lvalue flavour is a hard compile error)
  auto tc_filter = [](auto c0) {
#ifdef C05_NO_CONST_TO_CONTAINER
    return std::bool_constant<decltype(c0)::value != cat_c>{};
#else
    (void)c0;
    return std::true_type{};
#endif
  };
  nary<1>("optional::to_container<vector>", 2, mk1,
          [](auto c0, auto &a) { return fcppt::optional::to_container<std::vector<E>>(FW(c0, a)); }, keep_all{}, tc_filter);
  nary<1>("optional::to_container<list>", 2, mk1,
          [](auto c0, auto &a) { return fcppt::optional::to_container<std::list<E>>(FW(c0, a)); }, keep_all{}, tc_filter);
}

void t_optional_seq()
{
  for (unsigned pattern = 0; pattern < 4; ++pattern)
  {
    std::string const pn = pattern == 0 ? "all" : pattern == 1 ? "none" : pattern == 2 ? "random" : "last-missing";
    auto mkv = [pattern](case_t &cx, unsigned n) { return std::make_tuple(mk_opt_seq<std::vector<oE>>(cx, n, pattern)); };
    auto mkl = [pattern](case_t &cx, unsigned n) { return std::make_tuple(mk_opt_seq<std::list<oE>>(cx, n, pattern)); };
    nary<1>("optional::cat<vector>/" + pn, nmax(), mkv,
            [](auto c0, auto &a) { return fcppt::optional::cat<std::vector<E>>(FW(c0, a)); });
    nary<1>("optional::cat<list>/" + pn, nmax(), mkl,
            [](auto c0, auto &a) { return fcppt::optional::cat<std::vector<E>>(FW(c0, a)); });
    auto seq_post = [](case_t &cx, unsigned, std::vector<int> const &all, auto const &r, auto const &args) {
      bool complete = true;
      for (auto const &o : std::get<0>(args))
        (void)o;
      std::vector<int> const s = snapshot(r);
      complete = !s.empty() && s[0] == mk_some;
      std::vector<int> none;
      cx.result(s, complete ? &all : &none);
    };
    // presence of the result: nothing iff some element is nothing (decided before the call)
    auto seq_post2 = [seq_post](case_t &cx, unsigned sh, std::vector<int> const &all, auto const &r, auto const &args) {
      seq_post(cx, sh, all, r, args);
    };
    nary<1>("optional::sequence<vector>/" + pn, nmax(), mkv,
            [](auto c0, auto &a) { return fcppt::optional::sequence<std::vector<E>>(FW(c0, a)); }, seq_post2);
    nary<1>("optional::sequence<list>/" + pn, nmax(), mkl,
            [](auto c0, auto &a) { return fcppt::optional::sequence<std::vector<E>>(FW(c0, a)); }, seq_post2);
  }
}

void t_optional_binary()
{
  auto mk2 = [](case_t &cx, unsigned sh) { return std::make_tuple(mk_opt(cx, (sh & 1U) != 0), mk_opt(cx, (sh & 2U) != 0)); };
  auto both_or_none = [](case_t &cx, unsigned sh, std::vector<int> const &all, auto const &r, auto const &) {
    std::vector<int> none;
    cx.result_of(r, sh == 3 ? &all : &none);
  };
  nary<2>(
      "optional::apply/2", 4, mk2,
      [](auto c0, auto c1, auto &a, auto &b) {
        return fcppt::optional::apply(
            [](auto &&x, auto &&y) {
              return std::make_pair(conv<E>{}(std::forward<decltype(x)>(x)), conv<E>{}(std::forward<decltype(y)>(y)));
            },
            FW(c0, a), FW(c1, b));
      },
      both_or_none);
  nary<2>(
      "optional::apply/2" C05_BYVAL, 4, mk2,
      [](auto c0, auto c1, auto &a, auto &b) {
        return fcppt::optional::apply([](E x, E y) { return std::make_pair(std::move(x), std::move(y)); }, FW(c0, a), FW(c1, b));
      },
      both_or_none, only_rvalues{});
  nary<2>(
      "optional::maybe_multi/2", 4, mk2,
      [](auto c0, auto c1, auto &a, auto &b) {
        return fcppt::optional::maybe_multi(
            [] { return std::vector<E>{}; },
            [](auto &&x, auto &&y) {
              std::vector<E> v;
              v.push_back(conv<E>{}(std::forward<decltype(x)>(x)));
              v.push_back(conv<E>{}(std::forward<decltype(y)>(y)));
              return v;
            },
            FW(c0, a), FW(c1, b));
      },
      both_or_none);
  // combine: the continuation keeps its first argument (and reads the second), so with both present
  // only the first survives - by the continuation's choice, not the library's
  nary<2>(
      "optional::combine", 4, mk2,
      [](auto c0, auto c1, auto &a, auto &b) {
        return fcppt::optional::combine(FW(c0, a), FW(c1, b), [](auto &&x, auto &&y) {
          (void)y.read();
          return conv<E>{}(std::forward<decltype(x)>(x));
        });
      },
      [](case_t &cx, unsigned sh, std::vector<int> const &all, auto const &r, auto const &) {
        std::vector<int> want = all;
        if (sh == 3)
          want.pop_back();
        cx.result_of(r, &want);
      });
}

void t_optional_misc()
{
  // make_if: the value produced by the continuation must reach the result without a copy
  for (unsigned set = 0; set < 2; ++set)
    run_case("optional::make_if", "-", set ? "true" : "false", [&](case_t &cx) {
      int made = 0;
      cx.begin();
      auto r = fcppt::optional::make_if(set != 0, [&] {
        made = cx.fresh();
        return E(make_t{}, made);
      });
      cx.end();
      std::vector<int> want;
      if (set)
        want.push_back(made);
      cx.result_of(r, &want);
    });
  // assign(optional &, arg): the optional is the subject, its old value is documented to be replaced.
  // Only rvalues compile (requires is_same<Element, remove_cv_t<Arg>> with Arg deduced as a reference).
  for (unsigned had = 0; had < 2; ++had)
    run_case("optional::assign", "subject,R", had ? "some" : "nothing", [&](case_t &cx) {
      oE o = mk_opt(cx, had != 0);
      E v = mk<E>(cx);
      std::vector<int> want{v.peek()};
      cx.subject(0, o);
      for (int p : payloads_of(snapshot(o)))
        cx.set_role(p, role::free);
      cx.arg(1, cat_r, v);
      cx.begin();
      E &ref = fcppt::optional::assign(o, std::move(v));
      cx.end();
      (void)ref;
      cx.result_of(o, &want);
    });
#ifndef C05_MO
  // copy_value(optional::reference<E> const &): copies by design; the referenced object is an lvalue
  for (unsigned c = 0; c < 2; ++c)
    for (unsigned sh = 0; sh < 2; ++sh)
      run_case("optional::copy_value", std::string(1, cat_char(static_cast<int>(c))), sh ? "some" : "nothing", [&](case_t &cx) {
        E owner = mk<E>(cx);
        using oref = fcppt::optional::reference<E>;
        oref a = sh ? oref{fcppt::reference<E>{owner}} : oref{};
        std::vector<int> all = payloads_of(snapshot(a)), none;
        cx.arg(0, static_cast<int>(c), a);
        cx.arg(1, cat_l, owner);
        cx.begin();
        auto r = c ? fcppt::optional::copy_value(std::as_const(a)) : fcppt::optional::copy_value(a);
        cx.end();
        cx.result_of(r, sh ? &all : &none);
        cx.unchanged(0, a);
        cx.unchanged(1, owner);
      });
#endif
}
}
void vf_slice_2()
{
  t_optional_unary();
  t_optional_seq();
  t_optional_binary();
  t_optional_misc();
}
#endif

// =================================================================================== slice 3
#if VF_IN_SLICE(3)
#include <fcppt/function.hpp>
#include <fcppt/either/apply.hpp>
#include <fcppt/either/bind.hpp>
#include <fcppt/either/construct.hpp>
#include <fcppt/either/failure_opt.hpp>
#include <fcppt/either/first_success.hpp>
#include <fcppt/either/from_optional.hpp>
#include <fcppt/either/join.hpp>
#include <fcppt/either/loop.hpp>
#include <fcppt/either/map.hpp>
#include <fcppt/either/map_failure.hpp>
#include <fcppt/either/match.hpp>
#include <fcppt/either/object.hpp>
#include <fcppt/either/sequence.hpp>
#include <fcppt/either/success_opt.hpp>
#include <fcppt/either/to_exception.hpp>
#include <fcppt/optional/object.hpp>
#include <stdexcept>
namespace
{
using eFE = fcppt::either::object<F, E>; // failure F, success E
eFE mk_either(case_t &cx, bool success) { return success ? eFE{mk<E>(cx)} : eFE{mk<F>(cx)}; }

void t_either_unary()
{
  auto mk1 = [](case_t &cx, unsigned sh) { return std::make_tuple(mk_either(cx, sh == 1)); };
  nary<1>("either::map", 2, mk1, [](auto c0, auto &a) { return fcppt::either::map(FW(c0, a), conv<E>{}); });
  nary<1>("either::map" C05_BYVAL, 2, mk1, [](auto c0, auto &a) { return fcppt::either::map(FW(c0, a), byval{}); }, keep_all{},
          only_rvalues{});
  nary<1>("either::map_failure" C05_BYVAL, 2, mk1, [](auto c0, auto &a) { return fcppt::either::map_failure(FW(c0, a), byval{}); },
          keep_all{}, only_rvalues{});
  nary<1>("either::bind" C05_BYVAL, 2, mk1,
          [](auto c0, auto &a) { return fcppt::either::bind(FW(c0, a), [](E x) { return eFE{std::move(x)}; }); }, keep_all{},
          only_rvalues{});
  nary<1>("either::match" C05_BYVAL, 2, mk1,
          [](auto c0, auto &a) {
            using res = std::tuple<std::vector<F>, std::vector<E>>;
            return fcppt::either::match(
                FW(c0, a),
                [](F f) {
                  res r;
                  std::get<0>(r).push_back(std::move(f));
                  return r;
                },
                [](E x) {
                  res r;
                  std::get<1>(r).push_back(std::move(x));
                  return r;
                });
          },
          keep_all{}, only_rvalues{});
  nary<1>("either::map/to-other-type", 2, mk1, [](auto c0, auto &a) { return fcppt::either::map(FW(c0, a), conv<G>{}); });
  nary<1>("either::map_failure", 2, mk1, [](auto c0, auto &a) { return fcppt::either::map_failure(FW(c0, a), conv<F>{}); });
  nary<1>("either::map_failure/to-other-type", 2, mk1,
          [](auto c0, auto &a) { return fcppt::either::map_failure(FW(c0, a), conv<G>{}); });
  nary<1>("either::bind/success", 2, mk1, [](auto c0, auto &a) {
    return fcppt::either::bind(FW(c0, a), [](auto &&x) { return eFE{conv<E>{}(std::forward<decltype(x)>(x))}; });
  });
  {
    // the continuation turns the success into a failure made of the same element
    nary<1>("either::bind/to-failure", 2, mk1, [](auto c0, auto &a) {
      return fcppt::either::bind(FW(c0, a), [](auto &&x) { return eFE{conv<F>{}(std::forward<decltype(x)>(x))}; });
    });
  }
  nary<1>("either::match", 2, mk1, [](auto c0, auto &a) {
    using res = std::tuple<std::vector<F>, std::vector<E>>;
    return fcppt::either::match(
        FW(c0, a),
        [](auto &&f) {
          res r;
          std::get<0>(r).push_back(conv<F>{}(std::forward<decltype(f)>(f)));
          return r;
        },
        [](auto &&x) {
          res r;
          std::get<1>(r).push_back(conv<E>{}(std::forward<decltype(x)>(x)));
          return r;
        });
  });
  nary<1>(
      "either::success_opt", 2, mk1, [](auto c0, auto &a) { return fcppt::either::success_opt(FW(c0, a)); },
      [](case_t &cx, unsigned sh, std::vector<int> const &all, auto const &r, auto const &) {
        std::vector<int> none;
        cx.result_of(r, sh == 1 ? &all : &none);
      });
  nary<1>(
      "either::failure_opt", 2, mk1, [](auto c0, auto &a) { return fcppt::either::failure_opt(FW(c0, a)); },
      [](case_t &cx, unsigned sh, std::vector<int> const &all, auto const &r, auto const &) {
        std::vector<int> none;
        cx.result_of(r, sh == 0 ? &all : &none);
      });
  nary<1>(
      "either::to_exception", 1, [](case_t &cx, unsigned) { return std::make_tuple(mk_either(cx, true)); },
      [](auto c0, auto &a) {
        auto &&ref = fcppt::either::to_exception(FW(c0, a), [](auto &&) { return std::runtime_error("failure"); });
        return snap_result{snapshot(ref)};
      });
  // join: either<F, either<F,E>>: outer failure / inner failure / inner success
  nary<1>(
      "either::join", 3,
      [](case_t &cx, unsigned sh) {
        using ee = fcppt::either::object<F, eFE>;
        return std::make_tuple(sh == 0 ? ee{mk<F>(cx)} : ee{mk_either(cx, sh == 2)});
      },
      [](auto c0, auto &a) { return fcppt::either::join(FW(c0, a)); });
  // from_optional(optional, failure function)
  {
    int made = 0;
    case_t *cur = nullptr;
    nary<1>(
        "either::from_optional", 2,
        [&](case_t &cx, unsigned sh) {
          cur = &cx;
          made = 0;
          using oE = fcppt::optional::object<E>;
          return std::make_tuple(sh == 1 ? oE{mk<E>(cx)} : oE{});
        },
        [&](auto c0, auto &a) {
          return fcppt::either::from_optional(FW(c0, a), [&] {
            made = cur->fresh();
            return F(make_t{}, made);
          });
        },
        [&](case_t &cx, unsigned sh, std::vector<int> const &all, auto const &r, auto const &) {
          std::vector<int> want = all;
          if (sh == 0)
            want.push_back(made);
          cx.result_of(r, &want);
        });
  }
}

void t_either_multi()
{
  auto mk2 = [](case_t &cx, unsigned sh) { return std::make_tuple(mk_either(cx, (sh & 1U) != 0), mk_either(cx, (sh & 2U) != 0)); };
  // documented: the failure of the smallest i such that e_i is a failure, otherwise f(s_1, .., s_n)
  nary<2>(
      "either::apply/2", 4, mk2,
      [](auto c0, auto c1, auto &a, auto &b) {
        return fcppt::either::apply(
            [](auto &&x, auto &&y) {
              return std::make_pair(conv<E>{}(std::forward<decltype(x)>(x)), conv<E>{}(std::forward<decltype(y)>(y)));
            },
            FW(c0, a), FW(c1, b));
      },
      [](case_t &cx, unsigned sh, std::vector<int> const &all, auto const &r, auto const &) {
        std::vector<int> want;
        if (sh == 3)
          want = all;
        else if ((sh & 1U) == 0)
          want.push_back(all[0]);
        else
          want.push_back(all[1]);
        cx.result_of(r, &want);
      });
  nary<3>(
      "either::apply/3", 8,
      [](case_t &cx, unsigned sh) {
        return std::make_tuple(mk_either(cx, (sh & 1U) != 0), mk_either(cx, (sh & 2U) != 0), mk_either(cx, (sh & 4U) != 0));
      },
      [](auto c0, auto c1, auto c2, auto &a, auto &b, auto &c) {
        return fcppt::either::apply(
            [](auto &&x, auto &&y, auto &&z) {
              return std::make_tuple(conv<E>{}(std::forward<decltype(x)>(x)), conv<E>{}(std::forward<decltype(y)>(y)),
                                     conv<E>{}(std::forward<decltype(z)>(z)));
            },
            FW(c0, a), FW(c1, b), FW(c2, c));
      },
      [](case_t &cx, unsigned sh, std::vector<int> const &all, auto const &r, auto const &) {
        std::vector<int> want;
        if (sh == 7)
          want = all;
        else
          for (unsigned i = 0; i < 3; ++i)
            if ((sh & (1U << i)) == 0)
            {
              want.push_back(all[i]);
              break;
            }
        cx.result_of(r, &want);
      },
      // 27 combinations of categories would be instantiated; keep those with at most one lvalue kind mixed in
      [](auto c0, auto c1, auto c2) {
        constexpr int a = decltype(c0)::value, b = decltype(c1)::value, c = decltype(c2)::value;
        return std::bool_constant<(a == b && b == c) || (a == cat_r && b == cat_r) || (b == cat_r && c == cat_r) ||
                                  (a == cat_r && c == cat_r)>{};
      });
  // sequence: failure pattern 0 = none, 1 = first element, 2 = last element, 3 = random
  for (unsigned pattern = 0; pattern < 4; ++pattern)
  {
    std::string const pn = pattern == 0 ? "all-success" : pattern == 1 ? "first-fails" : pattern == 2 ? "last-fails" : "random";
    std::vector<int> want;
    auto mkseq = [&want, pattern](case_t &cx, unsigned n, auto &c) {
      bool failed = false;
      std::vector<int> succ;
      want.clear();
      for (unsigned i = 0; i < n; ++i)
      {
        bool const ok = pattern == 0 ? true : pattern == 1 ? i != 0 : pattern == 2 ? i + 1 != n : cx.rng().chance(2, 3);
        c.push_back(mk_either(cx, ok));
        int const p = payloads_of(snapshot(c.back()))[0];
        if (!ok && !failed)
        {
          failed = true;
          want.push_back(p);
        }
        if (ok)
          succ.push_back(p);
      }
      if (!failed)
        want = succ;
    };
    auto post = [&want](case_t &cx, unsigned, std::vector<int> const &, auto const &r, auto const &) { cx.result_of(r, &want); };
    nary<1>(
        "either::sequence<vector>/" + pn, nmax(),
        [&](case_t &cx, unsigned n) {
          std::vector<eFE> c;
          mkseq(cx, n, c);
          return std::make_tuple(std::move(c));
        },
        [](auto c0, auto &a) { return fcppt::either::sequence<std::vector<E>>(FW(c0, a)); }, post, only_rvalues{});
    nary<1>(
        "either::sequence<list>/" + pn, nmax(),
        [&](case_t &cx, unsigned n) {
          std::list<eFE> c;
          mkseq(cx, n, c);
          return std::make_tuple(std::move(c));
        },
        [](auto c0, auto &a) { return fcppt::either::sequence<std::vector<E>>(FW(c0, a)); }, post, only_rvalues{});
  }
}

void t_either_produced()
{
  // first_success: a container of functions, each producing an either; produced values must arrive uncopied
  for (unsigned n = 0; n < nmax(); ++n)
    for (unsigned succ_at = 0; succ_at <= n; ++succ_at) // succ_at == n: no success
      run_case("either::first_success", "C", "n=" + std::to_string(n) + " success-at=" + std::to_string(succ_at), [&](case_t &cx) {
        using fn = fcppt::function<eFE()>;
        std::vector<fn> fs;
        std::vector<int> made;
        unsigned calls = 0;
        for (unsigned i = 0; i < n; ++i)
          fs.push_back(fn{[&, i] {
            ++calls;
            made.push_back(cx.fresh());
            return i == succ_at ? eFE{E(make_t{}, made.back())} : eFE{F(make_t{}, made.back())};
          }});
        cx.begin();
        auto r = fcppt::either::first_success(fs);
        cx.end();
        std::vector<int> want;
        if (succ_at < n)
          want.push_back(made.back());
        else
          want = made;
        if (calls != std::min(n, succ_at + 1U))
          cx.viol("continuation-calls", "mismatch", "functions called " + std::to_string(calls) + " times");
        cx.result_of(r, &want);
      });
  // construct(bool, success function, failure function)
  for (unsigned ok = 0; ok < 2; ++ok)
    run_case("either::construct", "-", ok ? "success" : "failure", [&](case_t &cx) {
      int made = 0;
      cx.begin();
      auto r = fcppt::either::construct(
          ok != 0,
          [&] {
            made = cx.fresh();
            return E(make_t{}, made);
          },
          [&] {
            made = cx.fresh();
            return F(make_t{}, made);
          });
      cx.end();
      std::vector<int> want{made};
      cx.result_of(r, &want);
    });
  // loop(next, body): successes are handed to body one by one, the first failure is returned
  for (unsigned n = 0; n < nmax(); ++n)
    run_case("either::loop", "-", "successes=" + std::to_string(n), [&](case_t &cx) {
      std::vector<int> made;
      std::vector<E> sink;
      unsigned k = 0;
      cx.begin();
      F r = fcppt::either::loop(
          [&] {
            made.push_back(cx.fresh());
            return k++ < n ? eFE{E(make_t{}, made.back())} : eFE{F(make_t{}, made.back())};
          },
          [&](E &&x) { sink.push_back(std::move(x)); });
      cx.end();
      std::vector<int> got = snapshot(sink);
      collect(r, got);
      cx.result(got, &made);
    });
}
}
void vf_slice_3()
{
  t_either_unary();
  t_either_multi();
  t_either_produced();
}
#endif

// =================================================================================== slice 4
#if VF_IN_SLICE(4)
#include <fcppt/algorithm/loop.hpp>
#include <fcppt/algorithm/loop_break_tuple.hpp>
#include <fcppt/algorithm/map.hpp>
#include <fcppt/algorithm/map_tuple.hpp>
#include <fcppt/array/object.hpp>
#include <fcppt/optional/object.hpp>
#include <fcppt/tuple/apply.hpp>
#include <fcppt/tuple/concat.hpp>
#include <fcppt/tuple/from_array.hpp>
#include <fcppt/tuple/init.hpp>
#include <fcppt/tuple/invoke.hpp>
#include <fcppt/tuple/make.hpp>
#include <fcppt/tuple/map.hpp>
#include <fcppt/tuple/object.hpp>
#include <fcppt/tuple/push_back.hpp>
#include <fcppt/variant/apply.hpp>
#include <fcppt/variant/match.hpp>
#include <fcppt/variant/object.hpp>
#include <fcppt/variant/to_optional.hpp>
namespace
{
// rvalue in -> moved into a value of the same type; lvalue in -> new derived value of the same type
struct conv_same
{
  template <class X>
  auto operator()(X &&x) const
  {
    return conv<std::remove_cvref_t<X>>{}(std::forward<X>(x));
  }
};
using vEFG = fcppt::variant::object<E, F, G>;
vEFG mk_variant(case_t &cx, unsigned alt) { return alt == 0 ? vEFG{mk<E>(cx)} : alt == 1 ? vEFG{mk<F>(cx)} : vEFG{mk<G>(cx)}; }
using bins = std::tuple<std::vector<E>, std::vector<F>, std::vector<G>>;
template <class X>
void into_bins(bins &b, X &&x)
{
  using T = std::remove_cvref_t<X>;
  std::get<std::vector<T>>(b).push_back(conv<T>{}(std::forward<X>(x)));
}

void t_variant()
{
  auto mk1 = [](case_t &cx, unsigned sh) { return std::make_tuple(mk_variant(cx, sh)); };
  nary<1>("variant::match", 3, mk1, [](auto c0, auto &a) {
    auto one = [](auto &&x) {
      bins b;
      into_bins(b, std::forward<decltype(x)>(x));
      return b;
    };
    return fcppt::variant::match(
        FW(c0, a), [one](auto &&x) requires std::is_same_v<std::remove_cvref_t<decltype(x)>, E> { return one(std::forward<decltype(x)>(x)); },
        [one](auto &&x) requires std::is_same_v<std::remove_cvref_t<decltype(x)>, F> { return one(std::forward<decltype(x)>(x)); },
        [one](auto &&x) requires std::is_same_v<std::remove_cvref_t<decltype(x)>, G> { return one(std::forward<decltype(x)>(x)); });
  });
  nary<1>("variant::match" C05_BYVAL, 3, mk1,
          [](auto c0, auto &a) {
            auto one = [](auto x) {
              bins b;
              into_bins(b, std::move(x));
              return b;
            };
            return fcppt::variant::match(FW(c0, a), [one](E x) { return one(std::move(x)); }, [one](F x) { return one(std::move(x)); },
                                         [one](G x) { return one(std::move(x)); });
          },
          keep_all{}, only_rvalues{});
  nary<1>("variant::apply/1", 3, mk1, [](auto c0, auto &a) {
    return fcppt::variant::apply(
        [](auto &&x) {
          bins b;
          into_bins(b, std::forward<decltype(x)>(x));
          return b;
        },
        FW(c0, a));
  });
  nary<1>("variant::apply/1" C05_BYVAL, 3, mk1,
          [](auto c0, auto &a) {
            return fcppt::variant::apply(
                [](auto x) {
                  bins b;
                  into_bins(b, std::move(x));
                  return b;
                },
                FW(c0, a));
          },
          keep_all{}, only_rvalues{});
  nary<2>(
      "variant::apply/2", 9, [](case_t &cx, unsigned sh) { return std::make_tuple(mk_variant(cx, sh / 3U), mk_variant(cx, sh % 3U)); },
      [](auto c0, auto c1, auto &a, auto &b) {
        return fcppt::variant::apply(
            [](auto &&x, auto &&y) {
              bins r;
              into_bins(r, std::forward<decltype(x)>(x));
              into_bins(r, std::forward<decltype(y)>(y));
              return r;
            },
            FW(c0, a), FW(c1, b));
      });
  auto opt_post = [](unsigned want_alt) {
    return [want_alt](case_t &cx, unsigned sh, std::vector<int> const &all, auto const &r, auto const &) {
      std::vector<int> none;
      cx.result_of(r, sh == want_alt ? &all : &none);
    };
  };
  nary<1>(
      "variant::to_optional<first>", 3, mk1, [](auto c0, auto &a) { return fcppt::variant::to_optional<E>(FW(c0, a)); }, opt_post(0));
  nary<1>(
      "variant::to_optional<last>", 3, mk1, [](auto c0, auto &a) { return fcppt::variant::to_optional<G>(FW(c0, a)); }, opt_post(2));
  // constructing a variant from a value of each alternative
  nary<1>("variant::object(U&&)/first", 1, [](case_t &cx, unsigned) { return std::make_tuple(mk<E>(cx)); },
          [](auto c0, auto &a) { return vEFG{FW(c0, a)}; });
  nary<1>("variant::object(U&&)/last", 1, [](case_t &cx, unsigned) { return std::make_tuple(mk<G>(cx)); },
          [](auto c0, auto &a) { return vEFG{FW(c0, a)}; });
}

using tEFG = fcppt::tuple::object<E, F, G>;
using tE = fcppt::tuple::object<E>;
using tGE = fcppt::tuple::object<G, E>;
tEFG mk_tuple3(case_t &cx)
{
  E a = mk<E>(cx);
  F b = mk<F>(cx);
  G c = mk<G>(cx);
  return tEFG{std::move(a), std::move(b), std::move(c)};
}
tGE mk_tuple2(case_t &cx)
{
  G a = mk<G>(cx);
  E b = mk<E>(cx);
  return tGE{std::move(a), std::move(b)};
}

void t_tuple()
{
  auto mk3 = [](case_t &cx, unsigned) { return std::make_tuple(mk_tuple3(cx)); };
  nary<1>("tuple::map/3", 1, mk3, [](auto c0, auto &a) { return fcppt::tuple::map(FW(c0, a), conv_same{}); });
  nary<1>("tuple::map/3" C05_BYVAL, 1, mk3, [](auto c0, auto &a) { return fcppt::tuple::map(FW(c0, a), byval{}); }, keep_all{},
          only_rvalues{});
  nary<1>("tuple::invoke" C05_BYVAL, 1, mk3,
          [](auto c0, auto &a) {
            return fcppt::tuple::invoke([](E x, F y, G z) { return std::make_tuple(std::move(x), std::move(y), std::move(z)); }, FW(c0, a));
          },
          keep_all{}, only_rvalues{});
  nary<1>("tuple::map/1", 1, [](case_t &cx, unsigned) { return std::make_tuple(tE{mk<E>(cx)}); },
          [](auto c0, auto &a) { return fcppt::tuple::map(FW(c0, a), conv_same{}); });
  nary<1>("algorithm::map<tuple->tuple>", 1, mk3, [](auto c0, auto &a) {
    return fcppt::algorithm::map<tEFG>(FW(c0, a), conv_same{});
  });
  nary<1>("algorithm::map<tuple->tuple>" C05_BYVAL, 1, mk3, [](auto c0, auto &a) { return fcppt::algorithm::map<tEFG>(FW(c0, a), byval{}); },
          keep_all{}, only_rvalues{});
  nary<1>("tuple::map/1" C05_BYVAL, 1, [](case_t &cx, unsigned) { return std::make_tuple(tE{mk<E>(cx)}); },
          [](auto c0, auto &a) { return fcppt::tuple::map(FW(c0, a), byval{}); }, keep_all{}, only_rvalues{});
  nary<1>("algorithm::loop<tuple>", 1, mk3, [](auto c0, auto &a) {
    bins b;
    fcppt::algorithm::loop(FW(c0, a), [&b](auto &&x) { into_bins(b, std::forward<decltype(x)>(x)); });
    return b;
  });
  // (no by-value variant for algorithm::loop: it hands the elements of an rvalue tuple to the function as lvalues - the
  // library itself copies nothing, and loop is not documented to forward)
  nary<1>("tuple::invoke", 1, mk3, [](auto c0, auto &a) {
    return fcppt::tuple::invoke(
        [](auto &&x, auto &&y, auto &&z) {
          bins b;
          into_bins(b, std::forward<decltype(x)>(x));
          into_bins(b, std::forward<decltype(y)>(y));
          into_bins(b, std::forward<decltype(z)>(z));
          return b;
        },
        FW(c0, a));
  });
  nary<2>(
      "tuple::push_back", 2,
      [](case_t &cx, unsigned sh) {
        (void)sh;
        return std::make_tuple(mk_tuple2(cx), mk<F>(cx));
      },
      [](auto c0, auto c1, auto &a, auto &b) { return fcppt::tuple::push_back(FW(c0, a), FW(c1, b)); });
  nary<2>(
      "tuple::push_back/to-empty", 1, [](case_t &cx, unsigned) { return std::make_tuple(fcppt::tuple::object<>{}, mk<F>(cx)); },
      [](auto c0, auto c1, auto &a, auto &b) { return fcppt::tuple::push_back(FW(c0, a), FW(c1, b)); });
  nary<2>(
      "tuple::concat/2", 1, [](case_t &cx, unsigned) { return std::make_tuple(mk_tuple3(cx), mk_tuple2(cx)); },
      [](auto c0, auto c1, auto &a, auto &b) { return fcppt::tuple::concat(FW(c0, a), FW(c1, b)); }, keep_all{}, only_rvalues{});
  // (concat is constrained with is_object<Tuples> on the deduced reference types: lvalues do not compile)
  nary<1>("tuple::concat/1", 1, mk3, [](auto c0, auto &a) { return fcppt::tuple::concat(FW(c0, a)); }, keep_all{}, only_rvalues{});
  nary<2>(
      "tuple::apply/2", 1, [](case_t &cx, unsigned) { return std::make_tuple(mk_tuple2(cx), mk_tuple2(cx)); },
      [](auto c0, auto c1, auto &a, auto &b) {
        return fcppt::tuple::apply(
            [](auto &&x, auto &&y) {
              bins r;
              into_bins(r, std::forward<decltype(x)>(x));
              into_bins(r, std::forward<decltype(y)>(y));
              return r;
            },
            FW(c0, a), FW(c1, b));
      },
      keep_all{},
      // apply_result takes tuple::size of the first deduced type: an lvalue first tuple does not compile
      [](auto c0, auto) { return std::bool_constant<decltype(c0)::value == cat_r>{}; });
  nary<1>(
      "tuple::from_array", 1,
      [](case_t &cx, unsigned) {
        E a = mk<E>(cx), b = mk<E>(cx), c = mk<E>(cx);
        return std::make_tuple(fcppt::array::object<E, 3>{std::move(a), std::move(b), std::move(c)});
      },
      [](auto c0, auto &a) { return fcppt::tuple::from_array(FW(c0, a)); });
  nary<3>(
      "tuple::make", 1, [](case_t &cx, unsigned) { return std::make_tuple(mk<E>(cx), mk<F>(cx), mk<G>(cx)); },
      [](auto c0, auto c1, auto c2, auto &a, auto &b, auto &c) { return fcppt::tuple::make(FW(c0, a), FW(c1, b), FW(c2, c)); },
      keep_all{},
      [](auto c0, auto c1, auto c2) {
        constexpr int a = decltype(c0)::value, b = decltype(c1)::value, c = decltype(c2)::value;
        return std::bool_constant<(a == b && b == c) || (a == cat_r) != (c == cat_r) || (a == cat_r && b != cat_r)>{};
      });
  nary<2>(
      "tuple::object(Args&&...)", 1, [](case_t &cx, unsigned) { return std::make_tuple(mk<G>(cx), mk<E>(cx)); },
      [](auto c0, auto c1, auto &a, auto &b) { return tGE{FW(c0, a), FW(c1, b)}; });
  // init: every produced value must reach the tuple without a copy
  run_case("tuple::init", "-", "3 produced values", [&](case_t &cx) {
    std::vector<int> made;
    cx.begin();
    auto r = fcppt::tuple::init<fcppt::tuple::object<E, E, E>>([&](auto) {
      made.push_back(cx.fresh());
      return E(make_t{}, made.back());
    });
    cx.end();
    cx.result_of(r, &made);
  });
}
}
void vf_slice_4()
{
  t_variant();
  t_tuple();
}
#endif

// =================================================================================== slice 5
#if VF_IN_SLICE(5)
#include <fcppt/array/append.hpp>
#include <fcppt/array/apply.hpp>
#include <fcppt/array/from_range.hpp>
#include <fcppt/array/init.hpp>
#include <fcppt/array/join.hpp>
#include <fcppt/array/make.hpp>
#include <fcppt/array/map.hpp>
#include <fcppt/array/object.hpp>
#include <fcppt/array/push_back.hpp>
#include <fcppt/optional/object.hpp>
#include <fcppt/record/element.hpp>
#include <fcppt/record/get.hpp>
#include <fcppt/record/init.hpp>
#include <fcppt/record/make_label.hpp>
#include <fcppt/record/map.hpp>
#include <fcppt/record/multiply_disjoint.hpp>
#include <fcppt/record/object.hpp>
#include <fcppt/record/permute.hpp>
#include <fcppt/record/set.hpp>
namespace
{
struct conv_same5
{
  template <class X>
  auto operator()(X &&x) const
  {
    return conv<std::remove_cvref_t<X>>{}(std::forward<X>(x));
  }
};
FCPPT_RECORD_MAKE_LABEL(la);
FCPPT_RECORD_MAKE_LABEL(lb);
FCPPT_RECORD_MAKE_LABEL(lc);
using el_a = fcppt::record::element<la, E>;
using el_b = fcppt::record::element<lb, F>;
using el_c = fcppt::record::element<lc, G>;
using rec_ab = fcppt::record::object<el_a, el_b>;
using rec_ba = fcppt::record::object<el_b, el_a>;
using rec_a = fcppt::record::object<el_a>;
using rec_bc = fcppt::record::object<el_b, el_c>;
using rec_abc = fcppt::record::object<el_a, el_b, el_c>;
rec_ab mk_rec_ab(case_t &cx)
{
  E a = mk<E>(cx);
  F b = mk<F>(cx);
  return rec_ab{la{} = std::move(a), lb{} = std::move(b)};
}
rec_bc mk_rec_bc(case_t &cx)
{
  F b = mk<F>(cx);
  G c = mk<G>(cx);
  return rec_bc{lb{} = std::move(b), lc{} = std::move(c)};
}

void t_record()
{
  nary<2>(
      "record::object(label = value...)", 1, [](case_t &cx, unsigned) { return std::make_tuple(mk<E>(cx), mk<F>(cx)); },
      [](auto c0, auto c1, auto &a, auto &b) { return rec_ab{la{} = FW(c0, a), lb{} = FW(c1, b)}; });
  nary<2>(
      "record::object(label = value...)/permuted", 1, [](case_t &cx, unsigned) { return std::make_tuple(mk<E>(cx), mk<F>(cx)); },
      [](auto c0, auto c1, auto &a, auto &b) { return rec_ba{la{} = FW(c0, a), lb{} = FW(c1, b)}; });
  auto mk1 = [](case_t &cx, unsigned) { return std::make_tuple(mk_rec_ab(cx)); };
  // record::map: map_result instantiates element_vector<Record &> for an lvalue record: only rvalues compile
  nary<1>("record::map", 1, mk1, [](auto c0, auto &a) { return fcppt::record::map(FW(c0, a), conv_same5{}); }, keep_all{}, only_rvalues{});
  nary<1>("record::map" C05_BYVAL, 1, mk1, [](auto c0, auto &a) { return fcppt::record::map(FW(c0, a), byval{}); }, keep_all{},
          only_rvalues{});
  nary<1>("record::map/to-optional", 1, mk1, [](auto c0, auto &a) {
    return fcppt::record::map(FW(c0, a), [](auto &&x) {
      using T = std::remove_cvref_t<decltype(x)>;
      return fcppt::optional::object<T>{conv<T>{}(std::forward<decltype(x)>(x))};
    });
  }, keep_all{}, only_rvalues{});
  nary<1>("record::permute", 1, mk1, [](auto c0, auto &a) { return fcppt::record::permute<rec_ba>(FW(c0, a)); });
  nary<1>("record::permute/identity", 1, mk1, [](auto c0, auto &a) { return fcppt::record::permute<rec_ab>(FW(c0, a)); });
  nary<2>(
      "record::multiply_disjoint<1,2>", 1,
      [](case_t &cx, unsigned) {
        E a = mk<E>(cx);
        return std::make_tuple(rec_a{la{} = std::move(a)}, mk_rec_bc(cx));
      },
      [](auto c0, auto c1, auto &a, auto &b) { return fcppt::record::multiply_disjoint(FW(c0, a), FW(c1, b)); });
  nary<2>(
      "record::multiply_disjoint<2,1>", 1,
      [](case_t &cx, unsigned) {
        E a = mk<E>(cx);
        return std::make_tuple(mk_rec_bc(cx), rec_a{la{} = std::move(a)});
      },
      [](auto c0, auto c1, auto &a, auto &b) { return fcppt::record::multiply_disjoint(FW(c0, a), FW(c1, b)); });
  run_case("record::init", "-", "3 produced values", [&](case_t &cx) {
    std::vector<int> made;
    cx.begin();
    auto r = fcppt::record::init<rec_abc>([&]<typename L, typename T>(fcppt::record::element<L, T>) {
      made.push_back(cx.fresh());
      return T(make_t{}, made.back());
    });
    cx.end();
    cx.result_of(r, &made);
  });
  // set<Label>(record &, value): the record is the subject, the old value of that label is replaced
  for_cats<1>([&](auto c1) {
    constexpr int C1 = decltype(c1)::value;
    run_case("record::set", std::string("subject,") + cat_char(C1), "label a", [&](case_t &cx) {
      rec_ab r = mk_rec_ab(cx);
      E v = mk<E>(cx);
      std::vector<int> want{v.peek(), fcppt::record::get<lb>(r).peek()};
      cx.subject(0, r);
      cx.set_role(fcppt::record::get<la>(r).peek(), role::free);
      cx.arg(1, C1, v);
      cx.begin();
      fcppt::record::set<la>(r, FW(c1, v));
      cx.end();
      cx.result_of(r, &want);
      if (C1 != cat_r)
        cx.unchanged(1, v);
    });
  });
}

template <class T, std::size_t... I>
fcppt::array::object<T, sizeof...(I)> mk_fa_impl(case_t &cx, std::index_sequence<I...>)
{
  return fcppt::array::object<T, sizeof...(I)>{((void)I, T(make_t{}, cx.fresh()))...};
}
template <class T, std::size_t N>
fcppt::array::object<T, N> mk_fa(case_t &cx)
{
  return mk_fa_impl<T>(cx, std::make_index_sequence<N>{});
}

template <std::size_t N1, std::size_t N2>
void t_array_binary(std::string const &inst)
{
  auto mk2 = [](case_t &cx, unsigned) { return std::make_tuple(mk_fa<E, N1>(cx), mk_fa<E, N2>(cx)); };
  nary<2>("array::append<" + inst + ">", 1, mk2,
          [](auto c0, auto c1, auto &a, auto &b) { return fcppt::array::append(FW(c0, a), FW(c1, b)); }, keep_all{}, first_rvalue{});
  nary<2>("array::join<" + inst + ">", 1, mk2,
          [](auto c0, auto c1, auto &a, auto &b) { return fcppt::array::join(FW(c0, a), FW(c1, b)); }, keep_all{}, first_rvalue{});
}

void t_array()
{
  auto mk3 = [](case_t &cx, unsigned) { return std::make_tuple(mk_fa<E, 3>(cx)); };
  nary<1>("array::map<3>", 1, mk3, [](auto c0, auto &a) { return fcppt::array::map(FW(c0, a), conv<E>{}); });
  nary<1>("array::map<3>" C05_BYVAL, 1, mk3, [](auto c0, auto &a) { return fcppt::array::map(FW(c0, a), byval{}); }, keep_all{},
          only_rvalues{});
  nary<1>("array::apply<3>/1" C05_BYVAL, 1, mk3, [](auto c0, auto &a) { return fcppt::array::apply(byval{}, FW(c0, a)); }, keep_all{},
          only_rvalues{});
  nary<1>("array::map<3>/to-other-type", 1, mk3, [](auto c0, auto &a) { return fcppt::array::map(FW(c0, a), conv<F>{}); });
  nary<1>("array::map<1>", 1, [](case_t &cx, unsigned) { return std::make_tuple(mk_fa<E, 1>(cx)); },
          [](auto c0, auto &a) { return fcppt::array::map(FW(c0, a), conv<E>{}); });
  t_array_binary<2, 2>("2,2");
  t_array_binary<1, 3>("1,3");
  t_array_binary<3, 1>("3,1");
  nary<1>("array::join<3>/1", 1, mk3, [](auto c0, auto &a) { return fcppt::array::join(FW(c0, a)); });
  nary<3>(
      "array::join<1,2,1>", 1, [](case_t &cx, unsigned) { return std::make_tuple(mk_fa<E, 1>(cx), mk_fa<E, 2>(cx), mk_fa<E, 1>(cx)); },
      [](auto c0, auto c1, auto c2, auto &a, auto &b, auto &c) { return fcppt::array::join(FW(c0, a), FW(c1, b), FW(c2, c)); },
      keep_all{},
      [](auto c0, auto c1, auto c2) {
        constexpr int a = decltype(c0)::value, b = decltype(c1)::value, c = decltype(c2)::value;
        // all equal, or exactly one argument differs from two rvalues / two lvalues
        return std::bool_constant<a == cat_r && ((b == c) || (b != cat_c && c != cat_c))>{};
      });
  nary<2>(
      "array::push_back<2>", 1, [](case_t &cx, unsigned) { return std::make_tuple(mk_fa<E, 2>(cx), mk<E>(cx)); },
      [](auto c0, auto c1, auto &a, auto &b) { return fcppt::array::push_back(FW(c0, a), FW(c1, b)); }, keep_all{}, first_rvalue{});
  nary<2>(
      "array::apply<2>/2", 1, [](case_t &cx, unsigned) { return std::make_tuple(mk_fa<E, 2>(cx), mk_fa<F, 2>(cx)); },
      [](auto c0, auto c1, auto &a, auto &b) {
        return fcppt::array::apply(
            [](auto &&x, auto &&y) {
              return std::make_pair(conv<E>{}(std::forward<decltype(x)>(x)), conv<F>{}(std::forward<decltype(y)>(y)));
            },
            FW(c0, a), FW(c1, b));
      });
  nary<1>("array::apply<3>/1", 1, mk3, [](auto c0, auto &a) { return fcppt::array::apply(conv<E>{}, FW(c0, a)); });
  // from_range<3>: present iff the source has exactly 3 elements
  auto fr_post = [](case_t &cx, unsigned n, std::vector<int> const &all, auto const &r, auto const &) {
    std::vector<int> none;
    cx.result_of(r, n == 3 ? &all : &none);
  };
  nary<1>(
      "array::from_range<3,vector>", 5, [](case_t &cx, unsigned n) { return std::make_tuple(make_seq<std::vector<E>>(cx, n)); },
      [](auto c0, auto &a) { return fcppt::array::from_range<3>(FW(c0, a)); }, fr_post);
  nary<1>(
      "array::from_range<3,deque>", 5, [](case_t &cx, unsigned n) { return std::make_tuple(make_seq<std::deque<E>>(cx, n)); },
      [](auto c0, auto &a) { return fcppt::array::from_range<3>(FW(c0, a)); }, fr_post);
  nary<1>(
      "array::from_range<3,std::array>", 1, [](case_t &cx, unsigned) { return std::make_tuple(make_std_array<E, 3>(cx)); },
      [](auto c0, auto &a) { return fcppt::array::from_range<3>(FW(c0, a)); },
      [](case_t &cx, unsigned, std::vector<int> const &all, auto const &r, auto const &) { cx.result_of(r, &all); });
  nary<3>(
      "array::make", 1, [](case_t &cx, unsigned) { return std::make_tuple(mk<E>(cx), mk<E>(cx), mk<E>(cx)); },
      [](auto c0, auto c1, auto c2, auto &a, auto &b, auto &c) { return fcppt::array::make(FW(c0, a), FW(c1, b), FW(c2, c)); },
      keep_all{},
      [](auto c0, auto c1, auto c2) {
        constexpr int a = decltype(c0)::value, b = decltype(c1)::value, c = decltype(c2)::value;
        return std::bool_constant<(a == b && b == c) || (a != cat_c && b != cat_c && c != cat_c)>{};
      });
  nary<2>(
      "array::object(Args&&...)", 1, [](case_t &cx, unsigned) { return std::make_tuple(mk<E>(cx), mk<E>(cx)); },
      [](auto c0, auto c1, auto &a, auto &b) { return fcppt::array::object<E, 2>{FW(c0, a), FW(c1, b)}; });
  run_case("array::init", "-", "3 produced values", [&](case_t &cx) {
    std::vector<int> made;
    cx.begin();
    auto r = fcppt::array::init<fcppt::array::object<E, 3>>([&](auto) {
      made.push_back(cx.fresh());
      return E(make_t{}, made.back());
    });
    cx.end();
    cx.result_of(r, &made);
  });
}
}
void vf_slice_5()
{
  t_record();
  t_array();
}
#endif

// =================================================================================== slice 6
#if VF_IN_SLICE(6)
#include <fcppt/container/grid/apply.hpp>
#include <fcppt/container/grid/fill.hpp>
#include <fcppt/container/grid/map.hpp>
#include <fcppt/container/grid/object.hpp>
#include <fcppt/container/grid/resize.hpp>
#include <fcppt/container/grid/static_row.hpp>
#include <fcppt/container/tree/map.hpp>
#include <fcppt/container/tree/object.hpp>
#include <fcppt/optional/object.hpp>
#include <iterator>
namespace c05
{
template <class T, fcppt::container::grid::size_type N, class A>
struct collector<fcppt::container::grid::object<T, N, A>>
{
  static void run(fcppt::container::grid::object<T, N, A> const &x, std::vector<int> &o)
  {
    o.push_back(mk_seq - static_cast<int>(x.content()));
    for (fcppt::container::grid::size_type i = 0; i < N; ++i)
      o.push_back(-1000 - static_cast<int>(x.size().get_unsafe(i)));
    for (auto const &e : x)
      collect(e, o);
  }
};
}
namespace
{
using gridE = fcppt::container::grid::object<E, 2>;
using gridF = fcppt::container::grid::object<F, 2>;
template <class Gr>
Gr mk_grid(case_t &cx, unsigned w, unsigned h)
{
  return Gr(typename Gr::dim(w, h), [&cx](typename Gr::pos const &) { return typename Gr::value_type(make_t{}, cx.fresh()); });
}
unsigned const grid_w[] = {0, 1, 2, 3, 1}, grid_h[] = {0, 1, 2, 1, 3};

void t_grid()
{
  auto mk1 = [](case_t &cx, unsigned sh) { return std::make_tuple(mk_grid<gridE>(cx, grid_w[sh], grid_h[sh])); };
  nary<1>("grid::map", 5, mk1, [](auto c0, auto &a) { return fcppt::container::grid::map(FW(c0, a), conv<E>{}); });
  nary<1>("grid::map" C05_BYVAL, 5, mk1, [](auto c0, auto &a) { return fcppt::container::grid::map(FW(c0, a), byval{}); }, keep_all{},
          only_rvalues{});
  nary<1>("grid::apply/1" C05_BYVAL, 5, mk1, [](auto c0, auto &a) { return fcppt::container::grid::apply(byval{}, FW(c0, a)); },
          keep_all{}, only_rvalues{});
  nary<1>("grid::map/to-other-type", 5, mk1, [](auto c0, auto &a) { return fcppt::container::grid::map(FW(c0, a), conv<F>{}); });
  nary<1>("grid::apply/1", 5, mk1, [](auto c0, auto &a) { return fcppt::container::grid::apply(conv<E>{}, FW(c0, a)); });
  // apply with two grids: equal sizes -> every pair reaches the continuation; different sizes -> empty result
  nary<2>(
      "grid::apply/2", 4,
      [](case_t &cx, unsigned sh) {
        return std::make_tuple(mk_grid<gridE>(cx, grid_w[sh + 1], grid_h[sh + 1]),
                               mk_grid<gridF>(cx, sh == 3 ? 1U : grid_w[sh + 1], sh == 3 ? 1U : grid_h[sh + 1]));
      },
      [](auto c0, auto c1, auto &a, auto &b) {
        return fcppt::container::grid::apply(
            [](auto &&x, auto &&y) {
              return std::make_pair(conv<E>{}(std::forward<decltype(x)>(x)), conv<F>{}(std::forward<decltype(y)>(y)));
            },
            FW(c0, a), FW(c1, b));
      },
      [](case_t &cx, unsigned sh, std::vector<int> const &all, auto const &r, auto const &) {
        std::vector<int> none;
        cx.result_of(r, sh == 3 ? &none : &all);
      });
  // resize: elements whose position exists in both sizes are kept, the others come from init
  {
    std::vector<int> want;
    case_t *cur = nullptr;
    unsigned cur_sh = 0;
    static unsigned const ow[] = {2, 2, 3, 0, 2}, oh[] = {2, 2, 2, 0, 3}, nw[] = {3, 1, 2, 2, 2}, nh[] = {3, 2, 1, 1, 3};
    nary<1>(
        "grid::resize", 5,
        [&](case_t &cx, unsigned sh) {
          cur = &cx;
          cur_sh = sh;
          want.clear();
          gridE g = mk_grid<gridE>(cx, ow[sh], oh[sh]);
          for (unsigned y = 0; y < oh[sh] && y < nh[sh]; ++y)
            for (unsigned x = 0; x < ow[sh] && x < nw[sh]; ++x)
              want.push_back(g.get_unsafe(gridE::pos(x, y)).peek());
          return std::make_tuple(std::move(g));
        },
        [&](auto c0, auto &a) {
          unsigned const sh = cur_sh;
          return fcppt::container::grid::resize(FW(c0, a), gridE::dim(nw[sh], nh[sh]), [&](gridE::pos const &) {
            want.push_back(cur->fresh());
            return E(make_t{}, want.back());
          });
        },
        [&](case_t &cx, unsigned, std::vector<int> const &, auto const &r, auto const &) { cx.result_of(r, &want); });
  }
  // construction from static rows
  nary<2>(
      "grid::object(static rows)", 1,
      [](case_t &cx, unsigned) {
        E a = mk<E>(cx), b = mk<E>(cx), c = mk<E>(cx), d = mk<E>(cx);
        return std::make_tuple(fcppt::container::grid::static_row(std::move(a), std::move(b)),
                               fcppt::container::grid::static_row(std::move(c), std::move(d)));
      },
      // (is_static_row is tested on the deduced reference types: lvalue rows do not compile)
      [](auto c0, auto c1, auto &a, auto &b) { return gridE(FW(c0, a), FW(c1, b)); }, keep_all{}, only_rvalues{});
  nary<2>(
      "grid::static_row", 1, [](case_t &cx, unsigned) { return std::make_tuple(mk<E>(cx), mk<E>(cx)); },
      [](auto c0, auto c1, auto &a, auto &b) { return fcppt::container::grid::static_row(FW(c0, a), FW(c1, b)); });
  // construction from a function: produced values
  run_case("grid::object(dim, function)", "-", "2x2", [&](case_t &cx) {
    std::vector<int> made;
    cx.begin();
    gridE g(gridE::dim(2U, 2U), [&](gridE::pos const &) {
      made.push_back(cx.fresh());
      return E(make_t{}, made.back());
    });
    cx.end();
    cx.result_of(g, &made);
  });
  // copy / move of a whole grid
  nary<1>("grid::object(object)", 3, mk1, [](auto c0, auto &a) { return gridE(FW(c0, a)); });
  // fill: the grid is the subject, every element is documented to be overwritten
  run_case("grid::fill", "subject", "2x2", [&](case_t &cx) {
    gridE g = mk_grid<gridE>(cx, 2, 2);
    cx.subject(0, g);
    for (int p : payloads_of(snapshot(g)))
      cx.set_role(p, role::free);
    std::vector<int> made;
    cx.begin();
    fcppt::container::grid::fill(g, [&](gridE::pos const &) {
      made.push_back(cx.fresh());
      return E(make_t{}, made.back());
    });
    cx.end();
    cx.result_of(g, &made);
  });
}

using treeE = fcppt::container::tree::object<E>;
// root with k children; the first child has a child of its own
treeE mk_tree(case_t &cx, unsigned k)
{
  treeE t(mk<E>(cx));
  for (unsigned i = 0; i < k; ++i)
  {
    treeE c(mk<E>(cx));
    if (i == 0)
      c.push_back(mk<E>(cx));
    t.push_back(std::move(c));
  }
  return t;
}
template <class Op>
void tree_subject_case(std::string const &entry, std::string const &cats, std::string const &shape, unsigned k, Op op)
{
  run_case(entry, cats, shape, [&](case_t &cx) {
    treeE t = mk_tree(cx, k);
    op(cx, t);
  });
}

void t_tree()
{
  nary<1>("tree::object(value)", 1, [](case_t &cx, unsigned) { return std::make_tuple(mk<E>(cx)); },
          [](auto c0, auto &a) { return treeE(FW(c0, a)); });
  nary<1>("tree::object(object)", 3, [](case_t &cx, unsigned k) { return std::make_tuple(mk_tree(cx, k)); },
          [](auto c0, auto &a) { return treeE(FW(c0, a)); });
  for (unsigned k = 0; k < 3; ++k)
    run_case("tree::object(value, children)", "R,R", "children=" + std::to_string(k), [&](case_t &cx) {
      E v = mk<E>(cx);
      treeE::child_list l;
      for (unsigned i = 0; i < k; ++i)
        l.push_back(mk_tree(cx, i));
      std::vector<int> all = payloads_of(snapshot(l));
      all.push_back(v.peek());
      cx.arg(0, cat_r, v);
      cx.arg(1, cat_r, l);
      cx.begin();
      treeE t(std::move(v), std::move(l));
      cx.end();
      cx.result_of(t, &all);
    });
  // adding a value: push_back / push_front / insert(position)
  for (unsigned where = 0; where < 4; ++where)
  {
    char const *names[] = {"push_back", "push_front", "insert/begin", "insert/middle"};
    for_cats<1>([&](auto c1) {
      constexpr int C1 = decltype(c1)::value;
      for (unsigned k = 0; k < 3; ++k)
        tree_subject_case(std::string("tree::") + names[where] + "(value)", std::string("subject,") + cat_char(C1),
                          "children=" + std::to_string(k), k, [&](case_t &cx, treeE &t) {
                            E v = mk<E>(cx);
                            std::vector<int> all = payloads_of(snapshot(t));
                            all.push_back(v.peek());
                            cx.subject(0, t);
                            cx.arg(1, C1, v);
                            cx.begin();
                            if (where == 0)
                              t.push_back(FW(c1, v));
                            else if (where == 1)
                              t.push_front(FW(c1, v));
                            else if (where == 2)
                              t.insert(t.begin(), FW(c1, v));
                            else
                              t.insert(k ? std::next(t.begin()) : t.end(), FW(c1, v));
                            cx.end();
                            cx.result_of(t, &all);
                            if (C1 != cat_r)
                              cx.unchanged(1, v);
                          });
    });
    // adding a whole tree (object &&)
    for (unsigned k = 0; k < 3; ++k)
      tree_subject_case(std::string("tree::") + names[where] + "(object&&)", "subject,R", "children=" + std::to_string(k), k,
                        [&](case_t &cx, treeE &t) {
                          treeE sub = mk_tree(cx, 1);
                          std::vector<int> all = payloads_of(snapshot(t));
                          for (int p : payloads_of(snapshot(sub)))
                            all.push_back(p);
                          cx.subject(0, t);
                          cx.arg(1, cat_r, sub);
                          cx.begin();
                          if (where == 0)
                            t.push_back(std::move(sub));
                          else if (where == 1)
                            t.push_front(std::move(sub));
                          else if (where == 2)
                            t.insert(t.begin(), std::move(sub));
                          else
                            t.insert(k ? std::next(t.begin()) : t.end(), std::move(sub));
                          cx.end();
                          cx.result_of(t, &all);
                        });
  }
  // taking a subtree out: pop_back / pop_front / release(first) / release(last)
  for (unsigned how = 0; how < 4; ++how)
  {
    char const *names[] = {"pop_back", "pop_front", "release/first", "release/last"};
    for (unsigned k = how < 2 ? 0U : 1U; k < 4; ++k)
      tree_subject_case(std::string("tree::") + names[how], "subject", "children=" + std::to_string(k), k, [&](case_t &cx, treeE &t) {
        std::vector<int> const all = payloads_of(snapshot(t));
        cx.subject(0, t);
        std::vector<int> taken;
        if (k > 0)
        {
          bool const last = how == 0 || how == 3;
          taken = payloads_of(snapshot(last ? t.children().back() : t.children().front()));
          for (int p : taken)
            cx.set_role(p, role::rv); // must be moved out, never copied
        }
        std::vector<int> got;
        cx.begin();
        if (how == 0)
          got = snapshot(t.pop_back());
        else if (how == 1)
          got = snapshot(t.pop_front());
        else if (how == 2)
          got = snapshot(t.release(t.begin()));
        else
          got = snapshot(t.release(std::prev(t.end())));
        cx.end();
        cx.result(got, &taken);
        std::vector<int> both = got;
        collect(t, both);
        cx.result(both, &all);
      });
  }
  // value(new value): the old root value is documented to be replaced
  for_cats<1>([&](auto c1) {
    constexpr int C1 = decltype(c1)::value;
    tree_subject_case("tree::value(value)", std::string("subject,") + cat_char(C1), "children=1", 1, [&](case_t &cx, treeE &t) {
      E v = mk<E>(cx);
      std::vector<int> all = payloads_of(snapshot(t));
      all[0] = v.peek(); // snapshot order: root first
      cx.subject(0, t);
      cx.set_role(t.value().peek(), role::free);
      cx.arg(1, C1, v);
      cx.begin();
      t.value(FW(c1, v));
      cx.end();
      cx.result_of(t, &all);
      if (C1 != cat_r)
        cx.unchanged(1, v);
    });
    // assignment of a whole tree: the old contents of the target are replaced
    for (unsigned k = 0; k < 3; ++k)
      tree_subject_case("tree::operator=(object)", std::string("subject,") + cat_char(C1), "source children=" + std::to_string(k), 1,
                        [&](case_t &cx, treeE &t) {
                          treeE src = mk_tree(cx, k);
                          std::vector<int> all = payloads_of(snapshot(src));
                          cx.subject(0, t);
                          for (int p : payloads_of(snapshot(t)))
                            cx.set_role(p, role::free);
                          cx.arg(1, C1, src);
                          cx.begin();
                          t = FW(c1, src);
                          cx.end();
                          cx.result_of(t, &all);
                          if (C1 != cat_r)
                            cx.unchanged(1, src);
                        });
  });
  // copy assignment from one of the target's OWN descendants ("replace a node by a copy of one of its sub-trees"): the
  // source is destroyed by the assignment of the child list, so everything has to be read from it before that happens
#ifndef C05_MO // (a copy assignment: not part of the move-only build)
  for (unsigned k = 1; k < 4; ++k)
    tree_subject_case("tree::operator=(own descendant)", "subject,C", "children=" + std::to_string(k), k, [&](case_t &cx, treeE &t) {
      treeE &child = t.front().get_unsafe().get();
      child.push_back(mk<E>(cx));
      std::vector<int> all = payloads_of(snapshot(std::as_const(child)));
      cx.subject(0, t);
      for (int p : payloads_of(snapshot(t)))
        cx.set_role(p, role::free);
      cx.begin();
      t = std::as_const(child);
      cx.end();
      cx.result_of(t, &all);
    });
#endif
  // erase(position): that subtree is documented to be destroyed, the rest stays
  for (unsigned k = 1; k < 4; ++k)
    tree_subject_case("tree::erase", "subject", "children=" + std::to_string(k), k, [&](case_t &cx, treeE &t) {
      std::vector<int> all = payloads_of(snapshot(t));
      cx.subject(0, t);
      std::vector<int> gone = payloads_of(snapshot(t.children().front()));
      for (int p : gone)
      {
        cx.set_role(p, role::free);
        all.erase(std::find(all.begin(), all.end(), p));
      }
      cx.begin();
      t.erase(t.begin());
      cx.end();
      cx.result_of(t, &all);
    });
#ifndef C05_MO
  // tree::map<Result>(tree const &, f)
  nary<1>(
      "tree::map", 3, [](case_t &cx, unsigned k) { return std::make_tuple(mk_tree(cx, k)); },
      [](auto c0, auto &a) { return fcppt::container::tree::map<fcppt::container::tree::object<F>>(FW(c0, a), conv<F>{}); }, keep_all{},
      no_rvalues{});
#endif
}
}
void vf_slice_6()
{
  t_grid();
  t_tree();
}
#endif

// =================================================================================== slice 7
#if VF_IN_SLICE(7)
#include <fcppt/args_vector.hpp>
#include <fcppt/either/object.hpp>
#include <fcppt/optional/make.hpp>
#include <fcppt/optional/object.hpp>
#include <fcppt/options/apply.hpp>
#include <fcppt/options/argument.hpp>
#include <fcppt/options/flag.hpp>
#include <fcppt/options/long_name.hpp>
#include <fcppt/options/make_active_value.hpp>
#include <fcppt/options/make_default_value.hpp>
#include <fcppt/options/make_inactive_value.hpp>
#include <fcppt/options/make_many.hpp>
#include <fcppt/options/make_optional.hpp>
#include <fcppt/options/option.hpp>
#include <fcppt/options/optional_help_text.hpp>
#include <fcppt/options/optional_short_name.hpp>
#include <fcppt/options/parse.hpp>
#include <fcppt/options/short_name.hpp>
#include <fcppt/record/make_label.hpp>
#include <fcppt/record/object.hpp>
namespace
{
namespace o = fcppt::options;
FCPPT_RECORD_MAKE_LABEL(oa);
FCPPT_RECORD_MAKE_LABEL(ob);
FCPPT_RECORD_MAKE_LABEL(oc);

// parse and keep only a snapshot of the record (or the failure marker)
template <class Parser>
std::vector<int> parse_snap(Parser const &p, fcppt::args_vector const &args)
{
  auto r = o::parse(p, args);
  std::vector<int> s;
  if (r.has_success())
  {
    s.push_back(mk_success);
    collect(r.get_success_unsafe(), s);
  }
  else
    s.push_back(mk_failure);
  return s;
}
#ifndef C05_MO
using flagE = o::flag<oa, E>;
using optionE = o::option<ob, E>;
flagE mk_flag(case_t &cx, char const *name)
{
  E a = mk<E>(cx), b = mk<E>(cx);
  return flagE{o::optional_short_name{}, o::long_name{name}, o::make_active_value(std::move(a)), o::make_inactive_value(std::move(b)),
               o::optional_help_text{}};
}
optionE mk_option(case_t &cx, char const *name, bool with_default)
{
  using dflt = optionE::optional_default_value;
  if (with_default)
  {
    E d = mk<E>(cx);
    return optionE{o::optional_short_name{o::short_name{"o"}}, o::long_name{name},
                   o::make_default_value(fcppt::optional::make(std::move(d))), o::optional_help_text{}};
  }
  return optionE{o::optional_short_name{o::short_name{"o"}}, o::long_name{name}, dflt{fcppt::optional::object<E>{}},
                 o::optional_help_text{}};
}
}
namespace c05
{
// the parsers have no accessor for the values they store: what they hold is what the parses deliver
template <>
struct collector<flagE>
{
  static void run(flagE const &f, std::vector<int> &out)
  {
    for (int v : parse_snap(f, fcppt::args_vector{"--f"}))
      out.push_back(v);
    for (int v : parse_snap(f, fcppt::args_vector{}))
      out.push_back(v);
  }
};
template <>
struct collector<optionE>
{
  static void run(optionE const &p, std::vector<int> &out)
  {
    for (int v : parse_snap(p, fcppt::args_vector{}))
      out.push_back(v);
  }
};
}
namespace
{
#endif
template <class L>
o::argument<L, E> mk_argument(char const *name)
{
  return o::argument<L, E>{o::long_name{name}, o::optional_help_text{}};
}
std::string tok(case_t &cx, std::vector<int> &want)
{
  want.push_back(cx.fresh());
  return std::to_string(want.back());
}

#ifndef C05_MO
void t_options_ctor()
{
  // flag: the active / inactive values travel through make_(in)active_value into the constructor
  nary<2>(
      "options::flag(active, inactive)", 1, [](case_t &cx, unsigned) { return std::make_tuple(mk<E>(cx), mk<E>(cx)); },
      [](auto c0, auto c1, auto &a, auto &b) {
        return flagE{o::optional_short_name{}, o::long_name{"f"}, o::make_active_value(FW(c0, a)), o::make_inactive_value(FW(c1, b)),
                     o::optional_help_text{}};
      });
  nary<1>(
      "options::option(default)", 1, [](case_t &cx, unsigned) { return std::make_tuple(mk<E>(cx)); },
      [](auto c0, auto &d) {
        return optionE{o::optional_short_name{}, o::long_name{"o"}, o::make_default_value(fcppt::optional::make(FW(c0, d))),
                       o::optional_help_text{}};
      });
}

#endif
// One parse: the parser is a const lvalue argument (its stored values are lvalue elements: copies are
// allowed, moves are not); the values extracted from the tokens are produced during the call and
// must reach the result record uncopied, each exactly once.
template <class Mk>
void parse_case(std::string const &entry, unsigned nshapes, Mk mk_parser_and_args)
{
  for (unsigned sh = 0; sh < nshapes; ++sh)
    run_case("options::parse<" + entry + ">", "C", "shape=" + std::to_string(sh), [&](case_t &cx) {
      std::vector<int> want;
      fcppt::args_vector args;
      bool expect_success = true;
      auto parser = mk_parser_and_args(cx, sh, args, want, expect_success);
      std::string a;
      for (auto const &t : args)
        a += " " + t;
      vf::extend_case(" args=[%s ]", a.c_str());
      // everything the parser holds is an lvalue element
      cx.begin();
      auto r = o::parse(parser, args);
      cx.end();
      std::vector<int> s;
      if (r.has_success())
        collect(r.get_success_unsafe(), s);
      if (r.has_success() != expect_success)
        cx.viol("unexpected-parse-outcome", "mismatch", expect_success ? "parse failed" : "parse succeeded");
      else
        cx.result(s, &want);
    });
}

#ifndef C05_MO
void t_options_parse_values()
{
  parse_case("flag", 2, [](case_t &cx, unsigned sh, fcppt::args_vector &args, std::vector<int> &want, bool &) {
    E a = mk<E>(cx), b = mk<E>(cx);
    int const pa = a.peek(), pb = b.peek();
    cx.set_role(pa, role::lv);
    cx.set_role(pb, role::lv);
    if (sh)
      args.push_back("--f");
    want.push_back(sh ? pa : pb);
    return flagE{o::optional_short_name{}, o::long_name{"f"}, o::make_active_value(std::move(a)), o::make_inactive_value(std::move(b)),
                 o::optional_help_text{}};
  });
  parse_case("option", 4, [](case_t &cx, unsigned sh, fcppt::args_vector &args, std::vector<int> &want, bool &ok) {
    // 0: default used, 1: long name given, 2: short name given, 3: no default and missing -> failure
    E d = mk<E>(cx);
    int const pd = d.peek();
    cx.set_role(pd, role::lv);
    using dflt = optionE::optional_default_value;
    optionE p{o::optional_short_name{o::short_name{"o"}}, o::long_name{"opt"},
              sh == 3 ? dflt{fcppt::optional::object<E>{}} : o::make_default_value(fcppt::optional::make(std::move(d))),
              o::optional_help_text{}};
    if (sh == 0)
      want.push_back(pd);
    if (sh == 1)
    {
      args.push_back("--opt");
      args.push_back(tok(cx, want));
    }
    if (sh == 2)
    {
      args.push_back("-o");
      args.push_back(tok(cx, want));
    }
    ok = sh != 3;
    return p;
  });
  parse_case("many(option)", 4, [](case_t &cx, unsigned n, fcppt::args_vector &args, std::vector<int> &want, bool &) {
    for (unsigned i = 0; i < n; ++i)
    {
      args.push_back("--opt"); // (mixing -o and --opt in one pass is an error by design)
      args.push_back(tok(cx, want));
    }
    return o::make_many(mk_option(cx, "opt", false));
  });
  parse_case("optional(option)", 2, [](case_t &cx, unsigned sh, fcppt::args_vector &args, std::vector<int> &want, bool &) {
    if (sh)
    {
      args.push_back("--opt");
      args.push_back(tok(cx, want));
    }
    return o::make_optional(mk_option(cx, "opt", false));
  });
  parse_case("apply(argument,option,flag)", 4,
             [](case_t &cx, unsigned sh, fcppt::args_vector &args, std::vector<int> &want, bool &) {
               E d = mk<E>(cx), a = mk<E>(cx), b = mk<E>(cx);
               int const pd = d.peek(), pa = a.peek(), pb = b.peek();
               for (int p : {pd, pa, pb})
                 cx.set_role(p, role::lv);
               args.push_back(tok(cx, want));
               if (sh & 1U)
               {
                 args.push_back("--opt");
                 args.push_back(tok(cx, want));
               }
               else
                 want.push_back(pd);
               if (sh & 2U)
                 args.push_back("--f");
               want.push_back((sh & 2U) ? pa : pb);
               return o::apply(
                   mk_argument<oc>("arg"),
                   optionE{o::optional_short_name{}, o::long_name{"opt"}, o::make_default_value(fcppt::optional::make(std::move(d))),
                           o::optional_help_text{}},
                   flagE{o::optional_short_name{}, o::long_name{"f"}, o::make_active_value(std::move(a)),
                         o::make_inactive_value(std::move(b)), o::optional_help_text{}});
             });
  parse_case("apply(optional(argument),many(option))", 4,
             [](case_t &cx, unsigned sh, fcppt::args_vector &args, std::vector<int> &want, bool &) {
               if (sh & 1U)
                 args.push_back(tok(cx, want));
               for (unsigned i = 0; i < (sh & 2U); ++i)
               {
                 args.push_back("--opt");
                 args.push_back(tok(cx, want));
               }
               return o::apply(o::make_optional(mk_argument<oc>("arg")), o::make_many(mk_option(cx, "opt", false)));
             });
}
#endif
void t_options_parse_args()
{
  parse_case("argument", 2, [](case_t &cx, unsigned sh, fcppt::args_vector &args, std::vector<int> &want, bool &ok) {
    if (sh)
      args.push_back(tok(cx, want));
    ok = sh != 0;
    return mk_argument<oc>("arg");
  });
  parse_case("many(argument)", nmax() + 1, [](case_t &cx, unsigned n, fcppt::args_vector &args, std::vector<int> &want, bool &) {
    for (unsigned i = 0; i < n; ++i)
      args.push_back(tok(cx, want));
    return o::make_many(mk_argument<oc>("arg"));
  });
  parse_case("optional(argument)", 2, [](case_t &cx, unsigned sh, fcppt::args_vector &args, std::vector<int> &want, bool &) {
    if (sh)
      args.push_back(tok(cx, want));
    return o::make_optional(mk_argument<oc>("arg"));
  });
  parse_case("many(apply(argument,argument))", 4,
             [](case_t &cx, unsigned n, fcppt::args_vector &args, std::vector<int> &want, bool &) {
               for (unsigned i = 0; i < 2 * n; ++i)
                 args.push_back(tok(cx, want));
               return o::make_many(o::apply(mk_argument<oa>("x"), mk_argument<oc>("y")));
             });
}
}
void vf_slice_7()
{
#ifndef C05_MO
  // option / flag values are copied out of the (const) parser by design: not part of the move-only build
  t_options_ctor();
  t_options_parse_values();
#endif
  t_options_parse_args();
}
#endif

// =================================================================================== slice 8
#if VF_IN_SLICE(8)
#include <fcppt/either/object.hpp>
#include <fcppt/optional/object.hpp>
#include <fcppt/parse/base_impl.hpp>
#include <fcppt/parse/char.hpp>
#include <fcppt/parse/error_impl.hpp>
#include <fcppt/parse/literal.hpp>
#include <fcppt/parse/make_convert.hpp>
#include <fcppt/parse/optional_impl.hpp>
#include <fcppt/parse/parse_string.hpp>
#include <fcppt/parse/repetition_impl.hpp>
#include <fcppt/parse/repetition_plus_impl.hpp>
#include <fcppt/parse/separator.hpp>
#include <fcppt/parse/operators/alternative.hpp>
#include <fcppt/parse/operators/optional.hpp>
#include <fcppt/parse/operators/repetition.hpp>
#include <fcppt/parse/operators/repetition_plus.hpp>
#include <fcppt/parse/operators/sequence.hpp>
#include <fcppt/tuple/object.hpp>
#include <fcppt/variant/object.hpp>
namespace
{
namespace ps = fcppt::parse;
// Every parse result is produced by a convert function during the call; it must reach the final
// result without a copy, exactly once.
struct producer
{
  case_t *cx = nullptr;
  std::vector<int> *made = nullptr;
};
template <class T>
auto item_any(producer const &pr)
{
  return ps::make_convert(ps::char_{}, [pr](char &&) {
    pr.made->push_back(pr.cx->fresh());
    return T(make_t{}, pr.made->back());
  });
}
template <class T>
auto item_lit(producer const &pr, char c)
{
  return ps::make_convert(ps::literal{c}, [pr](fcppt::unit &&) {
    pr.made->push_back(pr.cx->fresh());
    return T(make_t{}, pr.made->back());
  });
}

template <class MakeParser>
void parse_run(std::string const &entry, std::vector<std::string> const &inputs, MakeParser make_parser)
{
  for (std::string const &in : inputs)
    run_case("parse::" + entry, "C", "input=\"" + in + "\"", [&](case_t &cx) {
      std::vector<int> made;
      producer pr{&cx, &made};
      auto const parser = make_parser(pr);
      cx.begin();
      auto r = ps::parse_string(parser, std::string(in));
      cx.end();
      std::vector<int> s;
      if (r.has_success())
        collect(r.get_success_unsafe(), s);
      else
        made.clear(); // whatever was produced before the failure is documented to be dropped
      cx.result(s, &made);
      vf::count(r.has_success() ? "parse/success" : "parse/failure");
    });
}

void t_parse()
{
  parse_run("repetition(convert)", {"", "a", "ab", "abcde"}, [](producer const &pr) { return *item_any<E>(pr); });
#ifndef C05_MO
  {
    // repetition_plus is neither named nor anchored by the property: observed only.  (It builds its
    // result with `result_type{std::move(first)}`, an initializer_list construction that copies the first
    // parsed value; with a move-only result type it does not compile.)
    observed_scope const os;
    parse_run("repetition_plus(convert)", {"", "a", "abc"}, [](producer const &pr) { return +item_any<E>(pr); });
  }
#endif
  parse_run("sequence(convert,convert)", {"ab", "a", ""}, [](producer const &pr) { return item_any<E>(pr) >> item_any<F>(pr); });
  parse_run("sequence(convert,convert,convert)", {"abc", "ab"},
            [](producer const &pr) { return item_any<E>(pr) >> item_any<F>(pr) >> item_any<G>(pr); });
  parse_run("sequence(convert,repetition(convert))", {"a", "abcd", ""},
            [](producer const &pr) { return item_any<F>(pr) >> *item_any<E>(pr); });
  parse_run("sequence(repetition,literal-convert)", {"aaax", "x"},
            [](producer const &pr) { return *item_lit<E>(pr, 'a') >> item_lit<F>(pr, 'x'); });
  parse_run("optional(convert)", {"", "a"}, [](producer const &pr) { return -item_any<E>(pr); });
  parse_run("alternative(convert,convert)", {"a", "b", ""},
            [](producer const &pr) { return item_lit<E>(pr, 'a') | item_any<F>(pr); });
  parse_run("separator(convert,literal)", {"", "a", "a,b", "a,b,c,d"},
            [](producer const &pr) { return ps::separator{item_lit<E>(pr, 'a') | item_lit<E>(pr, 'b') | item_lit<E>(pr, 'c') | item_lit<E>(pr, 'd'), ps::literal{','}}; });
  // convert over tracked results: the inner result is handed to the function as an rvalue
  parse_run("convert(convert)", {"a"}, [](producer const &pr) {
    return ps::make_convert(item_any<E>(pr), [](E &&e) { return F(convert_t{}, std::move(e)); });
  });
  parse_run("convert(repetition)", {"", "abc"}, [](producer const &pr) {
    return ps::make_convert(*item_any<E>(pr), [](std::vector<E> &&v) {
      std::list<E> l;
      for (E &e : v)
        l.push_back(std::move(e));
      return l;
    });
  });
  parse_run("repetition(sequence(convert,convert))", {"", "ab", "abcd", "abc"},
            [](producer const &pr) { return *(item_any<E>(pr) >> item_any<F>(pr)); });
}
}
void vf_slice_8() { t_parse(); }
#endif

// =================================================================================== main
#if VF_SLICE < 0
void vf_slice_0();
void vf_slice_1();
void vf_slice_2();
void vf_slice_3();
void vf_slice_4();
void vf_slice_5();
void vf_slice_6();
void vf_slice_7();
void vf_slice_8();
namespace
{
void body()
{
  for (char const *b :
       {"cases/judged", "cases/cat-R", "cases/cat-L", "cases/cat-C", "cases/cat-R,R", "cases/cat-L,R", "cases/cat-R,L", "cases/cat-C,R",
        "cases/cat-R,C", "cases/cat-R,R,R", "cases/cat-subject", "cases/cat-subject,R", "cases/cat-subject,L", "events/move",
        "events/copy-of-lvalue-element", "events/read", "events/compare", "events/hash", "events/assign", "elements/rvalue-moved",
        "arguments/lvalue-unchanged-checks", "results/keep-all-checked", "ledger/objects-destroyed", "parse/success", "parse/failure",
        "move-chain/2-3", "move-chain/4-7"})
    vf::require_bucket(b);
  vf_slice_0();
  vf_slice_1();
  vf_slice_2();
  vf_slice_3();
  vf_slice_4();
  vf_slice_5();
  vf_slice_6();
  vf_slice_7();
  vf_slice_8();
}
}
VF_MAIN(body)
#endif
