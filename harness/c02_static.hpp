// C02 (second harness, "c02_static"): naturally typed fcppt.parse grammars.
//
// This header is shared by harness/c02_static.cpp (reference interpreter, input enumeration, comparison)
// and by the translation units that harness/gen/c02_fixtures.py generates (the REAL parsers, written with
// the natural operators and unerased result types, plus the description of the same grammar as an AST).
//
//   real side      : generic printer pr<T> of the real result (unit, characters, numbers, strings, tuple,
//                    variant (index and value), optional, vector, recursive, user structs) into a canonical
//                    narrow string; tn<Ch,T> prints the real result TYPE.
//   reference side : Ty (result types), Val (values), Node (grammar AST).  The interpreter that gives
//                    them a meaning lives in c02_static.cpp and never calls the library.
#ifndef C02_STATIC_HPP_INCLUDED
#define C02_STATIC_HPP_INCLUDED

#include <fcppt/deref.hpp>
#include <fcppt/make_cref.hpp>
#include <fcppt/nonmovable.hpp>
#include <fcppt/recursive.hpp>
#include <fcppt/unit.hpp>
#include <fcppt/either/make_failure.hpp>
#include <fcppt/either/object.hpp>
#include <fcppt/optional/object.hpp>
#include <fcppt/parse/as_struct.hpp>
#include <fcppt/parse/base_impl.hpp>
#include <fcppt/parse/base_unique_ptr.hpp>
#include <fcppt/parse/basic_char.hpp>
#include <fcppt/parse/basic_char_set.hpp>
#include <fcppt/parse/basic_literal.hpp>
#include <fcppt/parse/basic_string.hpp>
#include <fcppt/parse/char.hpp>
#include <fcppt/parse/char_set.hpp>
#include <fcppt/parse/construct.hpp>
#include <fcppt/parse/convert_const.hpp>
#include <fcppt/parse/deref.hpp>
#include <fcppt/parse/epsilon.hpp>
#include <fcppt/parse/error_impl.hpp>
#include <fcppt/parse/fail.hpp>
#include <fcppt/parse/float.hpp>
#include <fcppt/parse/grammar.hpp>
#include <fcppt/parse/grammar_parse_string.hpp>
#include <fcppt/parse/int.hpp>
#include <fcppt/parse/list.hpp>
#include <fcppt/parse/literal.hpp>
#include <fcppt/parse/make_base.hpp>
#include <fcppt/parse/make_convert.hpp>
#include <fcppt/parse/make_convert_if.hpp>
#include <fcppt/parse/make_fatal.hpp>
#include <fcppt/parse/make_ignore.hpp>
#include <fcppt/parse/make_lexeme.hpp>
#include <fcppt/parse/make_recursive.hpp>
#include <fcppt/parse/named.hpp>
#include <fcppt/parse/parse_string.hpp>
#include <fcppt/parse/phrase_parse_string.hpp>
#include <fcppt/parse/phrase_parse_stream.hpp>
#include <fcppt/parse/result.hpp>
#include <fcppt/parse/separator.hpp>
#include <fcppt/parse/string.hpp>
#include <fcppt/parse/uint.hpp>
#include <fcppt/parse/operators/alternative.hpp>
#include <fcppt/parse/operators/complement.hpp>
#include <fcppt/parse/operators/not.hpp>
#include <fcppt/parse/operators/optional.hpp>
#include <fcppt/parse/operators/repetition.hpp>
#include <fcppt/parse/operators/repetition_plus.hpp>
#include <fcppt/parse/operators/sequence.hpp>
#include <fcppt/parse/skipper/basic_char_set.hpp>
#include <fcppt/parse/skipper/basic_literal.hpp>
#include <fcppt/parse/skipper/epsilon.hpp>
#include <fcppt/parse/skipper/space.hpp>
#include <fcppt/parse/skipper/make_failure.hpp>
#include <fcppt/parse/skipper/make_success.hpp>
#include <fcppt/parse/skipper/result.hpp>
#include <fcppt/parse/skipper/tag.hpp>
#include <fcppt/parse/fatal_tag.hpp>
#include <fcppt/parse/basic_stream_impl.hpp>
#include <fcppt/parse/skipper/operators/repetition.hpp>
#include <fcppt/parse/skipper/operators/sequence.hpp>
#include <fcppt/tuple/get.hpp>
#include <fcppt/tuple/make.hpp>
#include <fcppt/tuple/object.hpp>
#include <fcppt/variant/apply.hpp>
#include <fcppt/variant/object.hpp>

#include <algorithm>
#include <cstdio>
#include <functional>
#include <map>
#include <memory>
#include <string>
#include <type_traits>
#include <unordered_map>
#include <utility>
#include <vector>

namespace c02s
{
namespace p = fcppt::parse;

// =====================================================================================================
// reference side: types
// =====================================================================================================
struct Ty
{
  enum K
  {
    Unit, Ch, Int, Long, UInt, Bool, Double, Str /* basic_string<Ch> */, NStr /* std::string */,
    Tuple, Variant, Opt, Vec, Rec, Struct, Map
  };
  K k = Unit;
  std::string name; // Struct
  std::vector<Ty> a;
};
namespace T
{
inline Ty mk(Ty::K k, std::vector<Ty> a = {}, std::string name = {}) { return Ty{k, std::move(name), std::move(a)}; }
inline Ty unit() { return mk(Ty::Unit); }
inline Ty ch() { return mk(Ty::Ch); }
inline Ty i() { return mk(Ty::Int); }
inline Ty l() { return mk(Ty::Long); }
inline Ty u() { return mk(Ty::UInt); }
inline Ty b() { return mk(Ty::Bool); }
inline Ty d() { return mk(Ty::Double); }
inline Ty str() { return mk(Ty::Str); }
inline Ty nstr() { return mk(Ty::NStr); }
inline Ty tup(std::vector<Ty> a) { return mk(Ty::Tuple, std::move(a)); }
inline Ty var(std::vector<Ty> a) { return mk(Ty::Variant, std::move(a)); }
inline Ty opt(Ty x) { return mk(Ty::Opt, {std::move(x)}); }
inline Ty vec(Ty x) { return mk(Ty::Vec, {std::move(x)}); }
inline Ty rec(Ty x) { return mk(Ty::Rec, {std::move(x)}); }
inline Ty map(Ty k, Ty v) { return mk(Ty::Map, {std::move(k), std::move(v)}); }
inline Ty st(std::string name, std::vector<Ty> a = {}) { return mk(Ty::Struct, std::move(a), std::move(name)); }
}
// canonical spelling of a type; two types are the same type iff their spellings are equal
// (std::string and basic_string<Ch> are the same type exactly when Ch = char)
inline std::string key(Ty const &t, bool wide)
{
  auto args = [&] {
    std::string r = "<";
    for (std::size_t i = 0; i < t.a.size(); ++i)
      r += (i ? "," : "") + key(t.a[i], wide);
    return r + ">";
  };
  switch (t.k)
  {
  case Ty::Unit: return "unit";
  case Ty::Ch: return "ch";
  case Ty::Int: return "int";
  case Ty::Long: return "long";
  case Ty::UInt: return "uint";
  case Ty::Bool: return "bool";
  case Ty::Double: return "double";
  case Ty::Str: return "str";
  case Ty::NStr: return wide ? "nstr" : "str";
  case Ty::Tuple: return "tuple" + args();
  case Ty::Variant: return "variant" + args();
  case Ty::Opt: return "optional" + args();
  case Ty::Vec: return "vector" + args();
  case Ty::Rec: return "recursive" + args();
  case Ty::Map: return "map" + args();
  case Ty::Struct: return t.a.empty() ? t.name : t.name + args();
  }
  return "?";
}

// =====================================================================================================
// reference side: values
// =====================================================================================================
struct Val
{
  enum K
  {
    Unit, Char, Num, Bool, Str, Tuple, Variant, Opt, Vec, Rec, Struct, Map
  };
  K k = Unit;
  std::string s;   // Char: the character; Num: the type tag (i l U d); Str: the text; Struct: the name
  long long n = 0; // Num (integers), Bool
  double d = 0;    // Num (double)
  std::size_t idx = 0; // Variant
  std::vector<Val> kids; // Tuple/Vec/Struct: elements; Variant/Opt/Rec: 0 or 1; Map: k0 v0 k1 v1 ...
};
namespace V
{
inline Val unit() { return Val{}; }
inline Val chr(char c) { Val v; v.k = Val::Char; v.s = std::string(1, c); return v; }
inline Val num(char tag, long long n) { Val v; v.k = Val::Num; v.s = std::string(1, tag); v.n = n; return v; }
inline Val dbl(double d) { Val v; v.k = Val::Num; v.s = "d"; v.d = d; return v; }
inline Val boolean(bool b) { Val v; v.k = Val::Bool; v.n = b; return v; }
inline Val str(std::string s) { Val v; v.k = Val::Str; v.s = std::move(s); return v; }
inline Val seq(Val::K k, std::vector<Val> kids) { Val v; v.k = k; v.kids = std::move(kids); return v; }
inline Val tup(std::vector<Val> kids) { return seq(Val::Tuple, std::move(kids)); }
inline Val vec(std::vector<Val> kids) { return seq(Val::Vec, std::move(kids)); }
inline Val var(std::size_t idx, Val x) { Val v = seq(Val::Variant, {std::move(x)}); v.idx = idx; return v; }
inline Val some(Val x) { return seq(Val::Opt, {std::move(x)}); }
inline Val none() { return seq(Val::Opt, {}); }
inline Val rec(Val x) { return seq(Val::Rec, {std::move(x)}); }
inline Val st(std::string name, std::vector<Val> kids) { Val v = seq(Val::Struct, std::move(kids)); v.s = std::move(name); return v; }
}
inline void print_str(std::string &o, std::string const &s)
{
  o += '"';
  o += s;
  o += '"';
}
inline void print_double(std::string &o, double d)
{
  char b[64];
  std::snprintf(b, sizeof b, "d%a", d);
  o += b;
}
// THE canonical form (the real-side printer pr<T> below produces the same text from the real result)
inline void print(std::string &o, Val const &v)
{
  auto list = [&](char open, char close) {
    o += open;
    for (std::size_t i = 0; i < v.kids.size(); ++i)
    {
      if (i)
        o += ',';
      print(o, v.kids[i]);
    }
    o += close;
  };
  switch (v.k)
  {
  case Val::Unit: o += 'u'; break;
  case Val::Char: o += '\''; o += v.s; o += '\''; break;
  case Val::Num:
    if (v.s == "d")
      print_double(o, v.d);
    else
      o += v.s + std::to_string(v.n);
    break;
  case Val::Bool: o += v.n ? "true" : "false"; break;
  case Val::Str: print_str(o, v.s); break;
  case Val::Tuple: list('(', ')'); break;
  case Val::Vec: list('[', ']'); break;
  case Val::Variant: o += '<' + std::to_string(v.idx) + ':'; print(o, v.kids.at(0)); o += '>'; break;
  case Val::Opt:
    if (v.kids.empty())
      o += '~';
    else
    {
      o += '?';
      print(o, v.kids[0]);
    }
    break;
  case Val::Rec: o += '@'; print(o, v.kids.at(0)); break;
  case Val::Struct: o += v.s; list('{', '}'); break;
  case Val::Map:
  {
    std::vector<std::string> items;
    for (std::size_t i = 0; i + 1 < v.kids.size(); i += 2)
    {
      std::string e;
      print(e, v.kids[i]);
      e += ':';
      print(e, v.kids[i + 1]);
      items.push_back(std::move(e));
    }
    std::sort(items.begin(), items.end());
    o += '{';
    for (std::size_t i = 0; i < items.size(); ++i)
      o += (i ? "," : "") + items[i];
    o += '}';
    break;
  }
  }
}

// =====================================================================================================
// reference side: grammar AST
// =====================================================================================================
enum class K
{
  Eps, Fail, Char, Lit, Set, Compl, Str, Int, Long, UInt, Float,
  Seq, Alt, Rep, Plus, Opt, Not, Fatal, Lexeme, Sep, List, Named, Conv, ConvIf, Construct, AsStruct,
  Ignore, ConvConst, Recursive, Base, Ref
};
struct Node;
using NP = std::shared_ptr<Node>;
struct Node
{
  K k;
  char c = 0;
  std::string s;  // Set/Compl: members; Str: text; Conv/ConvIf: function name; Construct/AsStruct: struct name; Ref: rule name
  Ty ty;          // Fail / ConvConst / Ref: declared result type
  Val val;        // ConvConst: the constant
  std::vector<NP> ch;
  // memo of the inferred result type, [0] narrow world, [1] wide world
  mutable bool have[2] = {false, false};
  mutable Ty inferred[2];
};
namespace A
{
inline NP mk(K k, std::vector<NP> ch = {}, std::string s = {}, char c = 0)
{
  auto n = std::make_shared<Node>();
  n->k = k;
  n->ch = std::move(ch);
  n->s = std::move(s);
  n->c = c;
  return n;
}
inline NP eps() { return mk(K::Eps); }
inline NP fail(Ty t) { NP n = mk(K::Fail); n->ty = std::move(t); return n; }
inline NP chr() { return mk(K::Char); }
inline NP lit(char c) { return mk(K::Lit, {}, {}, c); }
inline NP set(std::string s) { return mk(K::Set, {}, std::move(s)); }
inline NP cset(std::string s) { return mk(K::Compl, {}, std::move(s)); }
inline NP str(std::string s) { return mk(K::Str, {}, std::move(s)); }
inline NP int_() { return mk(K::Int); }
inline NP long_() { return mk(K::Long); }
inline NP uint_() { return mk(K::UInt); }
inline NP flt() { return mk(K::Float); }
inline NP seq(NP a, NP b) { return mk(K::Seq, {std::move(a), std::move(b)}); }
inline NP alt(NP a, NP b) { return mk(K::Alt, {std::move(a), std::move(b)}); }
inline NP rep(NP a) { return mk(K::Rep, {std::move(a)}); }
inline NP plus(NP a) { return mk(K::Plus, {std::move(a)}); }
inline NP opt(NP a) { return mk(K::Opt, {std::move(a)}); }
inline NP nt(NP a) { return mk(K::Not, {std::move(a)}); }
inline NP fatal(NP a) { return mk(K::Fatal, {std::move(a)}); }
inline NP lexeme(NP a) { return mk(K::Lexeme, {std::move(a)}); }
inline NP sep(NP inner, NP s) { return mk(K::Sep, {std::move(inner), std::move(s)}); }
inline NP list(NP start, NP inner, NP s, NP end) { return mk(K::List, {std::move(start), std::move(inner), std::move(s), std::move(end)}); }
inline NP named(NP a) { return mk(K::Named, {std::move(a)}); }
inline NP conv(std::string fn, NP a) { return mk(K::Conv, {std::move(a)}, std::move(fn)); }
inline NP convif(std::string fn, NP a) { return mk(K::ConvIf, {std::move(a)}, std::move(fn)); }
inline NP construct(std::string st, NP a) { return mk(K::Construct, {std::move(a)}, std::move(st)); }
inline NP asstruct(std::string st, NP a) { return mk(K::AsStruct, {std::move(a)}, std::move(st)); }
inline NP ignore(NP a) { return mk(K::Ignore, {std::move(a)}); }
inline NP convconst(NP a, Ty t, Val v)
{
  NP n = mk(K::ConvConst, {std::move(a)});
  n->ty = std::move(t);
  n->val = std::move(v);
  return n;
}
inline NP recur(NP a) { return mk(K::Recursive, {std::move(a)}); }
inline NP base(NP a) { return mk(K::Base, {std::move(a)}); }
inline NP ref(std::string rule, Ty declared)
{
  NP n = mk(K::Ref, {}, std::move(rule));
  n->ty = std::move(declared);
  return n;
}
}

// =====================================================================================================
// skippers
// =====================================================================================================
enum class SK
{
  eps, space, set1, replit, repseteps
};
constexpr char const *sk_name(SK s)
{
  switch (s)
  {
  case SK::eps: return "epsilon";
  case SK::space: return "space";
  case SK::set1: return "char_set{sp,_}";
  case SK::replit: return "*literal(sp)";
  case SK::repseteps: return "*char_set{sp,_}>>epsilon";
  }
  return "?";
}
template <class Ch, SK S>
auto make_skipper()
{
  namespace sk = p::skipper;
  if constexpr (S == SK::eps)
    return sk::epsilon{};
  else if constexpr (S == SK::space)
  {
    if constexpr (std::is_same_v<Ch, char>)
      return sk::space(); // the library's own helper
    else
      return *sk::basic_char_set<Ch>{Ch(' '), Ch('\n'), Ch('\t')}; // basic_space<Ch>() written out (it only compiles for char)
  }
  else if constexpr (S == SK::set1)
    return sk::basic_char_set<Ch>{Ch(' '), Ch('_')};
  else if constexpr (S == SK::replit)
    return *sk::basic_literal<Ch>{Ch(' ')};
  else
    return *sk::basic_char_set<Ch>{Ch(' '), Ch('_')} >> sk::epsilon{};
}
template <class Ch, SK S>
using skipper_t = decltype(make_skipper<Ch, S>());

// =====================================================================================================
// real side: user types
// =====================================================================================================
template <class Ch>
std::basic_string<Ch> W(char const *s)
{
  std::string n(s);
  return std::basic_string<Ch>(n.begin(), n.end());
}
template <class X>
struct box
{
  X v;
};
template <class A0, class A1>
struct st2
{
  A0 a;
  A1 b;
};
template <class A0, class A1, class A2>
struct st3
{
  A0 a;
  A1 b;
  A2 c;
};
template <class A0, class A1, class A2, class A3>
struct st4
{
  A0 a;
  A1 b;
  A2 c;
  A3 d;
};
template <class A0, class A1, class A2, class A3, class A4>
struct st5
{
  A0 a;
  A1 b;
  A2 c;
  A3 d;
  A4 e;
};
// a class with a constructor and accessors (as in test/parse/as_struct.cpp)
class pt
{
public:
  pt(int const _x, int const _y) : x_{_x}, y_{_y} {}
  [[nodiscard]] int x() const { return x_; }
  [[nodiscard]] int y() const { return y_; }

private:
  int x_;
  int y_;
};
struct null_
{
};

// =====================================================================================================
// real side: printer of values and of types
// =====================================================================================================
template <class X, class = void>
struct pr;
template <class X>
void print(std::string &o, X const &v)
{
  pr<X>::go(o, v);
}
template <class It>
void print_range(std::string &o, It b, It e, char open, char close)
{
  o += open;
  bool first = true;
  for (; b != e; ++b)
  {
    if (!first)
      o += ',';
    first = false;
    print(o, *b);
  }
  o += close;
}
template <>
struct pr<fcppt::unit>
{
  static void go(std::string &o, fcppt::unit const &) { o += 'u'; }
};
template <>
struct pr<char>
{
  static void go(std::string &o, char c) { o += '\''; o += c; o += '\''; }
};
template <>
struct pr<wchar_t>
{
  static void go(std::string &o, wchar_t c) { o += '\''; o += (c >= 0 && c < 128) ? static_cast<char>(c) : '?'; o += '\''; }
};
template <>
struct pr<bool>
{
  static void go(std::string &o, bool b) { o += b ? "true" : "false"; }
};
template <>
struct pr<int>
{
  static void go(std::string &o, int v) { o += 'i' + std::to_string(v); }
};
template <>
struct pr<long>
{
  static void go(std::string &o, long v) { o += 'l' + std::to_string(v); }
};
template <>
struct pr<unsigned>
{
  static void go(std::string &o, unsigned v) { o += 'U' + std::to_string(v); }
};
template <>
struct pr<double>
{
  static void go(std::string &o, double v) { print_double(o, v); }
};
template <class C>
struct pr<std::basic_string<C>>
{
  static void go(std::string &o, std::basic_string<C> const &s)
  {
    o += '"';
    for (C c : s)
      o += (c >= 0 && c < 128) ? static_cast<char>(c) : '?';
    o += '"';
  }
};
template <class X>
struct pr<std::vector<X>>
{
  static void go(std::string &o, std::vector<X> const &v) { print_range(o, v.begin(), v.end(), '[', ']'); }
};
template <class X>
struct pr<fcppt::optional::object<X>>
{
  static void go(std::string &o, fcppt::optional::object<X> const &v)
  {
    if (v.has_value())
    {
      o += '?';
      print(o, v.get_unsafe());
    }
    else
      o += '~';
  }
};
template <class X>
struct pr<fcppt::recursive<X>>
{
  static void go(std::string &o, fcppt::recursive<X> const &v)
  {
    o += '@';
    print(o, v.get());
  }
};
template <class... Ts>
struct pr<fcppt::tuple::object<Ts...>>
{
  template <std::size_t... I>
  static void go2(std::string &o, fcppt::tuple::object<Ts...> const &t, std::index_sequence<I...>)
  {
    o += '(';
    ((o += (I ? "," : ""), print(o, fcppt::tuple::get<I>(t))), ...);
    o += ')';
  }
  static void go(std::string &o, fcppt::tuple::object<Ts...> const &t) { go2(o, t, std::index_sequence_for<Ts...>{}); }
};
template <class... Ts>
struct pr<fcppt::variant::object<Ts...>>
{
  static void go(std::string &o, fcppt::variant::object<Ts...> const &v)
  {
    o += '<' + std::to_string(v.type_index()) + ':';
    fcppt::variant::apply([&o](auto const &x) { print(o, x); }, v);
    o += '>';
  }
};
template <class Kk, class Vv>
struct pr<std::unordered_map<Kk, Vv>>
{
  static void go(std::string &o, std::unordered_map<Kk, Vv> const &m)
  {
    std::vector<std::string> items;
    for (auto const &kv : m)
    {
      std::string e;
      print(e, kv.first);
      e += ':';
      print(e, kv.second);
      items.push_back(std::move(e));
    }
    std::sort(items.begin(), items.end());
    o += '{';
    for (std::size_t i = 0; i < items.size(); ++i)
      o += (i ? "," : "") + items[i];
    o += '}';
  }
};
template <class X>
struct pr<box<X>>
{
  static void go(std::string &o, box<X> const &b)
  {
    o += "box{";
    print(o, b.v);
    o += '}';
  }
};
template <class... Fs>
void print_fields(std::string &o, char const *name, Fs const &...fs)
{
  o += name;
  o += '{';
  std::size_t i = 0;
  ((o += (i++ ? "," : ""), print(o, fs)), ...);
  o += '}';
}
template <class A0, class A1>
struct pr<st2<A0, A1>>
{
  static void go(std::string &o, st2<A0, A1> const &s) { print_fields(o, "st2", s.a, s.b); }
};
template <class A0, class A1, class A2>
struct pr<st3<A0, A1, A2>>
{
  static void go(std::string &o, st3<A0, A1, A2> const &s) { print_fields(o, "st3", s.a, s.b, s.c); }
};
template <class A0, class A1, class A2, class A3>
struct pr<st4<A0, A1, A2, A3>>
{
  static void go(std::string &o, st4<A0, A1, A2, A3> const &s) { print_fields(o, "st4", s.a, s.b, s.c, s.d); }
};
template <class A0, class A1, class A2, class A3, class A4>
struct pr<st5<A0, A1, A2, A3, A4>>
{
  static void go(std::string &o, st5<A0, A1, A2, A3, A4> const &s) { print_fields(o, "st5", s.a, s.b, s.c, s.d, s.e); }
};
template <>
struct pr<pt>
{
  static void go(std::string &o, pt const &s) { print_fields(o, "pt", s.x(), s.y()); }
};
template <>
struct pr<null_>
{
  static void go(std::string &o, null_ const &) { o += "null{}"; }
};

// the spelling of the real result type in the notation of key(Ty)
template <class Ch, class X, class = void>
struct tn;
template <class Ch, class... Xs>
std::string tn_args()
{
  std::string r = "<";
  std::size_t i = 0;
  ((r += (i++ ? "," : "") + tn<Ch, Xs>::get()), ...);
  return r + ">";
}
#define C02S_TN(type, text)                                                                                  \
  template <class Ch>                                                                                        \
  struct tn<Ch, type>                                                                                        \
  {                                                                                                          \
    static std::string get() { return text; }                                                                \
  };
C02S_TN(fcppt::unit, "unit")
C02S_TN(int, "int")
C02S_TN(long, "long")
C02S_TN(unsigned, "uint")
C02S_TN(bool, "bool")
C02S_TN(double, "double")
C02S_TN(pt, "pt")
C02S_TN(null_, "null")
template <>
struct tn<char, char>
{
  static std::string get() { return "ch"; }
};
template <>
struct tn<wchar_t, wchar_t>
{
  static std::string get() { return "ch"; }
};
template <>
struct tn<wchar_t, char>
{
  static std::string get() { return "narrow-char"; }
};
template <>
struct tn<char, wchar_t>
{
  static std::string get() { return "wide-char"; }
};
template <class Ch, class C>
struct tn<Ch, std::basic_string<C>>
{
  static std::string get() { return std::is_same_v<Ch, C> ? "str" : (std::is_same_v<C, char> ? "nstr" : "wstr"); }
};
#define C02S_TN_T(templ, text)                                                                               \
  template <class Ch, class... Xs>                                                                           \
  struct tn<Ch, templ<Xs...>>                                                                                \
  {                                                                                                          \
    static std::string get() { return text + tn_args<Ch, Xs...>(); }                                         \
  };
C02S_TN_T(fcppt::tuple::object, "tuple")
C02S_TN_T(fcppt::variant::object, "variant")
C02S_TN_T(fcppt::optional::object, "optional")
C02S_TN_T(fcppt::recursive, "recursive")
C02S_TN_T(box, "box")
C02S_TN_T(st2, "st2")
C02S_TN_T(st3, "st3")
C02S_TN_T(st4, "st4")
C02S_TN_T(st5, "st5")
template <class Ch, class X>
struct tn<Ch, std::vector<X>>
{
  static std::string get() { return "vector<" + tn<Ch, X>::get() + ">"; }
};
template <class Ch, class Kk, class Vv>
struct tn<Ch, std::unordered_map<Kk, Vv>>
{
  static std::string get() { return "map<" + tn<Ch, Kk>::get() + "," + tn<Ch, Vv>::get() + ">"; }
};

// =====================================================================================================
// real side: conversion functions (each has a twin on Val in c02_static.cpp, written from this description)
// =====================================================================================================
namespace fn
{
// ord: character -> int, its code
struct ord
{
  template <class C>
  int operator()(C &&c) const { return static_cast<int>(c); }
};
// cat2: (c0,c1) -> the two-character string c0 c1
struct cat2
{
  template <class Tp>
  auto operator()(Tp &&t) const
  {
    using C = std::remove_cvref_t<decltype(fcppt::tuple::get<0>(t))>;
    std::basic_string<C> r;
    r.push_back(fcppt::tuple::get<0>(t));
    r.push_back(fcppt::tuple::get<1>(t));
    return r;
  }
};
// mix: (int a, int b) -> long a*100+b   (not symmetric on purpose)
struct mix
{
  template <class Tp>
  long operator()(Tp &&t) const { return static_cast<long>(fcppt::tuple::get<0>(t)) * 100 + fcppt::tuple::get<1>(t); }
};
// size: container -> unsigned
struct size
{
  template <class Cn>
  unsigned operator()(Cn &&c) const { return static_cast<unsigned>(c.size()); }
};
// get<I>: tuple -> its I-th element
template <std::size_t I>
struct get
{
  template <class Tp>
  auto operator()(Tp &&t) const { return std::remove_cvref_t<decltype(fcppt::tuple::get<I>(t))>(fcppt::tuple::get<I>(t)); }
};
// rev: (a,b) -> (b,a)
struct rev
{
  template <class Tp>
  auto operator()(Tp &&t) const { return fcppt::tuple::make(fcppt::tuple::get<1>(t), fcppt::tuple::get<0>(t)); }
};
// neg: int -> -int
struct neg
{
  int operator()(int &&v) const { return -v; }
};
// dup: c -> (c,c)
struct dup
{
  template <class C>
  auto operator()(C &&c) const { return fcppt::tuple::make(std::remove_cvref_t<C>(c), std::remove_cvref_t<C>(c)); }
};
// show: anything -> std::string, its canonical form
struct show
{
  template <class X>
  std::string operator()(X &&x) const
  {
    std::string o;
    print(o, x);
    return o;
  }
};
// convert_if functions
// even: int -> the same int, fails on odd numbers
template <class Ch>
struct even
{
  p::result<Ch, int> operator()(int &&v) const
  {
    if (v % 2 != 0)
      return fcppt::either::make_failure<int>(p::error<Ch>{W<Ch>("odd")});
    return p::result<Ch, int>{v};
  }
};
// nota: character -> the same character, fails on 'a'
template <class Ch>
struct nota
{
  p::result<Ch, Ch> operator()(Ch &&c) const
  {
    if (c == Ch('a'))
      return fcppt::either::make_failure<Ch>(p::error<Ch>{W<Ch>("is a")});
    return p::result<Ch, Ch>{c};
  }
};
// short2: string -> the same string, fails if longer than 2
template <class Ch>
struct short2
{
  p::result<Ch, std::basic_string<Ch>> operator()(std::basic_string<Ch> &&s) const
  {
    if (s.size() > 2)
      return fcppt::either::make_failure<std::basic_string<Ch>>(p::error<Ch>{W<Ch>("too long")});
    return p::result<Ch, std::basic_string<Ch>>{std::move(s)};
  }
};
}

// =====================================================================================================
// fixtures
// =====================================================================================================
struct outcome
{
  bool ok = false;
  bool fatal = false;
  std::string canon;
  char const *entry_point = "";
};
struct world
{
  bool wide = false;
  SK sk = SK::eps;
  std::string real_type;                                             // tn<Ch, result type>
  std::function<outcome(std::string const &, unsigned)> run;         // (input, which entry point)
};
struct rule
{
  std::string name;
  bool has_declared = false;
  Ty declared;
  NP body;
};
struct fixture
{
  std::string name;
  std::string text;                 // the C++ expression(s), for the witness
  std::vector<rule> rules;          // rules[0] is the start rule
  std::vector<std::string> alphabet; // tokens
  std::vector<std::string> samples;  // hand-written positive samples; '~' marks a place where the skipper may run
  std::vector<world> worlds;
};

template <class Ch, class Res>
outcome finish(fcppt::either::object<p::error<Ch>, Res> const &r, char const *ep)
{
  outcome o;
  o.entry_point = ep;
  o.ok = r.has_success();
  if (o.ok)
    print(o.canon, r.get_success_unsafe());
  else
    o.fatal = r.get_failure_unsafe().is_fatal();
  return o;
}
template <class Ch>
std::basic_string<Ch> widen(std::string const &s)
{
  return std::basic_string<Ch>(s.begin(), s.end());
}
// a parser object (or a base_unique_ptr to one) run through parse_string / phrase_parse_string
template <class Ch, SK S, class P>
world world_of(P &&parser)
{
  using PT = std::remove_cvref_t<P>;
  auto sp = std::make_shared<PT const>(std::forward<P>(parser));
  auto sk = std::make_shared<skipper_t<Ch, S> const>(make_skipper<Ch, S>());
  world w;
  w.wide = std::is_same_v<Ch, wchar_t>;
  w.sk = S;
  w.real_type = tn<Ch, p::result_of<PT>>::get();
  w.run = [sp, sk](std::string const &in, unsigned which) {
    if constexpr (S == SK::eps)
    {
      if (which % 2 == 1)
        return finish<Ch>(p::parse_string(p::deref(*sp), widen<Ch>(in)), "parse_string");
    }
    return finish<Ch>(p::phrase_parse_string(p::deref(*sp), widen<Ch>(in), *sk), "phrase_parse_string");
  };
  return w;
}
// a grammar subclass run through grammar_parse_string / phrase_parse_string(start, skipper)
template <class Ch, SK S, class G>
world world_of_grammar()
{
  auto g = std::make_shared<G>();
  world w;
  w.wide = std::is_same_v<Ch, wchar_t>;
  w.sk = S;
  w.real_type = tn<Ch, typename G::result_type>::get();
  w.run = [g](std::string const &in, unsigned which) {
    if (which % 2 == 1)
      return finish<Ch>(p::phrase_parse_string(*g->start(), widen<Ch>(in), g->skipper()), "phrase_parse_string");
    return finish<Ch>(p::grammar_parse_string(widen<Ch>(in), *g), "grammar_parse_string");
  };
  return w;
}
// a plain class with base_unique_ptr members (as test/parse/json.cpp): get() is the start rule
template <class Ch, SK S, class G>
world world_of_members()
{
  auto g = std::make_shared<G>();
  auto sk = std::make_shared<skipper_t<Ch, S> const>(make_skipper<Ch, S>());
  world w;
  w.wide = std::is_same_v<Ch, wchar_t>;
  w.sk = S;
  w.real_type = tn<Ch, p::result_of<std::remove_cvref_t<decltype(p::deref(g->get()))>>>::get();
  w.run = [g, sk](std::string const &in, unsigned) {
    return finish<Ch>(p::phrase_parse_string(p::deref(g->get()), widen<Ch>(in), *sk), "phrase_parse_string");
  };
  return w;
}

}

#endif
