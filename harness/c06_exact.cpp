// C06: checked conversions and integer helpers equal their mathematical definition.
// Oracle: __int128 arithmetic written from the property text, not from the implementation.
#include <vf.hpp>
#include <cstring>

#include <fcppt/bit/mask.hpp>
#include <fcppt/cast/size.hpp>
#include <fcppt/cast/to_unsigned.hpp>
#include <fcppt/cast/to_signed.hpp>
#include <fcppt/bit/shifted_mask.hpp>
#include <fcppt/bit/test.hpp>
#include <fcppt/cast/truncation_check.hpp>
#include <fcppt/enum/from_int.hpp>
#include <fcppt/enum/size.hpp>
#include <fcppt/math/ceil_div.hpp>
#include <fcppt/math/ceil_div_static.hpp>
#include <fcppt/math/ceil_div_signed.hpp>
#include <fcppt/math/clamp.hpp>
#include <fcppt/math/diff.hpp>
#include <fcppt/math/div.hpp>
#include <fcppt/math/interval_distance.hpp>
#include <fcppt/math/is_power_of_2.hpp>
#include <fcppt/math/log2.hpp>
#include <fcppt/math/mod.hpp>
#include <fcppt/math/next_power_of_2.hpp>
#include <fcppt/math/power_of_2.hpp>
#include <fcppt/optional/object.hpp>

#include <cmath>
#include <cstdint>
#include <limits>
#include <string>
#include <type_traits>
#include <vector>

namespace
{
using i128 = __int128;

template <class T>
char const *tn()
{
  if constexpr (std::is_same_v<T, std::int8_t>)
    return "i8";
  else if constexpr (std::is_same_v<T, std::uint8_t>)
    return "u8";
  else if constexpr (std::is_same_v<T, std::int16_t>)
    return "i16";
  else if constexpr (std::is_same_v<T, std::uint16_t>)
    return "u16";
  else if constexpr (std::is_same_v<T, std::int32_t>)
    return "i32";
  else if constexpr (std::is_same_v<T, std::uint32_t>)
    return "u32";
  else if constexpr (std::is_same_v<T, std::int64_t>)
    return "i64";
  else if constexpr (std::is_same_v<T, std::uint64_t>)
    return "u64";
  else
    return "?";
}

std::string s128(i128 v)
{
  if (v == 0)
    return "0";
  bool neg = v < 0;
  std::string r;
  unsigned __int128 u = neg ? -static_cast<unsigned __int128>(v) : static_cast<unsigned __int128>(v);
  while (u)
  {
    r.insert(r.begin(), static_cast<char>('0' + static_cast<int>(u % 10)));
    u /= 10;
  }
  return neg ? "-" + r : r;
}

template <class T>
constexpr i128 lo()
{
  return static_cast<i128>(std::numeric_limits<T>::min());
}
template <class T>
constexpr i128 hi()
{
  return static_cast<i128>(std::numeric_limits<T>::max());
}
template <class T>
bool fits(i128 v)
{
  return v >= lo<T>() && v <= hi<T>();
}

// boundary lattice: 0, +-1, powers of two +-2, min, max, small numbers
template <class T>
std::vector<T> lattice()
{
  std::vector<T> r;
  auto add = [&](i128 v) {
    if (fits<T>(v))
      r.push_back(static_cast<T>(v));
  };
  for (int k = 0; k < 65; ++k)
  {
    i128 p = static_cast<i128>(1) << k;
    for (int d = -2; d <= 2; ++d)
    {
      add(p + d);
      add(-p + d);
    }
  }
  for (int d = 0; d <= 3; ++d)
  {
    add(lo<T>() + d);
    add(hi<T>() - d);
  }
  for (int v = -20; v <= 20; ++v)
    add(v);
  std::sort(r.begin(), r.end());
  r.erase(std::unique(r.begin(), r.end()), r.end());
  return r;
}

// all values for 8/16 bit types; lattice + random for wider types
template <class T>
std::vector<T> values(std::string const &entry, std::size_t nrandom)
{
  std::vector<T> r;
  if constexpr (sizeof(T) <= 2)
  {
    for (i128 v = lo<T>(); v <= hi<T>(); ++v)
      r.push_back(static_cast<T>(v));
  }
  else
  {
    r = lattice<T>();
    vf::rng g(vf::seed_for(entry));
    for (std::size_t i = 0; i < nrandom; ++i)
    {
      std::uint64_t x = g.next();
      // mix magnitudes: shift by a random amount so that small and large values both occur
      x >>= g.below(sizeof(T) * 8);
      if (g.chance(1, 2))
        x = ~x;
      r.push_back(static_cast<T>(x));
    }
  }
  return r;
}

// values for the binary functions: all for 8 bit, all (thorough) or lattice+sample (quick) for 16 bit
template <class T>
std::vector<T> values2(std::string const &entry)
{
  if constexpr (sizeof(T) == 1)
    return values<T>(entry, 0);
  else if constexpr (sizeof(T) == 2)
  {
    if (vf::thorough())
      return values<T>(entry, 0);
    std::vector<T> r = lattice<T>();
    vf::rng g(vf::seed_for(entry));
    for (int i = 0; i < 1500; ++i)
      r.push_back(static_cast<T>(g.next()));
    return r;
  }
  else
  {
    std::vector<T> r = lattice<T>();
    vf::rng g(vf::seed_for(entry));
    std::size_t n = vf::tier<std::size_t>(1000, 3000);
    for (std::size_t i = 0; i < n; ++i)
    {
      std::uint64_t x = g.next() >> g.below(sizeof(T) * 8);
      if (g.chance(1, 2))
        x = ~x;
      r.push_back(static_cast<T>(x));
    }
    return r;
  }
}

void bad(std::string const &key, std::string const &what, i128 a, i128 b, std::string const &got,
         std::string const &want)
{
  vf::violation(key, "mismatch", what + "(" + s128(a) + "," + s128(b) + ") got=" + got + " want=" + want);
}
template <class O>
std::string show_opt(O const &o)
{
  return o.has_value() ? s128(static_cast<i128>(o.get_unsafe())) : std::string("nothing");
}

// ------------------------------------------------------------------ truncation_check
template <class D, class S>
void trunc()
{
  std::string e = std::string("truncation_check<") + tn<D>() + "," + tn<S>() + ">";
  if (!vf::entry_enabled(e))
    return;
  vf::set_entry(e);
  auto vals = values<S>(e, vf::tier<std::size_t>(100000, 1000000));
  std::size_t const chunk = 4096;
  for (std::size_t c = 0, ci = 0; c < vals.size(); c += chunk, ++ci)
  {
    if (!vf::mine(ci))
      continue;
    std::size_t end = std::min(vals.size(), c + chunk);
    if (!vf::begin_case("chunk=%zu first=%s", ci, s128(static_cast<i128>(vals[c])).c_str()))
      continue;
    vf::sample_case(1);
    vf::add_evals(end - c - 1);
    vf::note_distinct(vf::hash_mix(vf::hash_str(e), vf::hash_bytes(&vals[c], (end - c) * sizeof(S))));
    for (std::size_t i = c; i < end; ++i)
    {
      S s = vals[i];
      vf::operands(static_cast<long long>(s));
      auto r = fcppt::cast::truncation_check<D>(s);
      bool exp = fits<D>(static_cast<i128>(s));
      static vf::counter c_present("trunc/present"), c_absent("trunc/absent");
      ++(exp ? c_present : c_absent);
      if (r.has_value() != exp)
        bad(e + (exp ? "/spurious-nothing" : "/spurious-value"), e, static_cast<i128>(s), 0, show_opt(r),
            exp ? s128(static_cast<i128>(s)) : "nothing");
      else if (exp && static_cast<i128>(r.get_unsafe()) != static_cast<i128>(s))
        bad(e + "/wrong-value", e, static_cast<i128>(s), 0, show_opt(r), s128(static_cast<i128>(s)));
    }
  }
}
template <class S>
void trunc_all()
{
  trunc<std::int8_t, S>();
  trunc<std::uint8_t, S>();
  trunc<std::int16_t, S>();
  trunc<std::uint16_t, S>();
  trunc<std::int32_t, S>();
  trunc<std::uint32_t, S>();
  trunc<std::int64_t, S>();
  trunc<std::uint64_t, S>();
}

// ------------------------------------------------------------------ enums
#define VF_ENUM(name, under, maxv)                                                                          \
  enum class name : under                                                                                   \
  {                                                                                                         \
    first = 0,                                                                                              \
    fcppt_maximum = maxv                                                                                    \
  };
VF_ENUM(e1_u8, std::uint8_t, 0)
VF_ENUM(e3_u8, std::uint8_t, 2)
VF_ENUM(e9_u8, std::uint8_t, 8)
VF_ENUM(e200_u8, std::uint8_t, 199)
VF_ENUM(e255_u8, std::uint8_t, 254)
VF_ENUM(e3_i8, std::int8_t, 2)
VF_ENUM(e100_i8, std::int8_t, 99)
VF_ENUM(e3_u16, std::uint16_t, 2)
VF_ENUM(e256_u16, std::uint16_t, 255)
VF_ENUM(e300_u16, std::uint16_t, 299)
VF_ENUM(e3_i16, std::int16_t, 2)
VF_ENUM(e3_u32, std::uint32_t, 2)
VF_ENUM(e70000_u32, std::uint32_t, 69999)
VF_ENUM(e3_int, int, 2)
VF_ENUM(e9_int, int, 8)
VF_ENUM(e3_u64, std::uint64_t, 2)

template <class E, class V>
void from_int_one(char const *ename)
{
  std::string e = std::string("from_int<") + ename + "," + tn<V>() + ">";
  if (!vf::entry_enabled(e))
    return;
  vf::set_entry(e);
  i128 const size = static_cast<i128>(fcppt::enum_::size<E>::value);
  std::vector<V> vals = values<V>(e, vf::tier<std::size_t>(20000, 200000));
  // values around the size and around size + 2^k (the narrowing traps)
  for (int k : {8, 16, 32})
    for (int d = -2; d <= 2; ++d)
    {
      i128 v = size + (static_cast<i128>(1) << k) + d;
      if (fits<V>(v))
        vals.push_back(static_cast<V>(v));
      v = size + d;
      if (fits<V>(v))
        vals.push_back(static_cast<V>(v));
    }
  if (!vf::mine(vf::hash_str(e)))
    return;
  if (!vf::begin_case("size=%s values=%zu", s128(size).c_str(), vals.size()))
    return;
  vf::sample_case(1);
  vf::add_evals(vals.size() - 1);
  vf::note_distinct(vf::hash_mix(vf::hash_str(e), vf::hash_bytes(vals.data(), vals.size() * sizeof(V))));
  for (V v : vals)
  {
    vf::operands(static_cast<long long>(v));
    auto r = fcppt::enum_::from_int<E>(v);
    bool exp = static_cast<i128>(v) < size;
    static vf::counter c_present("from_int/present"), c_absent("from_int/absent");
    ++(exp ? c_present : c_absent);
    if (r.has_value() != exp)
      bad(e + (exp ? "/spurious-nothing" : "/spurious-value"), e, static_cast<i128>(v), size,
          r.has_value() ? s128(static_cast<i128>(static_cast<std::underlying_type_t<E>>(r.get_unsafe()))) : "nothing",
          exp ? s128(static_cast<i128>(v)) : "nothing");
    else if (exp && static_cast<i128>(static_cast<std::underlying_type_t<E>>(r.get_unsafe())) != static_cast<i128>(v))
      bad(e + "/wrong-value", e, static_cast<i128>(v), size,
          s128(static_cast<i128>(static_cast<std::underlying_type_t<E>>(r.get_unsafe()))), s128(static_cast<i128>(v)));
  }
}
template <class E>
void from_int_all(char const *ename)
{
  from_int_one<E, std::uint8_t>(ename);
  from_int_one<E, std::uint16_t>(ename);
  from_int_one<E, std::uint32_t>(ename);
  from_int_one<E, std::uint64_t>(ename);
}

// ------------------------------------------------------------------ binary/unary helpers
i128 ceil_div_exact(i128 a, i128 b)
{
  i128 q = a / b, r = a % b;
  if (r != 0 && ((r < 0) == (b < 0)))
    ++q;
  return q;
}

// Runs f(a, b) for the row "a fixed, b over bs"; rows are the unit of partitioning and of the distinct count.
template <class T, class F>
void rows(std::string const &e, std::vector<T> const &as, std::vector<T> const &bs, F const &f)
{
  if (!vf::entry_enabled(e))
    return;
  vf::set_entry(e);
  std::uint64_t bh = vf::hash_bytes(bs.data(), bs.size() * sizeof(T));
  for (std::size_t i = 0; i < as.size(); ++i)
  {
    if (!vf::mine(i))
      continue;
    T a = as[i];
    if (!vf::begin_case("a=%s b=[%zu values]", s128(static_cast<i128>(a)).c_str(), bs.size()))
      continue;
    vf::sample_case(1);
    vf::add_evals(bs.size() - 1);
    vf::note_distinct(vf::hash_mix(vf::hash_mix(vf::hash_str(e), static_cast<std::uint64_t>(a)), bh));
    for (T b : bs)
    {
      vf::operands(static_cast<long long>(a), static_cast<long long>(b));
      f(a, b);
    }
  }
}

template <class T>
void bit_test_all();
template <class T>
void unsigned_fns()
{
  bit_test_all<T>();
  std::string t = tn<T>();
  auto as = values2<T>("binary-a-" + t);
  auto bs = values2<T>("binary-b-" + t);
  if constexpr (sizeof(T) >= 4)
  {
    // ceil_div rejects narrow types at compile time (integer promotion); the quantifier asks for [0,2047]^2
    std::vector<T> small;
    for (unsigned v = 0; v < 2048; ++v)
      small.push_back(static_cast<T>(v));
    std::vector<T> as2 = as, bs2 = bs;
    if (sizeof(T) == 4)
    {
      as2 = small;
      bs2 = small;
      as2.insert(as2.end(), as.begin(), as.end());
    }
    std::string const e_ceil = "ceil_div<" + t + ">";
    rows<T>("ceil_div<" + t + ">", as2, sizeof(T) == 4 ? bs2 : bs, [&](T a, T b) {
      auto r = fcppt::math::ceil_div(a, b);
      std::string const &e = e_ceil;
      if (b == 0)
      {
        VF_COUNT("ceil_div/zero-divisor");
        if (r.has_value())
          bad(e + "/zero-divisor", e, a, b, show_opt(r), "nothing");
      }
      else
      {
        i128 w = ceil_div_exact(a, b);
        VF_COUNT("ceil_div/value");
        if (!r.has_value() || static_cast<i128>(r.get_unsafe()) != w)
          bad(e + "/value", e, a, b, show_opt(r), s128(w));
      }
    });
    if (sizeof(T) == 4)
      rows<T>("ceil_div<" + t + ">/lattice-b", as, bs, [&](T a, T b) {
        auto r = fcppt::math::ceil_div(a, b);
        std::string const &e = e_ceil;
        if (b == 0 ? r.has_value() : (!r.has_value() || static_cast<i128>(r.get_unsafe()) != ceil_div_exact(a, b)))
          bad(e + "/value", e, a, b, show_opt(r), b == 0 ? "nothing" : s128(ceil_div_exact(a, b)));
      });
  }
  rows<T>("mod<" + t + ">", as, bs, [&](T a, T b) {
    auto r = fcppt::math::mod(a, b);
    static std::string const e = "mod<" + t + ">";
    if (b == 0)
    {
      VF_COUNT("mod/zero-divisor");
      if (r.has_value())
        bad(e + "/zero-divisor", e, a, b, show_opt(r), "nothing");
    }
    else if (!r.has_value() || static_cast<i128>(r.get_unsafe()) != static_cast<i128>(a) % static_cast<i128>(b))
      bad(e + "/value", e, a, b, show_opt(r), s128(static_cast<i128>(a) % static_cast<i128>(b)));
  });
  rows<T>("div<" + t + ">", as, bs, [&](T a, T b) {
    auto r = fcppt::math::div(a, b);
    static std::string const e = "div<" + t + ">";
    if (b == 0)
    {
      VF_COUNT("div/zero-divisor");
      if (r.has_value())
        bad(e + "/zero-divisor", e, a, b, show_opt(r), "nothing");
    }
    else if (!r.has_value() || static_cast<i128>(r.get_unsafe()) != static_cast<i128>(a) / static_cast<i128>(b))
      bad(e + "/value", e, a, b, show_opt(r), s128(static_cast<i128>(a) / static_cast<i128>(b)));
  });
  rows<T>("diff<" + t + ">", as, bs, [&](T a, T b) {
    T d = fcppt::math::diff(a, b);
    i128 w = static_cast<i128>(a) - static_cast<i128>(b);
    if (w < 0)
      w = -w;
    if (static_cast<i128>(d) != w)
      bad("diff<" + t + ">/value", "diff<" + t + ">", a, b, s128(d), s128(w));
  });
  // clamp(v, lo, hi): v over as, (lo,hi) over a reduced set of pairs
  {
    std::vector<T> ps = lattice<T>();
    if (ps.size() > 40)
    {
      std::vector<T> q;
      for (std::size_t i = 0; i < ps.size(); i += ps.size() / 40 + 1)
        q.push_back(ps[i]);
      q.push_back(ps.back());
      ps = q;
    }
    rows<T>("clamp<" + t + ">", as, ps, [&](T v, T l) {
      for (T h : ps)
      {
        auto r = fcppt::math::clamp(v, l, h);
        static std::string const e = "clamp<" + t + ">";
        if (l > h)
        {
          VF_COUNT("clamp/empty-interval");
          if (r.has_value())
            bad(e + "/empty-interval", e, l, h, show_opt(r), "nothing");
        }
        else
        {
          T w = v < l ? l : (v > h ? h : v);
          if (!r.has_value() || r.get_unsafe() != w)
            bad(e + "/value", e, l, h, show_opt(r), s128(w));
        }
      }
    });
  }
  // unary
  {
    auto us = values<T>("unary-" + t, vf::tier<std::size_t>(200000, 2000000));
    std::vector<T> one{0};
    std::size_t const chunk = 8192;
    std::string e = "unary<" + t + ">";
    if (vf::entry_enabled(e))
    {
      vf::set_entry(e);
      for (std::size_t c = 0, ci = 0; c < us.size(); c += chunk, ++ci)
      {
        if (!vf::mine(ci))
          continue;
        std::size_t end = std::min(us.size(), c + chunk);
        if (!vf::begin_case("chunk=%zu first=%s", ci, s128(static_cast<i128>(us[c])).c_str()))
          continue;
        vf::sample_case(1);
        vf::add_evals(end - c - 1);
        vf::note_distinct(vf::hash_mix(vf::hash_str(e), vf::hash_bytes(&us[c], (end - c) * sizeof(T))));
        for (std::size_t i = c; i < end; ++i)
        {
          T a = us[i];
          vf::operands(static_cast<long long>(a));
          bool p = fcppt::math::is_power_of_2(a);
          int bits = 0;
          for (unsigned k = 0; k < sizeof(T) * 8; ++k)
            bits += static_cast<int>((static_cast<std::uint64_t>(a) >> k) & 1U);
          if (p != (bits == 1))
            bad("is_power_of_2<" + t + ">/value", "is_power_of_2", a, 0, p ? "true" : "false", bits == 1 ? "true" : "false");
          if (a != 0) // log2(0) is documented as undefined
          {
            unsigned lg = 0;
            for (i128 v = a; v > 1; v >>= 1)
              ++lg;
            if (lg + 1 == sizeof(T) * 8)
              VF_COUNT("log2/top-bit-set");
            else
              VF_COUNT("log2/other");
            T r = fcppt::math::log2(a);
            if (static_cast<unsigned>(r) != lg)
              bad("log2<" + t + ">/value", "log2", a, 0, s128(r), s128(lg));
          }
          {
            i128 np = 1;
            while (np < static_cast<i128>(a))
              np <<= 1;
            if (fits<T>(np))
            {
              VF_COUNT("next_power_of_2/representable");
              T r = fcppt::math::next_power_of_2(a);
              if (static_cast<i128>(r) != np)
                bad("next_power_of_2<" + t + ">/value", "next_power_of_2", a, 0, s128(r), s128(np));
            }
            else
              VF_COUNT("next_power_of_2/skipped-unrepresentable");
          }
        }
      }
    }
    // power_of_2 and the bit helpers: every exponent whose result is representable
    e = "power_of_2<" + t + ">";
    if (vf::entry_enabled(e) && vf::mine(vf::hash_str(e)))
    {
      vf::set_entry(e);
      if (vf::begin_case("exponents 0..%zu", sizeof(T) * 8 - 1))
      {
        vf::sample_case(1);
        vf::note_distinct(vf::hash_str(e));
        for (unsigned k = 0; k < sizeof(T) * 8; ++k)
        {
          vf::operands(k);
          i128 w = static_cast<i128>(1) << k;
          T r = fcppt::math::power_of_2<T>(k);
          if (static_cast<i128>(r) != w)
            bad(e + "/value", e, k, 0, s128(r), s128(w));
          auto m = fcppt::bit::shifted_mask<T>(k);
          if (static_cast<i128>(m.get()) != w)
            bad("shifted_mask<" + t + ">/value", "shifted_mask", k, 0, s128(m.get()), s128(w));
          for (T v : lattice<T>())
          {
            bool tst = fcppt::bit::test(v, m);
            bool want = ((static_cast<std::uint64_t>(v) >> k) & 1U) != 0;
            if (tst != want)
              bad("bit::test<" + t + ">/value", "bit::test", v, k, tst ? "true" : "false", want ? "true" : "false");
            vf::add_evals(1);
          }
        }
      }
    }
  }
}

// bit::test(value, mask) for ARBITRARY masks (not only single bits) and for signed types, where value & mask may be
// negative: true exactly when the two bit patterns have a common bit
template <class T>
void bit_test_all()
{
  using U = std::make_unsigned_t<T>;
  std::string const t = tn<T>();
  std::string const e = "bit::test<" + t + ">";
  if (!vf::entry_enabled(e))
    return;
  vf::set_entry(e);
  std::vector<T> vals;
  if constexpr (sizeof(T) == 1)
    for (int v = std::numeric_limits<T>::min(); v <= std::numeric_limits<T>::max(); ++v)
      vals.push_back(static_cast<T>(v));
  else
    vals = lattice<T>();
  // the sign-changing and widening casts the checked conversions are built from: bit pattern kept / value kept
  if (vf::mine(vf::hash_str(e)) && vf::begin_case("cast::to_signed / to_unsigned / size over %zu values", vals.size()))
  {
    using S = std::make_signed_t<T>;
    for (T v : vals)
    {
      vf::operands(static_cast<long long>(v));
      vf::add_evals(3);
      // (to_unsigned accepts signed sources only, to_signed unsigned ones)
      if constexpr (std::is_signed_v<T>)
      {
        auto const u = fcppt::cast::to_unsigned(v);
        static_assert(std::is_same_v<std::remove_cvref_t<decltype(u)>, U>);
        if (std::memcmp(&u, &v, sizeof v) != 0)
          bad("cast::to_unsigned<" + t + ">/bits", "to_unsigned", v, 0, s128(u), "same bit pattern");
      }
      else
      {
        auto const sg = fcppt::cast::to_signed(v);
        static_assert(std::is_same_v<std::remove_cvref_t<decltype(sg)>, S>);
        if (std::memcmp(&sg, &v, sizeof v) != 0)
          bad("cast::to_signed<" + t + ">/bits", "to_signed", v, 0, s128(sg), "same bit pattern");
      }
      using W = std::conditional_t<std::is_signed_v<T>, long long, unsigned long long>;
      if (static_cast<i128>(fcppt::cast::size<W>(v)) != static_cast<i128>(v))
        bad("cast::size<" + t + ">/value", "size", v, 0, s128(fcppt::cast::size<W>(v)), s128(v));
    }
    VF_COUNT("cast/sign-and-size-casts");
  }
  std::size_t idx = 0;
  for (T v : vals)
  {
    if (!vf::mine(idx++))
      continue;
    if (!vf::begin_case("value=%s against %zu masks", s128(v).c_str(), vals.size()))
      continue;
    vf::note_distinct(vf::hash_mix(vf::hash_str(e), static_cast<std::uint64_t>(static_cast<U>(v))));
    for (T m : vals)
    {
      vf::operands(static_cast<long long>(v), static_cast<long long>(m));
      bool const got = fcppt::bit::test(v, fcppt::bit::mask<T>{m});
      bool const want = (static_cast<U>(v) & static_cast<U>(m)) != 0;
      if (got != want)
        bad(e + "/value", "bit::test", v, m, got ? "true" : "false", want ? "true" : "false");
      if (v < 0 && m < 0)
        VF_COUNT("bit::test/both-sign-bits-set");
      vf::add_evals(1);
    }
  }
}

template <class T>
void signed_fns()
{
  bit_test_all<T>();
  std::string t = tn<T>();
  auto as = values2<T>("binary-a-" + t);
  auto bs = values2<T>("binary-b-" + t);
  if constexpr (sizeof(T) >= 4)
  {
    std::vector<T> small;
    for (int v = -1024; v < 1024; ++v)
      small.push_back(static_cast<T>(v));
    std::vector<T> as2 = as;
    if (sizeof(T) == 4)
    {
      as2 = small;
      as2.insert(as2.end(), as.begin(), as.end());
    }
    auto judge = [&](T a, T b) {
      static std::string const e = "ceil_div_signed<" + t + ">";
      if (b == 0)
      {
        VF_COUNT("ceil_div_signed/zero-divisor");
        auto r = fcppt::math::ceil_div_signed(a, b);
        if (r.has_value())
          bad(e + "/zero-divisor", e, a, b, show_opt(r), "nothing");
        return;
      }
      i128 w = ceil_div_exact(a, b);
      // side condition of the statement: the exact result (and the truncated quotient the machine
      // division forms on the way) must be representable
      if (!fits<T>(w) || !fits<T>(static_cast<i128>(a) / static_cast<i128>(b)))
      {
        VF_COUNT("ceil_div_signed/skipped-unrepresentable");
        return;
      }
      if (b < 0)
      {
        if (a < 0)
          VF_COUNT("ceil_div_signed/neg-neg");
        else
          VF_COUNT("ceil_div_signed/pos-neg");
      }
      else
      {
        if (a < 0)
          VF_COUNT("ceil_div_signed/neg-pos");
        else
          VF_COUNT("ceil_div_signed/pos-pos");
      }
      auto r = fcppt::math::ceil_div_signed(a, b);
      if (!r.has_value() || static_cast<i128>(r.get_unsafe()) != w)
        bad(e + (b < 0 ? "/negative-divisor" : "/positive-divisor"), e, a, b, show_opt(r), s128(w));
    };
    rows<T>("ceil_div_signed<" + t + ">", as2, sizeof(T) == 4 ? small : bs, judge);
    if (sizeof(T) == 4)
      rows<T>("ceil_div_signed<" + t + ">/lattice-b", as, bs, judge);
  }
  rows<T>("div<" + t + ">", as, bs, [&](T a, T b) {
    static std::string const e = "div<" + t + ">";
    if (b == 0)
    {
      auto r = fcppt::math::div(a, b);
      if (r.has_value())
        bad(e + "/zero-divisor", e, a, b, show_opt(r), "nothing");
      return;
    }
    i128 w = static_cast<i128>(a) / static_cast<i128>(b);
    // result type is the promoted type; INT_MIN / -1 is not representable there for >= 32 bit
    using R = decltype(a / b);
    if (!fits<R>(w))
    {
      VF_COUNT("div/skipped-unrepresentable");
      return;
    }
    auto r = fcppt::math::div(a, b);
    if (!r.has_value() || static_cast<i128>(r.get_unsafe()) != w)
      bad(e + "/value", e, a, b, show_opt(r), s128(w));
  });
  rows<T>("diff<" + t + ">", as, bs, [&](T a, T b) {
    i128 w = static_cast<i128>(a) - static_cast<i128>(b);
    // std::abs(a - b): a - b is formed in the promoted type, the result converted to T
    using R = decltype(a - b);
    if (!fits<R>(w) || !fits<R>(-w) || !fits<T>(w < 0 ? -w : w))
    {
      VF_COUNT("diff/skipped-unrepresentable");
      return;
    }
    if (w < 0)
      w = -w;
    T d = fcppt::math::diff(a, b);
    if (static_cast<i128>(d) != w)
      bad("diff<" + t + ">/value", "diff<" + t + ">", a, b, s128(d), s128(w));
  });
  {
    std::vector<T> ps = lattice<T>();
    if (ps.size() > 40)
    {
      std::vector<T> q;
      for (std::size_t i = 0; i < ps.size(); i += ps.size() / 40 + 1)
        q.push_back(ps[i]);
      q.push_back(ps.back());
      ps = q;
    }
    rows<T>("clamp<" + t + ">", as, ps, [&](T v, T l) {
      for (T h : ps)
      {
        auto r = fcppt::math::clamp(v, l, h);
        static std::string const e = "clamp<" + t + ">";
        if (l > h)
        {
          VF_COUNT("clamp/empty-interval");
          if (r.has_value())
            bad(e + "/empty-interval", e, l, h, show_opt(r), "nothing");
        }
        else
        {
          T w = v < l ? l : (v > h ? h : v);
          if (!r.has_value() || r.get_unsafe() != w)
            bad(e + "/value", e, l, h, show_opt(r), s128(w));
        }
      }
    });
  }
}

// observed only (anchored, not named by the statement)
void observe_interval_distance()
{
  std::string e = "observed/interval_distance<int>";
  if (!vf::entry_enabled(e) || !vf::mine(vf::hash_str(e)))
    return;
  vf::set_entry(e);
  if (!vf::begin_case("all intervals with ends in [-3,3]"))
    return;
  unsigned asym = 0, n = 0;
  for (int a = -3; a <= 3; ++a)
    for (int b = a; b <= 3; ++b)
      for (int c = -3; c <= 3; ++c)
        for (int d = c; d <= 3; ++d)
        {
          using iv = fcppt::tuple::object<int, int>;
          int x = fcppt::math::interval_distance(iv{a, b}, iv{c, d});
          int y = fcppt::math::interval_distance(iv{c, d}, iv{a, b});
          ++n;
          if (x != y)
            ++asym;
        }
  vf::add_evals(n);
  vf::count("observed/interval_distance/calls", n);
  vf::count("observed/interval_distance/asymmetric-pairs", asym);
  if (asym)
    vf::observation("interval_distance is not symmetric for " + std::to_string(asym) + " of " + std::to_string(n) +
                    " ordered interval pairs over [-3,3] (observed only; not judged by C06)");
}

// floating point mod is specified as std::fmod; compared bit-exactly
void float_mod()
{
  std::string e = "mod<double>";
  if (!vf::entry_enabled(e) || !vf::mine(vf::hash_str(e)))
    return;
  vf::set_entry(e);
  if (!vf::begin_case("lattice x lattice"))
    return;
  vf::note_distinct(vf::hash_str(e));
  std::vector<double> v{0.0, -0.0, 1.0, -1.0, 0.5, 2.5, -2.5, 3.0, 1e300, -1e300, 1e-300, 5e-324,
                        std::numeric_limits<double>::max(), std::numeric_limits<double>::infinity()};
  for (double a : v)
    for (double b : v)
    {
      auto r = fcppt::math::mod(a, b);
      vf::add_evals(1);
      if (b == 0.0)
      {
        if (r.has_value())
          vf::violation("mod<double>/zero-divisor", "mismatch", "value for zero divisor");
      }
      else
      {
        double w = std::fmod(a, b);
        if (!r.has_value() || std::memcmp(&w, &r.get_unsafe(), sizeof w) != 0)
          vf::violation("mod<double>/value", "mismatch", "differs from std::fmod for " + std::to_string(a) + "," + std::to_string(b));
      }
    }
}

// mod for the other floating point types: float and long double (80-bit here: values that are not doubles), against the
// std::fmod overload of the same type; div against the same type's division
template <class F>
void float_mod_other(char const *fname)
{
  std::string e = std::string("mod<") + fname + ">";
  if (!vf::entry_enabled(e) || !vf::mine(vf::hash_str(e)))
    return;
  vf::set_entry(e);
  if (!vf::begin_case("lattice x lattice"))
    return;
  vf::note_distinct(vf::hash_str(e));
  F const big = std::ldexp(F(1), std::numeric_limits<F>::digits - 1); // 2^(digits-1): big + 1 is still exact
  std::vector<F> v{F(0),  -F(0),  F(1),   F(-1),      F(0.5),     F(2.5),      F(-2.5),       F(3),  F(10), F(7),
                   big,   big + F(1), -(big + F(1)), big * F(2) - F(1), std::numeric_limits<F>::max(), std::numeric_limits<F>::min(), std::numeric_limits<F>::denorm_min(),
                   std::numeric_limits<F>::infinity()};
  for (F a : v)
    for (F b : v)
    {
      auto const r = fcppt::math::mod(a, b);
      vf::add_evals(1);
      if (b == F(0))
      {
        if (r.has_value())
          vf::violation(e + "/zero-divisor", "mismatch", "value for zero divisor");
      }
      else
      {
        F const w = std::fmod(a, b);
        bool const same = r.has_value() && ((std::isnan(w) && std::isnan(r.get_unsafe())) || (w == r.get_unsafe() && std::signbit(w) == std::signbit(r.get_unsafe())));
        if (!same)
          vf::violation(e + "/value", "mismatch", "differs from std::fmod of the same type for " + std::to_string(static_cast<long double>(a)) + "," + std::to_string(static_cast<long double>(b)));
        VF_COUNT("mod-float/other-types");
      }
    }
}

// ceil_div_static<T, a, b>: the compile-time form of ceil_div - every instantiation is the constant ceil(a / b)
template <class T, T A, T B>
void cds_one()
{
  T const got = fcppt::math::ceil_div_static<T, A, B>::value;
  T const want = static_cast<T>(A / B + (A % B != 0 ? 1 : 0));
  VF_COUNT("ceil_div_static/instantiations");
  if (got != want)
    vf::violation("ceil_div_static/value", "mismatch", "ceil_div_static<" + std::to_string(A) + "," + std::to_string(B) + "> = " + std::to_string(got) + " want " + std::to_string(want));
}
template <class T, T A>
void cds_row()
{
  cds_one<T, A, 1>();
  cds_one<T, A, 2>();
  cds_one<T, A, 3>();
  cds_one<T, A, 7>();
  cds_one<T, A, 8>();
  cds_one<T, A, 64>();
}
template <class T>
void ceil_div_static_all(char const *tname)
{
  std::string e = std::string("ceil_div_static<") + tname + ">";
  if (!vf::entry_enabled(e) || !vf::mine(vf::hash_str(e)))
    return;
  vf::set_entry(e);
  if (!vf::begin_case("dividends 0,1,2,6,7,8,9,63,64,65,max against divisors 1,2,3,7,8,64"))
    return;
  vf::note_distinct(vf::hash_str(e));
  cds_row<T, 0>();
  cds_row<T, 1>();
  cds_row<T, 2>();
  cds_row<T, 6>();
  cds_row<T, 7>();
  cds_row<T, 8>();
  cds_row<T, 9>();
  cds_row<T, 63>();
  cds_row<T, 64>();
  cds_row<T, 65>();
  cds_row<T, std::numeric_limits<T>::max()>();
  vf::add_evals(66);
}

#ifndef VF_SLICE
#define VF_SLICE -2 // single translation unit build: everything
#endif
#define VF_IN_SLICE(i) (VF_SLICE == (i) || VF_SLICE == -2)
}

#if VF_IN_SLICE(0)
void vf_slice_0()
{
  trunc_all<std::int8_t>();
  trunc_all<std::uint8_t>();
  trunc_all<std::int16_t>();
  trunc_all<std::uint16_t>();
}
#endif
#if VF_IN_SLICE(1)
void vf_slice_1()
{
  trunc_all<std::int32_t>();
  trunc_all<std::uint32_t>();
  trunc_all<std::int64_t>();
  trunc_all<std::uint64_t>();
}
#endif
#if VF_IN_SLICE(2)
void vf_slice_2()
{
  from_int_all<e1_u8>("e1_u8");
  from_int_all<e3_u8>("e3_u8");
  from_int_all<e9_u8>("e9_u8");
  from_int_all<e200_u8>("e200_u8");
  from_int_all<e255_u8>("e255_u8");
  from_int_all<e3_i8>("e3_i8");
  from_int_all<e100_i8>("e100_i8");
  from_int_all<e3_u16>("e3_u16");
  from_int_all<e256_u16>("e256_u16");
  from_int_all<e300_u16>("e300_u16");
  from_int_all<e3_i16>("e3_i16");
  from_int_all<e3_u32>("e3_u32");
  from_int_all<e70000_u32>("e70000_u32");
  from_int_all<e3_int>("e3_int");
  from_int_all<e9_int>("e9_int");
  from_int_all<e3_u64>("e3_u64");
}
#endif
#if VF_IN_SLICE(3)
void vf_slice_3()
{
  unsigned_fns<std::uint8_t>();
  unsigned_fns<std::uint16_t>();
}
#endif
#if VF_IN_SLICE(4)
void vf_slice_4()
{
  unsigned_fns<std::uint32_t>();
  unsigned_fns<std::uint64_t>();
}
#endif
#if VF_IN_SLICE(5)
void vf_slice_5()
{
  signed_fns<std::int8_t>();
  signed_fns<std::int16_t>();
  signed_fns<std::int32_t>();
  signed_fns<std::int64_t>();
  float_mod();
  float_mod_other<float>("float");
  float_mod_other<long double>("long double");
  // (types at least as wide as unsigned: with a narrower type a wrong constant becomes a narrowing ERROR in the
  // library's own integral_constant, and a harness that does not build says nothing)
  ceil_div_static_all<unsigned>("unsigned");
  ceil_div_static_all<std::uint64_t>("u64");
  observe_interval_distance();
}
#endif

#if VF_SLICE < 0
void vf_slice_0();
void vf_slice_1();
void vf_slice_2();
void vf_slice_3();
void vf_slice_4();
void vf_slice_5();
namespace
{
void body()
{
  for (char const *b : {"trunc/present", "trunc/absent", "from_int/present", "from_int/absent", "ceil_div/zero-divisor",
                        "ceil_div/value", "ceil_div_signed/neg-neg", "ceil_div_signed/pos-neg",
                        "ceil_div_signed/neg-pos", "ceil_div_signed/pos-pos", "ceil_div_signed/zero-divisor",
                        "clamp/empty-interval", "log2/top-bit-set", "log2/other", "next_power_of_2/representable",
                        "mod/zero-divisor", "div/zero-divisor"})
    vf::require_bucket(b);
  vf_slice_0();
  vf_slice_1();
  vf_slice_2();
  vf_slice_3();
  vf_slice_4();
  vf_slice_5();
}
}
VF_MAIN(body)
#endif
