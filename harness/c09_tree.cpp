// C09: tree parent/child consistency under operation histories.
// Oracle: a reference forest of plain value nodes {id, vector<children>} without back links, driven through the
// same path-addressed operations; after EVERY step the whole real forest is walked: serialisation equality,
// &child.parent() == &node for all nodes, roots without parent, and every derived function against the model.
#include <vf.hpp>

#include <fcppt/make_ref.hpp>
#include <fcppt/reference.hpp>
#include <fcppt/container/tree/child_position.hpp>
#include <fcppt/container/tree/comparison.hpp>
#include <fcppt/container/tree/depth.hpp>
#include <fcppt/container/tree/level.hpp>
#include <fcppt/container/tree/make_pre_order.hpp>
#include <fcppt/container/tree/make_to_root.hpp>
#include <fcppt/container/tree/map.hpp>
#include <fcppt/container/tree/object.hpp>
#include <fcppt/container/tree/pre_order.hpp>
#include <fcppt/container/tree/to_root.hpp>
#include <fcppt/optional/object.hpp>
#include <fcppt/optional/reference.hpp>

#include <algorithm>
#include <memory>
#include <string>
#include <unordered_set>
#include <utility>
#include <iterator>
#include <limits>
#include <vector>

namespace
{
using T = fcppt::container::tree::object<int>;
using TL = fcppt::container::tree::object<long>;
struct M
{
  int id;
  std::vector<M> ch;
};
using Path = std::vector<std::size_t>;

std::string ser(M const &m)
{
  std::string s = "(" + std::to_string(m.id);
  for (auto const &c : m.ch)
    s += ser(c);
  return s + ")";
}
std::string ser(T const &t)
{
  std::string s = "(" + std::to_string(t.value());
  for (auto const &c : t.children())
    s += ser(c);
  return s + ")";
}
std::string serl(TL const &t)
{
  std::string s = "(" + std::to_string(t.value());
  for (auto const &c : t.children())
    s += serl(c);
  return s + ")";
}
std::string ser2(M const &m)
{
  std::string s = "(" + std::to_string(2L * m.id);
  for (auto const &c : m.ch)
    s += ser2(c);
  return s + ")";
}
std::string shape(M const &m)
{
  std::string s = "(";
  for (auto const &c : m.ch)
    s += shape(c);
  return s + ")";
}
std::size_t count_nodes(M const &m)
{
  std::size_t n = 1;
  for (auto const &c : m.ch)
    n += count_nodes(c);
  return n;
}
std::size_t mdepth(M const &m)
{
  std::size_t d = 0;
  for (auto const &c : m.ch)
    d = std::max(d, mdepth(c));
  return d + 1;
}
void mpre(M const &m, std::vector<int> &o)
{
  o.push_back(m.id);
  for (auto const &c : m.ch)
    mpre(c, o);
}
bool meq(M const &a, M const &b)
{
  if (a.id != b.id || a.ch.size() != b.ch.size())
    return false;
  for (std::size_t i = 0; i < a.ch.size(); ++i)
    if (!meq(a.ch[i], b.ch[i]))
      return false;
  return true;
}

T &at(T &t, Path const &p, std::size_t i = 0)
{
  if (i == p.size())
    return t;
  auto it = t.begin();
  std::advance(it, static_cast<std::ptrdiff_t>(p[i]));
  return at(*it, p, i + 1);
}
M &at(M &m, Path const &p, std::size_t i = 0)
{
  if (i == p.size())
    return m;
  return at(m.ch[p[i]], p, i + 1);
}
void paths(M const &m, Path &cur, std::vector<Path> &out)
{
  out.push_back(cur);
  for (std::size_t i = 0; i < m.ch.size(); ++i)
  {
    cur.push_back(i);
    paths(m.ch[i], cur, out);
    cur.pop_back();
  }
}
bool prefix(Path const &a, Path const &b)
{
  if (a.size() > b.size())
    return false;
  for (std::size_t i = 0; i < a.size(); ++i)
    if (a[i] != b[i])
      return false;
  return true;
}
std::string pstr(std::size_t r, Path const &p)
{
  std::string s = "r" + std::to_string(r);
  for (auto i : p)
    s += "." + std::to_string(i);
  return s;
}

struct runner
{
  static constexpr std::size_t R = 4;
  std::vector<std::unique_ptr<T>> real;
  std::vector<M> model;
  vf::rng g{0};
  int nextid = 1;
  bool ok = true;
  std::uint64_t links_checked = 0;
  std::unordered_set<std::uint64_t> shapes;

  void fail(std::string const &cls, std::string const &d)
  {
    vf::violation("tree/" + cls, "mismatch", d);
    ok = false;
  }

  // builds a small fresh subtree (1-4 nodes) in both worlds
  std::pair<T, M> fresh_subtree()
  {
    int id = nextid++;
    T t(id);
    M m{id, {}};
    unsigned k = static_cast<unsigned>(g.below(3));
    for (unsigned i = 0; i < k; ++i)
    {
      int c = nextid++;
      T &child = t.push_back(c).get();
      m.ch.push_back(M{c, {}});
      if (g.chance(1, 3))
      {
        int gc = nextid++;
        child.push_back(gc);
        m.ch.back().ch.push_back(M{gc, {}});
      }
    }
    return {std::move(t), std::move(m)};
  }

  void relabel(M &m, T &t)
  {
    int id = nextid++;
    m.id = id;
    if (g.chance(1, 2))
      t.value(id);
    else
    {
      int tmp = id;
      t.value(std::move(tmp));
    }
    auto it = t.begin();
    for (auto &c : m.ch)
    {
      relabel(c, *it);
      ++it;
    }
  }

  template <class Tree>
  bool links_ok(Tree const &t)
  {
    for (auto const &c : t.children())
    {
      ++links_checked;
      auto p = c.parent();
      if (!p.has_value() || &p.get_unsafe().get() != &t)
        return false;
      if (!links_ok(c))
        return false;
    }
    return true;
  }

  void verify_node_functions(std::size_t ri)
  {
    T &root = *real[ri];
    M const &mroot = model[ri];
    std::vector<Path> all;
    Path cur;
    paths(mroot, cur, all);
    for (auto const &p : all)
    {
      T &n = at(root, p);
      T const &cn = n;
      // level
      if (fcppt::container::tree::level(n) != p.size())
      {
        fail("level", "node " + pstr(ri, p) + " level=" + std::to_string(fcppt::container::tree::level(n)));
        return;
      }
      // to_root: ids from the node up to the root
      std::vector<int> want, got, gotc;
      {
        Path q = p;
        for (;;)
        {
          want.push_back(at(const_cast<M &>(mroot), q).id);
          if (q.empty())
            break;
          q.pop_back();
        }
      }
      for (auto &x : fcppt::container::tree::make_to_root(n))
      {
        got.push_back(x.value());
        if (got.size() > 64)
          break;
      }
      for (auto const &x : fcppt::container::tree::make_to_root(cn))
      {
        gotc.push_back(x.value());
        if (gotc.size() > 64)
          break;
      }
      if (got != want || gotc != want)
      {
        fail("to_root", "from node " + pstr(ri, p) + " yields " + std::to_string(got.size()) + " nodes, want " + std::to_string(want.size()));
        return;
      }
      // size/empty/front/back
      M const &mn = at(const_cast<M &>(mroot), p);
      if (n.size() != mn.ch.size() || n.empty() != mn.ch.empty())
      {
        fail("size-empty", "node " + pstr(ri, p));
        return;
      }
      if (n.front().has_value() != !mn.ch.empty() || n.back().has_value() != !mn.ch.empty() ||
          (!mn.ch.empty() && (n.front().get_unsafe().get().value() != mn.ch.front().id ||
                              cn.back().get_unsafe().get().value() != mn.ch.back().id)))
      {
        fail("front-back", "node " + pstr(ri, p));
        return;
      }
      // reverse iteration
      {
        std::vector<int> rv, rw;
        for (auto it = cn.rbegin(); it != cn.rend(); ++it)
          rv.push_back(it->value());
        for (auto it = mn.ch.rbegin(); it != mn.ch.rend(); ++it)
          rw.push_back(it->id);
        if (rv != rw)
        {
          fail("reverse-iteration", "node " + pstr(ri, p));
          return;
        }
      }
      // child_position: every child is found at its index, the node itself is not its own child
      std::size_t idx = 0;
      for (auto it = n.begin(); it != n.end(); ++it, ++idx)
      {
        auto pos = fcppt::container::tree::child_position(n, *it);
        if (!pos.has_value() || pos.get_unsafe() != it)
        {
          fail("child_position", "child " + std::to_string(idx) + " of " + pstr(ri, p) + " not found at its position");
          return;
        }
      }
      if (fcppt::container::tree::child_position(n, n).has_value())
      {
        fail("child_position-self", "node reported as its own child");
        return;
      }
      // "the position where THIS OBJECT resides": identity, not equality.  A look-alike standing on its own (a deep copy of
      // a child) is nobody's child, and of two deep-equal siblings each one is found at its own position.
      if (!n.empty() && p.size() <= 1) // (the root and its children: the copies below cost a subtree each)
      {
        T twin(*n.begin());
        if (fcppt::container::tree::child_position(n, twin).has_value())
        {
          fail("child_position/look-alike-found", "a free-standing deep copy of child 0 of " + pstr(ri, p) + " is reported as a child");
          return;
        }
        T cp(n);
        cp.insert(cp.end(), T(*cp.begin())); // now the first and the last child are deep-equal
        std::size_t k = 0;
        for (auto it = cp.begin(); it != cp.end(); ++it, ++k)
        {
          auto pos = fcppt::container::tree::child_position(cp, *it);
          if (!pos.has_value() || pos.get_unsafe() != it)
          {
            fail("child_position/deep-equal-siblings", "child " + std::to_string(k) + " of a copy of " + pstr(ri, p) + " with a deep-equal sibling is not found at its own position");
            return;
          }
        }
        VF_COUNT("child_position/deep-equal-siblings");
      }
    }
  }

  void verify(char const *op)
  {
    for (std::size_t i = 0; i < R && ok; ++i)
    {
      T &t = *real[i];
      if (ser(t) != ser(model[i]))
      {
        fail(std::string(op) + "/shape", "root " + std::to_string(i) + " real=" + ser(t) + " model=" + ser(model[i]));
        return;
      }
      if (t.parent().has_value())
      {
        fail(std::string(op) + "/root-has-parent", "root " + std::to_string(i));
        return;
      }
      if (!links_ok(t))
      {
        fail(std::string(op) + "/parent-link", "a child of root " + std::to_string(i) + " does not point at the node that lists it; forest=" + ser(model[i]));
        return;
      }
      if (fcppt::container::tree::depth(t) != mdepth(model[i]))
      {
        fail("depth", "root " + std::to_string(i));
        return;
      }
      std::vector<int> a, b, c;
      mpre(model[i], a);
      for (auto const &n : fcppt::container::tree::make_pre_order(std::as_const(t)))
      {
        b.push_back(n.value());
        if (b.size() > 400)
          break;
      }
      for (auto &n : fcppt::container::tree::make_pre_order(t))
      {
        c.push_back(n.value());
        if (c.size() > 400)
          break;
      }
      if (a != b || a != c)
      {
        fail("pre_order", "root " + std::to_string(i) + " visits " + std::to_string(b.size()) + " nodes, want " + std::to_string(a.size()));
        return;
      }
      // pre_order iterators are forward iterators: a COPY taken at any position enumerates the rest on its own, and the
      // iterator it was copied from is not disturbed by that (saved positions, multi-pass algorithms)
      {
        auto const range = fcppt::container::tree::make_pre_order(std::as_const(t));
        auto it = range.begin();
        auto const end = range.end();
        std::size_t k = 0;
        std::vector<decltype(it)> saved;
        for (; it != end && k <= a.size(); ++it, ++k)
        {
          saved.push_back(it);
          if (a.size() > 10 && k % 3 != 0) // large trees: a copy is walked to the end from every third position
            continue;
          auto copy = it;
          std::size_t j = k;
          for (; copy != end && j <= a.size(); ++copy, ++j)
            if (j >= a.size() || copy->value() != a[j])
              break;
          if (copy != end || j != a.size())
          {
            fail("pre_order/copied-iterator", "root " + std::to_string(i) + ": a copy taken at position " + std::to_string(k) + " stops or differs at position " + std::to_string(j) + " of " + std::to_string(a.size()) + "; tree=" + ser(model[i]));
            return;
          }
          if (k >= a.size() || it->value() != a[k])
          {
            fail("pre_order/original-after-copy-walk", "root " + std::to_string(i) + ": the iterator a copy was taken from is disturbed at position " + std::to_string(k) + "; tree=" + ser(model[i]));
            return;
          }
          VF_COUNT("pre_order/copied-iterator-walks");
        }
        if (k != a.size())
        {
          fail("pre_order/original-after-copy-walk", "root " + std::to_string(i) + ": visits " + std::to_string(k) + " nodes while copies are walked, want " + std::to_string(a.size()));
          return;
        }
        // the saved positions still denote their nodes after everything else was advanced
        for (std::size_t q = 0; q < saved.size(); ++q)
          if (saved[q]->value() != a[q] || (q + 1 < saved.size() && std::next(saved[q]) != saved[q + 1]))
          {
            fail("pre_order/saved-position", "root " + std::to_string(i) + ": saved position " + std::to_string(q) + " moved; tree=" + ser(model[i]));
            return;
          }
      }
      verify_node_functions(i);
      if (!ok)
        return;
      TL mapped = fcppt::container::tree::map<TL>(t, [](int v) { return 2L * v; });
      if (serl(mapped) != ser2(model[i]) || mapped.parent().has_value())
      {
        fail("map", "root " + std::to_string(i));
        return;
      }
      // a function with state (a running number): the plain recursive model - a node, then its children from left to right -
      // numbers the nodes in pre-order, and so must the result
      {
        long counter = 0;
        TL const numbered = fcppt::container::tree::map<TL>(t, [&counter](int) { return counter++; });
        long expect = 0;
        bool in_order = true;
        for (auto const &n : fcppt::container::tree::make_pre_order(numbered))
          in_order = in_order && n.value() == expect++;
        if (!in_order || expect != counter)
        {
          fail("map/stateful-function-order", "root " + std::to_string(i) + ": a numbering function does not number the nodes in pre-order; tree=" + ser(model[i]));
          return;
        }
        VF_COUNT("map/stateful-function");
      }
      // the result of map is inspected IN PLACE (a later move or copy would re-link its children)
      if (!links_ok(mapped))
      {
        fail("map/parent-link", "a node of the result of tree::map does not point at the node that lists it; source=" + ser(model[i]));
        return;
      }
      shapes.insert(vf::hash_str(shape(model[i])));
      vf::count_max("max/tree/nodes", count_nodes(model[i]));
      vf::count_max("max/tree/depth", mdepth(model[i]));
    }
    // comparison between all pairs of roots
    for (std::size_t i = 0; i < R && ok; ++i)
      for (std::size_t j = 0; j < R; ++j)
      {
        bool e = *real[i] == *real[j], ne = *real[i] != *real[j];
        bool w = meq(model[i], model[j]);
        if (e != w || ne == w)
        {
          fail("comparison", "roots " + std::to_string(i) + "," + std::to_string(j));
          return;
        }
      }
  }

  void pick(std::size_t &root, Path &p)
  {
    root = g.below(R);
    std::vector<Path> ps;
    Path cur;
    paths(model[root], cur, ps);
    // prefer inner nodes half of the time
    p = ps[g.below(ps.size())];
    if (p.empty() && ps.size() > 1 && g.chance(1, 2))
      p = ps[1 + g.below(ps.size() - 1)];
  }

  void run(std::uint64_t idx, std::string const &e)
  {
    g = vf::rng(vf::seed_for(e, idx));
    nextid = 1;
    ok = true;
    real.clear();
    model.clear();
    for (std::size_t i = 0; i < R; ++i)
    {
      int id = nextid++;
      real.push_back(std::make_unique<T>(id));
      model.push_back(M{id, {}});
    }
    unsigned len = static_cast<unsigned>(g.below(40)) + 1;
    for (unsigned st = 0; st < len && ok; ++st)
    {
      std::size_t ra, rb;
      Path pa, pb;
      pick(ra, pa);
      pick(rb, pb);
      T &ta = at(*real[ra], pa);
      M &ma = at(model[ra], pa);
      bool const same = ra == rb && pa == pb;
      bool const related = ra == rb && (prefix(pa, pb) || prefix(pb, pa));
      std::size_t total = 0;
      for (auto const &m : model)
        total += count_nodes(m);
      unsigned op = static_cast<unsigned>(g.below(28));
      if (total > 45 && op < 8)
        op = 8 + op % 5; // keep forests small: bias towards removing operations
      char const *inner = pa.empty() ? "root" : "inner";
      std::string opname;
      switch (op)
      {
      case 0:
      {
        int id = nextid++;
        vf::extend_case(" push_back(%s,v%d)", pstr(ra, pa).c_str(), id);
        // both overloads of every value-taking function: T const & (named value) and T && (temporary)
        bool const lv = g.chance(1, 2);
        int tmp = id;
        T &r = lv ? ta.push_back(id).get() : ta.push_back(std::move(tmp)).get();
        vf::count(lv ? "tree/overload/push_back(T const&)" : "tree/overload/push_back(T&&)", 1);
        ma.ch.push_back(M{id, {}});
        if (&r != &ta.back().get_unsafe().get())
          fail("push_back/returned-reference", "does not refer to the new last child");
        opname = "push_back-value";
      }
      break;
      case 1:
      {
        int id = nextid++;
        vf::extend_case(" push_front(%s,v%d)", pstr(ra, pa).c_str(), id);
        int tmp = id;
        bool const lv = g.chance(1, 2);
        T &r = lv ? ta.push_front(id).get() : ta.push_front(std::move(tmp)).get();
        vf::count(lv ? "tree/overload/push_front(T const&)" : "tree/overload/push_front(T&&)", 1);
        ma.ch.insert(ma.ch.begin(), M{id, {}});
        if (&r != &ta.front().get_unsafe().get())
          fail("push_front/returned-reference", "does not refer to the new first child");
        opname = "push_front-value";
      }
      break;
      case 2:
      case 3:
      {
        // in a quarter of the cases the subtree is not a fresh root but a node that is still ATTACHED elsewhere: the first
        // child of another root is moved from in place (push_back(std::move(child))).  What a moved-from node holds is not
        // prescribed, but it is still listed by its parent - so its parent link still says so - until it is erased.
        if (ra != rb && !model[rb].ch.empty() && g.chance(1, 4))
        {
          bool const back2 = op == 2;
          T &src_parent = *real[rb];
          T &src = *src_parent.begin();
          M const moved = model[rb].ch.front();
          vf::extend_case(" push_%s(%s,std::move(first child of r%zu)) erase(r%zu,0)", back2 ? "back" : "front", pstr(ra, pa).c_str(), rb, rb);
          if (back2)
          {
            ta.push_back(std::move(src));
            ma.ch.push_back(moved);
          }
          else
          {
            ta.push_front(std::move(src));
            ma.ch.insert(ma.ch.begin(), moved);
          }
          if (!src.parent().has_value() || &src.parent().get_unsafe().get() != &src_parent)
            fail("push-attached-node/moved-from-node-lost-its-parent-link", "the node moved from is still listed by r" + std::to_string(rb) + " but its parent() does not refer to it");
          src_parent.erase(src_parent.begin());
          model[rb].ch.erase(model[rb].ch.begin());
          VF_COUNT("tree/op/push-attached-node");
          opname = "push-attached-node";
          break;
        }
        auto sub = fresh_subtree();
        bool back = op == 2;
        vf::extend_case(" push_%s(%s,subtree%s)", back ? "back" : "front", pstr(ra, pa).c_str(), ser(sub.second).c_str());
        if (back)
        {
          ta.push_back(std::move(sub.first));
          ma.ch.push_back(sub.second);
        }
        else
        {
          ta.push_front(std::move(sub.first));
          ma.ch.insert(ma.ch.begin(), sub.second);
        }
        opname = back ? "push_back-subtree" : "push_front-subtree";
      }
      break;
      case 4:
      case 5:
      {
        std::size_t pos = g.below(ma.ch.size() + 1);
        auto it = ta.begin();
        std::advance(it, static_cast<std::ptrdiff_t>(pos));
        if (op == 4)
        {
          int id = nextid++;
          vf::extend_case(" insert(%s,%zu,v%d)", pstr(ra, pa).c_str(), pos, id);
          bool const lv = g.chance(1, 2);
          int tmp = id;
          if (lv)
            ta.insert(it, id);
          else
            ta.insert(it, std::move(tmp));
          vf::count(lv ? "tree/overload/insert(T const&)" : "tree/overload/insert(T&&)", 1);
          ma.ch.insert(ma.ch.begin() + static_cast<std::ptrdiff_t>(pos), M{id, {}});
          opname = "insert-value";
        }
        else
        {
          auto sub = fresh_subtree();
          vf::extend_case(" insert(%s,%zu,subtree%s)", pstr(ra, pa).c_str(), pos, ser(sub.second).c_str());
          ta.insert(it, std::move(sub.first));
          ma.ch.insert(ma.ch.begin() + static_cast<std::ptrdiff_t>(pos), sub.second);
          opname = "insert-subtree";
        }
      }
      break;
      case 6:
      case 7:
      {
        // copy / move construction from any node; the new tree replaces another root or is pushed into an unrelated node
        bool copy = op == 6;
        vf::extend_case(" %s_ctor(%s)", copy ? "copy" : "move", pstr(ra, pa).c_str());
        M mc = ma;
        std::unique_ptr<T> nt;
        if (copy)
        {
          nt = std::make_unique<T>(std::as_const(ta));
        }
        else
        {
          nt = std::make_unique<T>(std::move(ta));
          ma.ch.clear(); // the children moved; the int payload of the source stays
        }
        if (ser(*nt) != ser(mc) || nt->parent().has_value() || !links_ok(*nt))
        {
          fail(std::string(copy ? "copy" : "move") + "-ctor/result", "new tree " + ser(*nt) + " want " + ser(mc));
          break;
        }
        relabel(mc, *nt);
        std::size_t slot = g.below(R);
        if (slot != ra && g.chance(1, 2))
        {
          vf::extend_case("->root%zu", slot);
          real[slot] = std::move(nt);
          model[slot] = mc;
          opname = copy ? "copy-ctor-to-root" : "move-ctor-to-root";
        }
        else if (!related || copy)
        {
          // push the new tree below node b (b may be anywhere: the new tree is independent)
          T &tb = at(*real[rb], pb);
          M &mb = at(model[rb], pb);
          vf::extend_case("->push_back(%s)", pstr(rb, pb).c_str());
          tb.push_back(std::move(*nt));
          mb.ch.push_back(mc);
          opname = copy ? "copy-ctor-to-child" : "move-ctor-to-child";
        }
        else
          opname = copy ? "copy-ctor-dropped" : "move-ctor-dropped";
      }
      break;
      case 8:
      case 9:
      {
        bool back = op == 8;
        vf::extend_case(" pop_%s(%s)", back ? "back" : "front", pstr(ra, pa).c_str());
        auto r = back ? ta.pop_back() : ta.pop_front();
        if (ma.ch.empty())
        {
          if (r.has_value())
            fail("pop/empty-returned-value", "");
          opname = back ? "pop_back-empty" : "pop_front-empty";
        }
        else
        {
          M const &want = back ? ma.ch.back() : ma.ch.front();
          if (!r.has_value() || ser(r.get_unsafe()) != ser(want) || r.get_unsafe().parent().has_value() ||
              !links_ok(r.get_unsafe()))
            fail(std::string(back ? "pop_back" : "pop_front") + "/result",
                 "returned " + (r.has_value() ? ser(r.get_unsafe()) : std::string("nothing")) + " want " + ser(want));
          if (want.ch.empty())
            opname = back ? "pop_back-leaf" : "pop_front-leaf";
          else
            opname = back ? "pop_back-subtree" : "pop_front-subtree";
          if (back)
            ma.ch.pop_back();
          else
            ma.ch.erase(ma.ch.begin());
        }
      }
      break;
      case 10:
        if (!ma.ch.empty())
        {
          std::size_t pos = g.below(ma.ch.size());
          vf::extend_case(" erase(%s,%zu)", pstr(ra, pa).c_str(), pos);
          auto it = ta.begin();
          std::advance(it, static_cast<std::ptrdiff_t>(pos));
          ta.erase(it);
          ma.ch.erase(ma.ch.begin() + static_cast<std::ptrdiff_t>(pos));
          opname = "erase";
        }
        break;
      case 11:
      {
        std::size_t a = g.below(ma.ch.size() + 1), b = g.below(ma.ch.size() + 1);
        if (a > b)
          std::swap(a, b);
        vf::extend_case(" erase(%s,%zu..%zu)", pstr(ra, pa).c_str(), a, b);
        auto i1 = ta.begin(), i2 = ta.begin();
        std::advance(i1, static_cast<std::ptrdiff_t>(a));
        std::advance(i2, static_cast<std::ptrdiff_t>(b));
        ta.erase(i1, i2);
        ma.ch.erase(ma.ch.begin() + static_cast<std::ptrdiff_t>(a), ma.ch.begin() + static_cast<std::ptrdiff_t>(b));
        opname = a == b ? "erase-range-empty" : "erase-range";
      }
      break;
      case 12:
        if (!ma.ch.empty())
        {
          std::size_t pos = g.below(ma.ch.size());
          vf::extend_case(" release(%s,%zu)", pstr(ra, pa).c_str(), pos);
          auto it = ta.begin();
          std::advance(it, static_cast<std::ptrdiff_t>(pos));
          T rel = ta.release(it);
          M mrel = ma.ch[pos];
          ma.ch.erase(ma.ch.begin() + static_cast<std::ptrdiff_t>(pos));
          if (ser(rel) != ser(mrel) || rel.parent().has_value() || !links_ok(rel))
            fail("release/result", "released " + ser(rel) + " want " + ser(mrel));
          opname = mrel.ch.empty() ? "release-leaf" : "release-subtree";
          // re-attach the released subtree elsewhere half of the time (not below itself: it is detached already)
          if (ok && g.chance(1, 2))
          {
            std::size_t rc;
            Path pc;
            pick(rc, pc);
            vf::extend_case("->push_front(%s)", pstr(rc, pc).c_str());
            at(*real[rc], pc).push_front(std::move(rel));
            at(model[rc], pc).ch.insert(at(model[rc], pc).ch.begin(), mrel);
            opname = "release-and-reattach";
          }
        }
        break;
      case 13:
        vf::extend_case(" clear(%s)", pstr(ra, pa).c_str());
        ta.clear();
        ma.ch.clear();
        opname = "clear";
        break;
      case 14:
        vf::extend_case(" sort(%s)", pstr(ra, pa).c_str());
        ta.sort();
        std::stable_sort(ma.ch.begin(), ma.ch.end(), [](M const &x, M const &y) { return x.id < y.id; });
        opname = "sort";
        break;
      case 15:
        vf::extend_case(" sort_desc(%s)", pstr(ra, pa).c_str());
        ta.sort([](int x, int y) { return x > y; });
        std::stable_sort(ma.ch.begin(), ma.ch.end(), [](M const &x, M const &y) { return x.id > y.id; });
        opname = "sort-predicate";
        break;
      case 16:
      {
        int id = nextid++;
        vf::extend_case(" value(%s,v%d)", pstr(ra, pa).c_str(), id);
        ta.value(id);
        ma.id = id;
        if (ta.value() != id || std::as_const(ta).value() != id)
          fail("value/readback", "");
        opname = "value-set";
      }
      break;
      case 17:
      case 18:
        // side condition: the operands are distinct and not in an ancestor/descendant relation
        if (!related)
        {
          T &tb = at(*real[rb], pb);
          M &mb = at(model[rb], pb);
          vf::extend_case(" %s(%s,%s)", op == 17 ? "swap" : "free_swap", pstr(ra, pa).c_str(), pstr(rb, pb).c_str());
          if (op == 17)
            ta.swap(tb);
          else
          {
            using fcppt::container::tree::swap;
            swap(ta, tb);
          }
          std::swap(ma, mb);
          opname = std::string("swap-") + inner + "-" + (pb.empty() ? "root" : "inner");
        }
        break;
      case 19:
      case 20:
        // copy assignment between any two distinct nodes (also ancestor/descendant: well-defined by value semantics)
        if (!same)
        {
          T &tb = at(*real[rb], pb);
          M mb = at(model[rb], pb);
          vf::extend_case(" copy_assign(%s<-%s)", pstr(ra, pa).c_str(), pstr(rb, pb).c_str());
          ta = std::as_const(tb);
          M &target = at(model[ra], pa);
          bool grows = mb.ch.size() > target.ch.size();
          target = mb;
          relabel(at(model[ra], pa), at(*real[ra], pa));
          opname = std::string("copy-assign-") + inner + (related ? "-related" : "-unrelated") + (grows ? "-grows" : "");
        }
        break;
      case 21:
      case 22:
        if (related && !same && prefix(pa, pb))
        {
          // hoisting: the source is a strict descendant of the target. The target takes over the source's value and
          // children; everything else that was below the target (the source node itself and its siblings) is destroyed.
          T &tb = at(*real[rb], pb);
          M sub = at(model[rb], pb); // by value: the model's source is destroyed by the assignment below
          vf::extend_case(" move_assign_hoist(%s<-%s)", pstr(ra, pa).c_str(), pstr(rb, pb).c_str());
          ta = std::move(tb);
          M &target = at(model[ra], pa);
          target.id = sub.id;
          std::vector<M> kids = std::move(sub.ch);
          target.ch = std::move(kids);
          opname = sub.ch.empty() && target.ch.empty() ? "move-assign-hoist-leaf" : "move-assign-hoist-subtree";
        }
        else if (!related)
        {
          T &tb = at(*real[rb], pb);
          M &mb = at(model[rb], pb);
          vf::extend_case(" move_assign(%s<-%s)", pstr(ra, pa).c_str(), pstr(rb, pb).c_str());
          ta = std::move(tb);
          ma.id = mb.id;
          ma.ch = std::move(mb.ch);
          mb.ch.clear();
          int nid = nextid++;
          tb.value(nid);
          mb.id = nid;
          opname = std::string("move-assign-") + inner + "-" + (pb.empty() ? "root" : "inner");
        }
        break;
      case 24:
      {
        // comparison must see the SHAPE, not only the values: rebuild the node's pre-order value sequence as a flat tree
        // (all values direct children of the first) and as a chain, and compare with the node itself
        vf::extend_case(" compare_reshaped(%s)", pstr(ra, pa).c_str());
        std::vector<int> vals;
        mpre(ma, vals);
        T flat(vals[0]);
        M mflat{vals[0], {}};
        for (std::size_t i = 1; i < vals.size(); ++i)
        {
          flat.push_back(vals[i]);
          mflat.ch.push_back(M{vals[i], {}});
        }
        T chain(vals[0]);
        M mchain{vals[0], {}};
        {
          T *cur = &chain;
          M *mcur = &mchain;
          for (std::size_t i = 1; i < vals.size(); ++i)
          {
            cur = &cur->push_back(vals[i]).get();
            mcur->ch.push_back(M{vals[i], {}});
            mcur = &mcur->ch.back();
          }
        }
        bool e1 = flat == std::as_const(ta), w1 = meq(mflat, ma);
        bool e2 = chain == std::as_const(ta), w2 = meq(mchain, ma);
        bool e3 = flat == chain, w3 = meq(mflat, mchain);
        if (!w1 || !w2 || !w3)
          vf::count("tree/comparison/same-values-different-shape");
        if (e1 != w1 || e2 != w2 || e3 != w3 || (flat != std::as_const(ta)) == w1 || (chain != std::as_const(ta)) == w2)
          fail("comparison-same-values-different-shape",
               "node " + ser(ma) + " vs flat " + ser(mflat) + " / chain " + ser(mchain) + ": == gives " + (e1 ? "T" : "F") + (e2 ? "T" : "F") + (e3 ? "T" : "F") +
                   " want " + (w1 ? "T" : "F") + (w2 ? "T" : "F") + (w3 ? "T" : "F"));
        opname = "compare-reshaped";
      }
      break;
      case 27:
      {
        // a new root built by the (value, child list) constructor from copies of up to three existing nodes; it is
        // checked where it was constructed and then replaces a root
        T::child_list kids;
        M mc{nextid++, {}};
        unsigned const nk = static_cast<unsigned>(g.below(4));
        std::string from;
        for (unsigned k = 0; k < nk; ++k)
        {
          std::size_t rk;
          Path pk;
          pick(rk, pk);
          kids.push_back(std::as_const(at(*real[rk], pk)));
          mc.ch.push_back(at(model[rk], pk));
          from += " " + pstr(rk, pk);
        }
        vf::extend_case(" child_list_ctor(v%d;%s)", mc.id, from.c_str());
        int idv = mc.id;
        auto nt = std::make_unique<T>(std::move(idv), std::move(kids));
        if (ser(*nt) != ser(mc) || nt->parent().has_value() || !links_ok(*nt))
        {
          fail("child-list-ctor/result", "new tree " + ser(*nt) + " want " + ser(mc) + (links_ok(*nt) ? "" : " (a child does not point at the new node)"));
          break;
        }
        {
          int keep = mc.id;
          relabel(mc, *nt);
          (void)keep;
        }
        std::size_t const slot = g.below(R);
        real[slot] = std::move(nt);
        model[slot] = mc;
        opname = nk == 0 ? "child-list-ctor-empty" : "child-list-ctor";
      }
      break;
      case 25:
      case 26:
      {
        // self operands (through a second reference, as they arise in generic code): the node is what it was
        T &alias = ta;
        if (op == 25)
        {
          vf::extend_case(" self_copy_assign(%s)", pstr(ra, pa).c_str());
          ta = std::as_const(alias);
          opname = "self-copy-assign";
        }
        else
        {
          vf::extend_case(" self_swap(%s)", pstr(ra, pa).c_str());
          ta.swap(alias);
          opname = "self-swap";
        }
      }
      break;
      case 23:
      {
        // independence of copies: copy a node, mutate the copy, the source must not change (checked by verify)
        vf::extend_case(" copy_then_mutate(%s)", pstr(ra, pa).c_str());
        T cp(std::as_const(ta));
        cp.push_back(-1);
        if (!cp.empty())
          cp.front().get_unsafe().get().value(-2);
        for (auto &n : fcppt::container::tree::make_pre_order(cp))
          n.value(-3);
        opname = "copy-then-mutate";
      }
      break;
      }
      if (opname.empty())
        continue;
      vf::count("tree/op/" + opname);
      verify(opname.c_str());
    }
    vf::note_distinct(vf::hash_str(vf::current_case()));
  }
};

// ------------------------------------------------------------------ fault injection: a value type whose copies can fail
// The tree is a template over the value type, and a value's copy (there is no cheaper move for this type) may throw.
// A failpoint makes the k-th copy after arming throw.  The property's invariant must survive an operation that ends in
// an exception: every child's parent() is the node that lists it, a root has no parent, no node is lost or destroyed
// twice (live-object ledger of the value type + ASan/LSan).  What values the nodes hold afterwards is not judged.
struct fault
{
};
struct fv
{
  static long &live()
  {
    static long n = 0;
    return n;
  }
  static long &countdown()
  {
    static long n = 0;
    return n;
  }
  static void tick()
  {
    if (countdown() > 0 && --countdown() == 0)
      throw fault{};
  }
  explicit fv(int k) : id(k) { ++live(); }
  fv(fv const &o) : id((tick(), o.id)) { ++live(); }
  fv &operator=(fv const &o)
  {
    tick();
    id = o.id;
    return *this;
  }
  ~fv() { --live(); }
  friend bool operator<(fv const &a, fv const &b) { return a.id < b.id; }
  friend bool operator==(fv const &a, fv const &b) { return a.id == b.id; }
  int id;
};
using TF = fcppt::container::tree::object<fv>;

struct fault_runner
{
  std::vector<std::unique_ptr<TF>> roots;
  std::uint64_t links = 0;
  std::string trace;
  bool ok = true;

  static void collect(TF &t, std::vector<TF *> &out)
  {
    out.push_back(&t);
    for (TF &c : t)
      collect(c, out);
  }
  static bool below(TF const &anc, TF const &n) // is n inside the subtree of anc (or anc itself)?
  {
    for (TF const *p = &n; p != nullptr;)
    {
      if (p == &anc)
        return true;
      auto par = p->parent();
      p = par.has_value() ? &par.get_unsafe().get() : nullptr;
    }
    return false;
  }
  long walk(TF &t, std::string const &e, char const *op)
  {
    long n = 1;
    for (TF &c : t)
    {
      ++links;
      auto par = c.parent();
      if (!par.has_value() || &par.get_unsafe().get() != &t)
      {
        if (ok)
          vf::violation(e + "/" + op + "/parent-link", "mismatch", "after " + trace + ": a child does not point at the node that lists it");
        ok = false;
        return n;
      }
      n += walk(c, e, op);
    }
    return n;
  }
  void verify(std::string const &e, char const *op)
  {
    long nodes = 0;
    for (auto &r : roots)
    {
      if (r->parent().has_value())
      {
        if (ok)
          vf::violation(e + "/" + op + "/root-has-parent", "mismatch", "after " + trace);
        ok = false;
      }
      nodes += walk(*r, e, op);
    }
    if (ok && nodes != fv::live())
    {
      vf::violation(e + "/" + op + "/node-ledger", "mismatch",
                    "after " + trace + ": " + std::to_string(nodes) + " nodes reachable from the roots, " + std::to_string(fv::live()) + " values alive");
      ok = false;
    }
  }
  void run(std::uint64_t h, std::string const &e)
  {
    vf::rng g(vf::seed_for(e, h));
    int next_id = 1;
    roots.clear();
    ok = true;
    trace.clear();
    long const base_live = fv::live();
    if (base_live != 0)
    {
      vf::violation(e + "/ledger-not-zero-at-start", "mismatch", std::to_string(base_live));
      fv::live() = 0;
    }
    for (int i = 0; i < 2; ++i)
      roots.push_back(std::make_unique<TF>(fv{next_id++}));
    unsigned const steps = 6 + static_cast<unsigned>(g.below(25));
    for (unsigned s = 0; s < steps && ok; ++s)
    {
      std::vector<TF *> all;
      for (auto &r : roots)
        collect(*r, all);
      TF &a = *all[g.below(all.size())];
      TF &b = *all[g.below(all.size())];
      bool const unrelated = !below(a, b) && !below(b, a);
      unsigned const op = static_cast<unsigned>(g.below(14));
      long const arm = g.chance(3, 5) ? static_cast<long>(g.below(4)) + 1 : 0; // fail the arm-th copy from now on
      char const *name = "?";
      bool threw = false;
      fv const val{next_id++};
      try
      {
        fv::countdown() = arm;
        switch (op)
        {
        case 0: name = "push_back-value"; a.push_back(val); break;
        case 1: name = "push_front-value"; a.push_front(val); break;
        case 2:
        {
          name = "insert-value";
          auto it = a.begin();
          std::advance(it, static_cast<std::ptrdiff_t>(g.below(a.size() + 1)));
          a.insert(it, val);
        }
        break;
        case 3:
          name = "swap";
          if (unrelated)
            a.swap(b);
          break;
        case 4:
          name = "copy-assign";
          if (unrelated)
            a = b;
          break;
        case 5:
          name = "move-assign";
          if (unrelated)
            a = std::move(b);
          break;
        case 6:
        {
          name = "copy-ctor-to-root";
          if (roots.size() < 4)
            roots.push_back(std::make_unique<TF>(a));
        }
        break;
        case 7:
        {
          name = "move-ctor-to-root";
          if (roots.size() < 4)
            roots.push_back(std::make_unique<TF>(std::move(a)));
        }
        break;
        case 8:
        {
          name = "release";
          if (!a.empty() && roots.size() < 4)
          {
            auto it = a.begin();
            std::advance(it, static_cast<std::ptrdiff_t>(g.below(a.size())));
            roots.push_back(std::make_unique<TF>(a.release(it)));
          }
        }
        break;
        case 9:
        {
          name = "pop_back";
          auto r = a.pop_back();
          (void)r;
        }
        break;
        case 10:
        {
          name = "push_back-subtree";
          if (unrelated)
            a.push_back(TF(b)); // a copy of b becomes a child of a
        }
        break;
        case 11:
          name = "sort-throwing-predicate";
          a.sort([](fv const &x, fv const &y) {
            fv::tick();
            return y.id < x.id;
          });
          break;
        case 12:
        {
          name = "value-set";
          a.value(val);
        }
        break;
        default:
        {
          name = "map";
          auto m = fcppt::container::tree::map<TF>(a, [](fv const &x) { return fv(x); });
          (void)m;
        }
        break;
        }
      }
      catch (fault const &)
      {
        threw = true;
      }
      fv::countdown() = 0;
      trace += std::string(" ") + name + (threw ? "!throw@" + std::to_string(arm) : "");
      vf::extend_case(" %s%s", name, threw ? "!" : "");
      vf::count(std::string(threw ? "tree/fault/threw/" : "tree/fault/completed/") + name, 1);
      // `val` is still alive here: it is one value that no tree owns
      long const before = fv::live();
      fv::live() = before - 1;
      verify(e, name);
      fv::live() = before;
    }
    roots.clear();
    if (ok && fv::live() != 0)
      vf::violation(e + "/values-alive-after-all-trees-were-destroyed", "mismatch", std::to_string(fv::live()));
    fv::live() = 0;
    vf::note_distinct(vf::hash_str(trace));
  }
};

void fault_histories()
{
  std::string const e = "tree-fault-history";
  if (!vf::entry_enabled(e))
    return;
  vf::set_entry(e);
  for (char const *b : {"tree/fault/threw/swap", "tree/fault/threw/copy-assign", "tree/fault/threw/move-assign", "tree/fault/threw/copy-ctor-to-root",
                        "tree/fault/threw/push_back-value", "tree/fault/threw/insert-value", "tree/fault/threw/release", "tree/fault/threw/pop_back",
                        "tree/fault/threw/push_back-subtree", "tree/fault/threw/sort-throwing-predicate", "tree/fault/threw/map", "tree/fault/completed/swap"})
    vf::require_bucket(b);
  fault_runner r;
  std::uint64_t total = vf::tier<std::uint64_t>(8000, 400000);
  if (vf::has_extra("--small"))
    total = 8000;
  std::uint64_t const per = total / vf::opts().nparts + 1;
  for (std::uint64_t i = 0; i < per; ++i)
  {
    if (!vf::begin_case("fault seed=%" PRIu64 " part=%u h=%" PRIu64 ":", vf::opts().seed, vf::opts().part, i))
      continue;
    r.run(i, e);
  }
  vf::count("tree/fault/links-verified", r.links);
}

// ---- values whose own == is not reflexive (a NaN): comparison "agrees with the same computation on a plain recursive
// model" - == is the conjunction of the value comparisons, != its negation - also when a tree is compared with ITSELF
void nan_trees()
{
  std::string const e = "tree<double>/non-reflexive-values";
  if (!vf::entry_enabled(e) || !vf::mine(vf::hash_str(e)))
    return;
  vf::set_entry(e);
  if (!vf::begin_case("trees of doubles with a NaN at the root / in a child / in a grandchild / nowhere: all pairs incl. self"))
    return;
  using TD = fcppt::container::tree::object<double>;
  double const nan = std::numeric_limits<double>::quiet_NaN();
  auto const make = [nan](int where) {
    TD t(where == 0 ? nan : 1.0);
    t.push_back(where == 1 ? nan : 2.0);
    t.push_back(3.0);
    t.front().get_unsafe().get().push_back(where == 2 ? nan : 4.0);
    return t;
  };
  std::vector<TD> trees;
  for (int where = 0; where < 4; ++where)
  {
    trees.push_back(make(where));
    trees.push_back(make(where)); // an equal-looking second object
  }
  for (std::size_t i = 0; i < trees.size(); ++i)
    for (std::size_t j = 0; j < trees.size(); ++j)
    {
      vf::note_distinct(vf::hash_mix(vf::hash_str(e), i * 16 + j));
      // model: equal iff same shape (all are) and every pair of corresponding values compares equal: a NaN never does
      bool const has_nan_i = i / 2 != 3, has_nan_j = j / 2 != 3;
      bool const want_eq = !has_nan_i && !has_nan_j; // all non-NaN values coincide; a NaN position makes the pair unequal
      bool const same_place_nan = has_nan_i && has_nan_j && i / 2 == j / 2;
      (void)same_place_nan;
      bool const eq = trees[i] == trees[j], ne = trees[i] != trees[j];
      VF_COUNT("tree/nan/comparisons");
      if (i == j)
        VF_COUNT("tree/nan/self-comparisons");
      if (eq != want_eq || ne == want_eq)
        vf::violation("tree<double>/comparison/non-reflexive-values", "mismatch",
                      "trees #" + std::to_string(i) + " and #" + std::to_string(j) + (i == j ? " (the same object)" : "") + ": == " + (eq ? "true" : "false") + ", != " + (ne ? "true" : "false") +
                          ", the recursive model gives == " + (want_eq ? "true" : "false"));
    }
  vf::add_evals(trees.size() * trees.size());
}

void body()
{
  fault_histories();
  nan_trees();
  for (char const *b :
       {"tree/op/push_back-value", "tree/op/push_front-value", "tree/op/push_back-subtree", "tree/op/push_front-subtree",
        "tree/op/insert-value", "tree/op/insert-subtree", "tree/op/copy-ctor-to-root", "tree/op/copy-ctor-to-child",
        "tree/op/move-ctor-to-root", "tree/op/move-ctor-to-child", "tree/op/pop_back-subtree", "tree/op/pop_front-subtree",
        "tree/op/pop_back-empty", "tree/op/erase", "tree/op/erase-range", "tree/op/erase-range-empty",
        "tree/op/release-subtree", "tree/op/release-and-reattach", "tree/op/clear", "tree/op/sort", "tree/op/sort-predicate",
        "tree/op/value-set", "tree/overload/push_front(T const&)", "tree/overload/push_front(T&&)", "tree/overload/push_back(T const&)",
        "tree/overload/push_back(T&&)", "tree/overload/insert(T const&)", "tree/overload/insert(T&&)", "tree/op/child-list-ctor", "tree/op/self-copy-assign", "tree/op/self-swap", "tree/op/swap-root-root", "tree/op/swap-inner-inner", "tree/op/swap-root-inner",
        "tree/op/swap-inner-root", "tree/op/copy-assign-inner-related", "tree/op/copy-assign-inner-unrelated",
        "tree/op/copy-assign-root-unrelated", "tree/op/copy-assign-root-related", "tree/op/copy-assign-inner-unrelated-grows",
        "tree/op/move-assign-inner-inner", "tree/op/move-assign-root-inner", "tree/op/move-assign-inner-root",
        "tree/op/move-assign-root-root", "tree/op/move-assign-hoist-subtree", "tree/op/move-assign-hoist-leaf", "tree/op/copy-then-mutate", "tree/op/compare-reshaped", "tree/comparison/same-values-different-shape", "tree/links-verified"})
    vf::require_bucket(b);
  std::string e = "tree-history";
  if (!vf::entry_enabled(e))
    return;
  vf::set_entry(e);
  runner r;
  std::uint64_t total = vf::tier<std::uint64_t>(12000, 1000000);
  if (vf::has_extra("--small")) // the memcheck pass
    total = 16000;
  std::uint64_t per = total / vf::opts().nparts + 1;
  for (std::uint64_t i = 0; i < per; ++i)
  {
    if (!vf::begin_case("seed=%" PRIu64 " part=%u h=%" PRIu64 ":", vf::opts().seed, vf::opts().part, i))
      continue;
    r.run(i, e);
    vf::sample_case(2);
  }
  vf::count("tree/links-verified", r.links_checked);
  vf::count("tree/distinct-shapes(per-partition)", r.shapes.size());
}
}

#ifdef VF_FUZZ
// one history per libFuzzer input; the first byte selects plain or fault-injection histories
void vf_fuzz_one()
{
  if (vf::fuzz_src().take(1) % 3 != 0)
  {
    static runner r;
    std::string const e = "tree-history";
    vf::set_entry(e);
    if (vf::begin_case("fuzz:"))
      r.run(0, e);
  }
  else
  {
    static fault_runner r;
    std::string const e = "tree-fault-history";
    vf::set_entry(e);
    if (vf::begin_case("fuzz fault:"))
      r.run(0, e);
  }
}
#endif

VF_MAIN(body)
