"""Generates, from ONE description per shape, both the C++ that constructs the real fcppt.options parser and the
shape description (c03::Spec) that the reference interpreter and the conservation monitor work on."""
import os

CPPT = {'Int': 'int', 'Unsigned': 'unsigned', 'Str': 'std::string', 'Color': 'c03::color', 'Double': 'double'}


def lit(vt, v):
    if vt == 'Str':
        return 'std::string{"%s"}' % v
    if vt == 'Color':
        return 'c03::color::%s' % v
    if vt == 'Unsigned':
        return '%sU' % v
    if vt == 'Double':
        return '(%s)' % v  # a C++ expression
    return str(v)


def canon(vt, v):
    if vt == 'Str':
        return '\\"%s\\"' % v
    if vt == 'Double':
        h = float(eval(v)).hex()  # printf("%a") prints the same digits without trailing zeros
        mant, exp = h.split('p')
        if '.' in mant:
            mant = mant.rstrip('0').rstrip('.')
        return mant + 'p' + exp
    return str(v)


DECOY = [False]
_SHORT = {'f': 'g', 'o': 'q', 'p': 'r', 'v': 'w', 'x': 'y'}  # (decoy long names get an x appended: 'o' -> 'ox')


def LN(l):
    """long name / sub-command name as given to the REAL parser: the decoy twin (same static type) gets other names"""
    return l + 'x' if DECOY[0] else l


def SN(s):
    return _SHORT[s] if (DECOY[0] and s) else s


def osn(s):
    s = SN(s)
    return 'o::optional_short_name{o::short_name{"%s"}}' % s if s else 'o::optional_short_name{}'


class P:
    def __init__(self, cpp, spec, alpha, labels, pre=''):
        self.cpp, self.spec, self.alpha, self.labels, self.pre = cpp, spec, alpha, labels, pre


def names(s, l):
    return (['-' + s] if s else []) + ['--' + l]


def arg(label, vt='Int'):
    return P('o::argument<%s, %s>{o::long_name{"%s"}, o::optional_help_text{}}' % (label, CPPT[vt], LN(label)),
             'leaf(K::Arg, "%s", VT::%s)' % (label, vt), ['red'] if vt == 'Color' else [], [label])


def sw(label, s, l):
    return P('o::switch_<%s>{%s, o::long_name{"%s"}, o::optional_help_text{}}' % (label, osn(s), LN(l)),
             'leaf(K::Switch, "%s", VT::Int, "%s", "%s")' % (label, s, l), names(s, l), [label])


def flag(label, s, l, vt, act, inact):
    return P('o::flag<%s, %s>{%s, o::long_name{"%s"}, o::make_active_value(%s), o::make_inactive_value(%s), o::optional_help_text{}}'
             % (label, CPPT[vt], osn(s), LN(l), lit(vt, act), lit(vt, inact)),
             'with_values(leaf(K::Flag, "%s", VT::%s, "%s", "%s"), "%s", "%s")' % (label, vt, s, l, canon(vt, act), canon(vt, inact)),
             names(s, l), [label])


def opt(label, s, l, vt='Int', default=None):
    if default is None:
        d = 'o::no_default_value<%s>()' % CPPT[vt]
        spec = 'leaf(K::Opt, "%s", VT::%s, "%s", "%s")' % (label, vt, s, l)
    else:
        d = 'o::make_default_value(fcppt::optional::make(%s))' % lit(vt, default)
        spec = 'with_default(leaf(K::Opt, "%s", VT::%s, "%s", "%s"), "%s")' % (label, vt, s, l, canon(vt, default))
    return P('o::option<%s, %s>{%s, o::long_name{"%s"}, %s, o::optional_help_text{}}' % (label, CPPT[vt], osn(s), LN(l), d),
             spec, names(s, l) + (['red'] if vt == 'Color' else []), [label])


def unit(label):
    return P('o::unit<%s>{}' % label, 'leaf(K::Unit, "%s")' % label, [], [label])


def usw(label, s, l):
    return P('o::unit_switch<%s>{%s, o::long_name{"%s"}}' % (label, osn(s), LN(l)),
             'leaf(K::UnitSwitch, "%s", VT::Int, "%s", "%s")' % (label, s, l), names(s, l), [label])


def merge(xs):
    alpha, labels, pre = [], [], ''
    for x in xs:
        alpha += x.alpha
        labels += x.labels
        pre += x.pre
    return alpha, labels, pre


def prod(*xs):
    alpha, labels, pre = merge(xs)
    return P('o::apply(%s)' % ', '.join(x.cpp for x in xs), 'node(K::Prod, {%s})' % ', '.join(x.spec for x in xs), alpha, labels, pre)


def sum_(label, a, b):
    alpha, labels, pre = merge([a, b])
    return P('o::make_sum<%s>(%s, %s)' % (label, a.cpp, b.cpp), 'node(K::Sum, {%s, %s}, "%s")' % (a.spec, b.spec, label), alpha, [label], pre)


def optional(a):
    return P('o::make_optional(%s)' % a.cpp, 'node(K::Optional, {%s})' % a.spec, a.alpha, a.labels, a.pre)


def many(a):
    return P('o::make_many(%s)' % a.cpp, 'node(K::Many, {%s})' % a.spec, a.alpha, a.labels, a.pre)


def commands(common, subs):
    alpha, _, pre = merge([common] + [s[2] for s in subs])
    cpp = 'o::make_commands(%s, %s)' % (common.cpp, ', '.join(
        'o::make_sub_command<%s>("%s", %s, o::optional_help_text{})' % (tag, LN(name), p.cpp) for (name, tag, p) in subs))
    spec = 'commands(%s, {%s}, {%s}, {%s})' % (common.spec, ', '.join('"%s"' % s[0] for s in subs),
                                               ', '.join('"%s"' % s[1] for s in subs), ', '.join(s[2].spec for s in subs))
    return P(cpp, spec, alpha + [s[0] for s in subs], ['options', 'sub'], pre)


_counter = [0]


def commands_named(common, subs):
    """commands built from NAMED, non-const lvalue parsers - and built a second time from the same objects: make_commands
    takes forwarding references, an lvalue argument is copied and stays what it was"""
    _counter[0] += 1
    k = _counter[0]
    alpha, _, pre = merge([common] + [s[2] for s in subs])
    pre += '  auto named_common_%d{%s};\n' % (k, common.cpp)
    names = []
    for i, (name, tag, p) in enumerate(subs):
        pre += '  auto named_sub_%d_%d{o::make_sub_command<%s>("%s", %s, o::optional_help_text{})};\n' % (k, i, tag, LN(name), p.cpp)
        names.append('named_sub_%d_%d' % (k, i))
    args = ', '.join(['named_common_%d' % k] + names)
    pre += '  auto const first_construction_%d{o::make_commands(%s)};\n  (void)first_construction_%d;\n' % (k, args, k)
    cpp = 'o::make_commands(%s)' % args
    spec = 'commands(%s, {%s}, {%s}, {%s})' % (common.spec, ', '.join('"%s"' % s[0] for s in subs),
                                               ', '.join('"%s"' % s[1] for s in subs), ', '.join(s[2].spec for s in subs))
    return P(cpp, spec, alpha + [s[0] for s in subs], ['options', 'sub'], pre)


def base(a):
    """type-erased through options::make_base (a unique_ptr to options::base<Result>)"""
    return P('o::make_base<o::result_of<decltype(%s)>>(%s)' % (a.cpp, a.cpp), a.spec, a.alpha, a.labels, a.pre)


def cref(a):
    """held in a named variable and passed by fcppt::make_cref"""
    _counter[0] += 1
    v = 'held_%d' % _counter[0]
    return P('fcppt::make_cref(%s)' % v, a.spec, a.alpha, a.labels, a.pre + '  auto const %s{%s};\n' % (v, a.cpp))


def shapes():
    A = lambda l='la', vt='Int': arg(l, vt)  # noqa
    sw_f = lambda l='lb': sw(l, 'f', 'flag')  # noqa
    opt_o = lambda l='lc', vt='Int', d=None: opt(l, 'o', 'opt', vt, d)  # noqa
    optd = lambda l='ld': opt(l, '', 'dd', 'Int', 42)  # noqa
    cmds = lambda: commands(prod(sw_f(), optd()), [('c1', 't1', A('la')), ('w', 't2', prod(opt_o('lc'), many(A('le', 'Str'))))])  # noqa
    return [
        ('arg_int', A()),
        ('arg_string', A('la', 'Str')),
        ('arg_unsigned', A('la', 'Unsigned')),
        ('arg_color', A('la', 'Color')),
        ('switch_short_long', sw_f()),
        ('switch_long_only', sw('lb', '', 'verbose')),
        ('flag_int', flag('lb', 'f', 'flag', 'Int', 10, 20)),
        ('flag_string', flag('lb', 'f', 'flag', 'Str', 'on', 'off')),
        ('flag_color', flag('lb', '', 'flag', 'Color', 'red', 'blue')),
        # distinct values whose default stream output is the same text ("0.3"): a well-formed definition
        ('flag_double_printing_alike', flag('lb', 'f', 'flag', 'Double', '0.1 + 0.2', '0.3')),
        ('prod(flag_double_printing_alike,arg)', prod(flag('lb', 'f', 'flag', 'Double', '1.000000001', '1.000000002'), A())),
        ('option_int', opt_o()),
        ('option_string_default', opt_o('lc', 'Str', 'dflt')),
        ('option_long_only_default', optd()),
        ('option_unsigned', opt_o('lc', 'Unsigned')),
        ('option_color', opt_o('lc', 'Color')),
        ('unit_switch', usw('lb', 'f', 'flag')),
        ('unit', unit('la')),
        ('prod(switch,arg)', prod(sw_f(), A())),
        ('prod(arg,switch)', prod(A(), sw_f())),
        ('prod(option_s,arg_s)', prod(opt_o('lc', 'Str'), A('la', 'Str'))),
        ('prod(arg_s,option_s,switch)', prod(A('la', 'Str'), opt_o('lc', 'Str'), sw_f())),
        ('prod(arg,arg_s)', prod(A('la'), A('le', 'Str'))),
        ('prod(option_o,option_p)', prod(opt_o(), opt('ld', 'p', 'port', 'Str'))),
        ('prod(arg,option)', prod(A(), opt_o())),
        ('prod(flag_int,option_u,arg_color)', prod(flag('lb', 'f', 'flag', 'Int', 1, 0), opt_o('lc', 'Unsigned'), A('la', 'Color'))),
        ('prod(unit_switch,arg)', prod(usw('lb', 'f', 'flag'), A())),
        ('prod(arg,unit)', prod(A(), unit('lh'))),
        # unit succeeds on NO arguments only: placed where its failure decides (first in a product, left of a sum, under optional)
        ('prod(unit,arg)', prod(unit('lh'), A())),
        ('sum(unit,arg)', sum_('lg', unit('lh'), A())),
        ('prod(optional(unit),arg_s)', prod(optional(unit('lh')), A('le', 'Str'))),
        ('commands(switch;c1:unit;c2:arg)+arg_s', prod(commands(sw('lb', 'v', 'verbose'), [('c1', 't1', unit('lh')), ('c2', 't2', A())]), A('le', 'Str'))),
        ('optional(arg)', optional(A())),
        ('optional(option)', optional(opt_o())),
        ('optional(unit_switch)', optional(usw('lb', 'f', 'flag'))),
        ('optional(prod(switch,arg))', optional(prod(sw_f(), A()))),
        ('optional(prod(arg,option))', optional(prod(A(), opt_o()))),
        ('many(arg_s)', many(A('la', 'Str'))),
        ('many(option)', many(opt_o())),
        ('many(prod(arg,option))', many(prod(A(), opt_o()))),
        ('prod(many(arg_s),option_default,switch)', prod(many(A('la', 'Str')), optd(), sw_f())),
        ('prod(many(arg),option_short)', prod(many(A()), opt_o())),
        ('sum(prod(switch,arg),option)', sum_('lg', prod(sw_f(), A()), opt_o())),
        ('sum(unit_switch,arg)', sum_('lg', usw('lb', 'f', 'flag'), A())),
        ('optional(sum(unit_switch,arg))', optional(sum_('lg', usw('lb', 'f', 'flag'), A()))),
        ('sum(prod(arg,arg_s),prod(option,switch))', sum_('lg', prod(A(), A('le', 'Str')), prod(opt_o(), sw_f()))),
        ('many(sum(arg,unit_switch))', many(sum_('lg', A(), usw('lb', 'f', 'flag')))),
        ('prod(optional(sum(arg,unit_switch)),arg_s)', prod(optional(sum_('lg', A(), usw('lb', 'f', 'flag'))), A('le', 'Str'))),
        ('prod(many(sum(arg,option)),many(arg_s))', prod(many(sum_('lg', A(), opt_o())), many(A('le', 'Str')))),
        ('prod(optional(sum(option_u,arg_color)),many(arg_s))', prod(optional(sum_('lg', opt_o('lc', 'Unsigned'), A('la', 'Color'))), many(A('le', 'Str')))),
        # the SAME letters as a long option name in one alternative and as a short flag name in the other: '-o' is a flag
        # and never takes the next token as its value, '--o' is the option
        ('sum(option_long_o,prod(arg_s,switch_short_o))', sum_('lg', opt('lc', '', 'o', 'Str'), prod(A('la', 'Str'), sw('lb', 'o', 'other')))),
        ('sum(prod(arg_s,switch_short_o),option_long_o)', sum_('lg', prod(A('la', 'Str'), sw('lb', 'o', 'other')), opt('lc', '', 'o', 'Str'))),
        # a strictly typed many() with a laxer positional consumer to its right: a token the typed argument cannot
        # convert is a hard error of that round - it is not handed on to the next parser
        ('prod(many(arg),many(arg_s))', prod(many(A()), many(A('le', 'Str')))),
        ('prod(many(arg),arg_s)', prod(many(A()), A('le', 'Str'))),
        ('prod(many(arg_unsigned),optional(arg_s))', prod(many(A('la', 'Unsigned')), optional(A('le', 'Str')))),
        ('commands', cmds()),
        ('optional(commands)', optional(cmds())),
        ('commands(switch;c1:prod(switch,arg);c2:optional(option))', commands(sw('lb', 'v', 'verbose'), [('c1', 't1', prod(sw('lf', 'f', 'flag'), A())), ('c2', 't2', optional(opt_o()))])),
        ('commands(switch;c1:prod(arg,option_p);c2:prod(many(arg_s),option))',
         commands(sw('lb', 'v', 'verbose'), [('c1', 't1', prod(A(), opt('ld', 'p', 'port', 'Str'))), ('c2', 't2', prod(many(A('le', 'Str')), opt_o()))])),
        ('commands(option_default;c1:prod(arg_s,option_s,switch))',
         commands(optd(), [('c1', 't1', prod(A('la', 'Str'), opt_o('lc', 'Str'), sw_f()))])),
        ('commands-from-named-lvalues(option;c1:prod(arg,option_p);c2:switch)/second-construction',
         commands_named(opt_o(), [('c1', 't1', prod(A(), opt('ld', 'p', 'port', 'Str'))), ('c2', 't2', sw('lf', 'f', 'flag'))])),
        ('prod(base(arg),switch)', prod(base(A()), sw_f())),
        # a type-erased parser holding a positional, with a value-taking option OUTSIDE of it: the hidden argument still
        # learns about the option names of the whole parser (an option's value is never taken as a positional)
        ('prod(base(arg),option)', prod(base(A()), opt_o())),
        ('prod(option_p,base(prod(arg_s,switch)))', prod(opt('ld', 'p', 'port', 'Str'), base(prod(A('la', 'Str'), sw_f())))),
        ('optional(base(prod(arg,option)))', optional(base(prod(A(), opt_o())))),
        ('prod(cref(option),cref(arg))', prod(cref(opt_o()), cref(A()))),
        ('many(cref(prod(arg,switch_x)))', many(cref(prod(A(), sw('lb', 'x', 'xflag'))))),
    ]


LABELS = ['la', 'lb', 'lc', 'ld', 'le', 'lf', 'lg', 'lh', 't1', 't2']

HEADER = '''// GENERATED by harness/gen/c03_shapes.py - do not edit
#include <c03_common.hpp>
using namespace c03;
%s
'''


def write_if_changed(path, content):
    if os.path.exists(path) and open(path).read() == content:
        return
    with open(path, 'w') as f:
        f.write(content)


def generate(outdir, group=4):
    sh = shapes()
    DECOY[0] = True
    decoys = shapes()
    DECOY[0] = False
    decoy_of = {name: p for (name, p) in decoys}
    labels = '\n'.join('FCPPT_RECORD_MAKE_LABEL(%s);' % l for l in LABELS)
    paths = []
    groups = [sh[i:i + group] for i in range(0, len(sh), group)]
    decls = []
    for gi, g in enumerate(groups):
        body = HEADER % labels
        for si, (name, p) in enumerate(g):
            fn = 'c03_shape_%d_%d' % (gi, si)
            decls.append(fn)
            alpha = ', '.join('"%s"' % a for a in sorted(set(p.alpha)))
            d = decoy_of[name]
            # the decoy twin: ANOTHER parser object of the SAME static type with other run-time names, built and used
            # first - whatever the library remembers per parser type (not per object) is then wrong for `parser`
            body += ('void %s()\n{\n  bool constructed = false;\n  vf::set_entry("options/%s");\n  try\n  {\n'
                     '%s  auto const decoy{%s};\n  c03::use_decoy(decoy);\n'
                     '%s  auto const parser{%s};\n'
                     '  static_assert(std::is_same_v<decltype(decoy), decltype(parser)>, "the decoy must have the type of the parser");\n'
                     '  constructed = true;\n  run_shape("%s", parser, %s, {%s});\n  }\n'
                     '  catch (fcppt::exception const &ex)\n  {\n'
                     '    vf::violation(std::string("options/%s/") + (constructed ? "parse-threw" : "well-formed-definition-rejected"), "exception", ex.string());\n  }\n}\n') % (
                fn, name, d.pre, d.cpp, p.pre, p.cpp, name, p.spec, alpha, name)
        path = os.path.join(outdir, 'c03_shapes_%02d.cpp' % gi)
        write_if_changed(path, body)
        paths.append(path)
    reg = '// GENERATED by harness/gen/c03_shapes.py - do not edit\n' + ''.join('void %s();\n' % d for d in decls)
    reg += 'void c03_run_all_shapes()\n{\n' + ''.join('  %s();\n' % d for d in decls) + '}\n'
    path = os.path.join(outdir, 'c03_registry.cpp')
    write_if_changed(path, reg)
    paths.append(path)
    return paths


if __name__ == '__main__':
    import sys
    print('\n'.join(generate(sys.argv[1])))
