"""Generates the translation units of the C02 harness `c02_static`.

ONE description per fixture (a small expression DSL below) is turned into
  (a) the REAL parser: a C++ expression written with the natural fcppt.parse operators and unerased
      result types (template <class Ch, SK S> auto fx_<name>()  or a grammar / member class), and
  (b) the same grammar as an AST (c02s::Node) for the reference interpreter in harness/c02_static.cpp.
The generator knows nothing about result types: it neither computes nor declares the type of any
non-recursive parser (everything is `auto`), so what the library computes is what gets printed.
Only recursive rules carry a hand-written type (base_unique_ptr needs one).
"""
import os

# --------------------------------------------------------------------------------------------- types
class Ty:
    def __init__(self, cpp, ref):
        self.cpp, self.ref = cpp, ref


UNIT = Ty('fcppt::unit', 'T::unit()')
CH = Ty('Ch', 'T::ch()')
INT = Ty('int', 'T::i()')
LONG = Ty('long', 'T::l()')
UINT = Ty('unsigned', 'T::u()')
BOOL = Ty('bool', 'T::b()')
DOUBLE = Ty('double', 'T::d()')
STR = Ty('std::basic_string<Ch>', 'T::str()')


def _j(ts, what):
    return ', '.join(getattr(t, what) for t in ts)


def tup(*ts):
    return Ty('fcppt::tuple::object<%s>' % _j(ts, 'cpp'), 'T::tup({%s})' % _j(ts, 'ref'))


def var(*ts):
    return Ty('fcppt::variant::object<%s>' % _j(ts, 'cpp'), 'T::var({%s})' % _j(ts, 'ref'))


def opt(t):
    return Ty('fcppt::optional::object<%s>' % t.cpp, 'T::opt(%s)' % t.ref)


def vec(t):
    return Ty('std::vector<%s>' % t.cpp, 'T::vec(%s)' % t.ref)


def rec(t):
    return Ty('fcppt::recursive<%s>' % t.cpp, 'T::rec(%s)' % t.ref)


def tmap(k, v):
    return Ty('std::unordered_map<%s, %s>' % (k.cpp, v.cpp), 'T::map(%s, %s)' % (k.ref, v.ref))


def st(name, *ts):
    """c02s::st2..st5 / box: generic aggregates"""
    return Ty('c02s::%s<%s>' % (name, _j(ts, 'cpp')), 'T::st("%s", {%s})' % (name, _j(ts, 'ref')))


def user(cpp, name):
    """a struct defined in the fixture's preamble"""
    return Ty(cpp, 'T::st("%s")' % name)


# --------------------------------------------------------------------------------------------- nodes
PRIMARY, UNARY, SHIFT, BITOR = 0, 1, 2, 3


class N:
    def __init__(self, cpp, ast, prec=PRIMARY, chars='', narrow=False, size=1):
        self.cpp, self.ast, self.prec, self.chars, self.narrow, self.size = cpp, ast, prec, chars, narrow, size

    def __rshift__(self, o):
        return N('%s >> %s' % (par(self, SHIFT), par(o, UNARY)), 'A::seq(%s, %s)' % (self.ast, o.ast), SHIFT,
                 self.chars + o.chars, self.narrow or o.narrow, self.size + o.size + 1)

    def __or__(self, o):
        return N('%s | %s' % (par(self, BITOR), par(o, SHIFT)), 'A::alt(%s, %s)' % (self.ast, o.ast), BITOR,
                 self.chars + o.chars, self.narrow or o.narrow, self.size + o.size + 1)

    def __neg__(self):
        return un('-', 'opt', self)

    def __pos__(self):
        return un('+', 'plus', self)

    def __invert__(self):  # complement of a char set
        assert self.ast.startswith('A::set(')
        return N('~' + self.cpp, self.ast.replace('A::set(', 'A::cset(', 1), UNARY, self.chars + 'x', self.narrow)


def par(n, maxprec):
    return n.cpp if n.prec <= maxprec else '(' + n.cpp + ')'


def un(op, astname, x):
    return N(op + par(x, PRIMARY), 'A::%s(%s)' % (astname, x.ast), UNARY, x.chars, x.narrow, x.size + 1)


def rep(x):
    return un('*', 'rep', x)


def not_(x):
    return un('!', 'nt', x)


def call(cppfn, astfn, x, extra_cpp='', extra_ast_pre='', size=1):
    return N('%s(%s%s)' % (cppfn, x.cpp, extra_cpp), 'A::%s(%s%s)' % (astfn, extra_ast_pre, x.ast), PRIMARY, x.chars,
             x.narrow, x.size + size)


def q(c):
    return "'\\''" if c == "'" else ("'\\\\'" if c == '\\' else "'%s'" % c)


def qs(s):
    return '"%s"' % s.replace('\\', '\\\\').replace('"', '\\"')


def lit(c):
    return N('p::basic_literal<Ch>{Ch(%s)}' % q(c), 'A::lit(%s)' % q(c), chars=c)


def cs(s):
    return N('p::basic_char_set<Ch>{%s}' % ', '.join('Ch(%s)' % q(c) for c in s), 'A::set(%s)' % qs(s), chars=s)


def s_(s):
    return N('p::basic_string<Ch>{c02s::W<Ch>(%s)}' % qs(s), 'A::str(%s)' % qs(s), chars=s)


def ch_():
    return N('p::basic_char<Ch>{}', 'A::chr()')


# the char-only aliases
def nlit(c):
    return N('p::literal{%s}' % q(c), 'A::lit(%s)' % q(c), chars=c, narrow=True)


def ncs(s):
    return N('p::char_set{%s}' % ', '.join(q(c) for c in s), 'A::set(%s)' % qs(s), chars=s, narrow=True)


def ns_(s):
    return N('p::string{%s}' % qs(s), 'A::str(%s)' % qs(s), chars=s, narrow=True)


def nch_():
    return N('p::char_{}', 'A::chr()', narrow=True)


def eps():
    return N('p::epsilon{}', 'A::eps()')


def fail(t):
    return N('p::fail<%s>{}' % t.cpp, 'A::fail(%s)' % t.ref)


def int_():
    return N('p::int_<int>{}', 'A::int_()', chars='12-')


def long_():
    return N('p::int_<long>{}', 'A::long_()', chars='12-')


def uint_():
    return N('p::uint<unsigned>{}', 'A::uint_()', chars='12')


def flt():
    return N('p::float_<double>{}', 'A::flt()', chars='12.-')


def fatal(x):
    return call('p::make_fatal', 'fatal', x)


def lexeme(x):
    return call('p::make_lexeme', 'lexeme', x)


def ignore(x):
    return call('p::make_ignore', 'ignore', x)


def recursive(x):
    return call('p::make_recursive', 'recur', x)


def base(x):
    return call('p::make_base<Ch, Sk>', 'base', x, size=3)


def named(x):
    return N('p::named{%s, c02s::W<Ch>("nm")}' % x.cpp, 'A::named(%s)' % x.ast, PRIMARY, x.chars, x.narrow, x.size + 1)


def sep(inner, s):
    return N('p::separator{%s, %s}' % (inner.cpp, s.cpp), 'A::sep(%s, %s)' % (inner.ast, s.ast), PRIMARY,
             inner.chars + s.chars, inner.narrow or s.narrow, inner.size * 2 + s.size + 6)


def lst(start, inner, s, end):
    return N('p::list{%s, %s, %s, %s}' % (start.cpp, inner.cpp, s.cpp, end.cpp),
             'A::list(%s, %s, %s, %s)' % (start.ast, inner.ast, s.ast, end.ast), PRIMARY,
             start.chars + inner.chars + s.chars + end.chars, False, inner.size * 2 + 12)


def conv(fn, x):
    cppfn = {'get0': 'get<0>', 'get1': 'get<1>', 'get2': 'get<2>'}.get(fn, fn)
    return call('p::make_convert', 'conv', x, ', c02s::fn::%s{}' % cppfn, qs(fn) + ', ', size=2)


def convif(fn, x):
    return call('p::make_convert_if', 'convif', x, ', c02s::fn::%s<Ch>{}' % fn, qs(fn) + ', ', size=2)


def construct(t, name, x):
    return call('p::construct<%s>' % t.cpp, 'construct', x, '', qs(name) + ', ', size=2)


def as_struct(t, name, x):
    return call('p::as_struct<%s>' % t.cpp, 'asstruct', x, '', qs(name) + ', ', size=2)


def const(x, cppval, t, refval):
    return N('p::convert_const{%s, %s}' % (x.cpp, cppval), 'A::convconst(%s, %s, %s)' % (x.ast, t.ref, refval), PRIMARY,
             x.chars, x.narrow, x.size + 1)


class Rules:
    def __init__(self, **types):
        self.types = types

    def ref(self, name):
        return N('fcppt::make_cref(this->r_%s)' % name, 'A::ref(%s, %s)' % (qs(name), self.types[name].ref), size=2)


# --------------------------------------------------------------------------------------------- fixtures
WORLDS = ['c.eps', 'w.space', 'c.space', 'w.eps', 'c.set1', 'c.replit', 'w.repseteps', 'c.repseteps', 'w.replit', 'w.set1']
SKIP_CHARS = {'eps': '', 'space': ' ', 'set1': ' _', 'replit': ' ', 'repseteps': ' _'}
FIXTURES = []
_rot = [0]


class Fx:
    pass


def _worlds(worlds, narrow, n):
    if worlds is None:
        worlds = []
        while len(worlds) < n:
            w = WORLDS[_rot[0] % len(WORLDS)]
            _rot[0] += 1
            if narrow and w.startswith('w'):
                continue
            if w not in worlds:
                worlds.append(w)
    return worlds


def _alphabet(chars, alphabet):
    if alphabet is not None:
        return list(alphabet)
    seen = []
    for c in chars:
        if c not in seen:
            seen.append(c)
    if len(seen) <= 3 and 'x' not in seen:
        seen.append('x')
    return seen


def fx(name, expr, samples, worlds=None, alphabet=None, n=1):
    f = Fx()
    f.name, f.kind, f.expr, f.samples = name, 'expr', expr, samples
    f.worlds = _worlds(worlds, expr.narrow, n)
    f.alphabet = _alphabet(expr.chars, alphabet)
    f.pre = ''
    f.weight = expr.size * len(f.worlds)
    FIXTURES.append(f)


def gfx(name, style, result, rules, samples, worlds, alphabet, pre=''):
    """rules: list of (name, Ty, expr); the first one is the start rule"""
    f = Fx()
    f.name, f.kind, f.style, f.result, f.rules, f.samples, f.pre = name, 'grammar', style, result, rules, samples, pre
    f.worlds = worlds
    f.alphabet = list(alphabet)
    f.weight = (sum(r[2].size for r in rules) + 10 * len(rules)) * len(worlds)
    FIXTURES.append(f)


def ident(name):
    return ''.join(c if c.isalnum() else '_' for c in name)


A = cs('ab')
a = cs('a')
b = cs('b')
c = lit(',')
I = int_()
L = long_()
U = uint_()
F = flt()

# ---- sequences of 2-5 parts, unit parsers in every position
fx('seq2/cc', A >> A, ['a~b'])
fx('seq2/uc', c >> A, [',~a'])
fx('seq2/cu', A >> c, ['b~,'])
fx('seq2/uu', c >> c, [',~,'])
fx('seq3/ccc', A >> A >> A, ['a~b~a', 'b~b~a'], n=2)
fx('seq3/cuc', A >> c >> A, ['a~,~b'])
fx('seq3/ccu', A >> A >> c, ['a~b~,'])
fx('seq3/cuu', A >> c >> c, ['a~,~,'])
fx('seq4/cccc', A >> A >> A >> A, ['a~b~b~a', 'b~a~a~a'])
fx('seq4/cucu', A >> c >> A >> c, ['a~,~b~,'])
fx('seq4/cuuc', A >> c >> c >> A, ['a~,~,~b'])
fx('seq5/ccccc', A >> A >> A >> A >> A, ['a~b~b~a~b', 'b~a~a~a~b'])
fx('seq5/cucuc', A >> c >> A >> c >> A, ['a~,~b~,~a'], n=2)
fx('seq5/ucccu', c >> A >> A >> A >> c, [',~a~b~b~,'])
fx('seq5/ucucu', c >> A >> c >> A >> c, [',~a~,~b~,'])
fx('seq5/eps', eps() >> A >> eps() >> A >> eps(), ['a~b', 'b~~a'])
# ---- nested sequences, left- and right-nested
fx('nest4/right', A >> (A >> (A >> A)), ['a~b~b~a'])
fx('nest4/pairs', (A >> A) >> (A >> A), ['a~b~b~a'])
fx('nest5/right-units', c >> (A >> (c >> (A >> c))), [',~a~,~b~,'])
fx('nest4/unit-groups', A >> (c >> A) >> (A >> c), ['a~,~b~a~,'])
fx('nest3/unit-group-in-the-middle', A >> (c >> c) >> A, ['a~,~,~b'])
# ---- sequences of different result types
fx('het3/cic', A >> I >> A, ['a~12~b', 'b~-1~a'])
fx('het5/iuiui', I >> c >> I >> c >> I, ['1~,~-2~,~12'])
fx('het3/strings', s_('ab') >> A >> s_('ba'), ['ab~a~ba'])
fx('het2/float-int', F >> c >> I, ['1.5~,~2', '-2.25~,~-1'])

# ---- alternatives of 2-4 branches, equal and different result types
fx('alt2/same', a | b, ['a', 'b'])
fx('alt2/char-int', a | I, ['a', '-12'], n=2)
fx('alt3/char-int-char', a | I | b, ['a', '2', 'b'])
fx('alt4/different', lit('i') >> I | lit('u') >> U | lit('f') >> F | a, ['i~-1', 'u~2', 'f~1.5', 'a'],
   alphabet=['i', 'u', 'f', 'a', '1', '-', '.5'])
fx('alt2/units', lit('a') | lit(','), ['a', ','])
fx('alt2/tuples-same', a >> a | b >> b, ['a~a', 'b~b'])
fx('alt2/tuple-char', a >> b | a, ['a~b', 'a'])
fx('alt3/convertible-numbers', lit('i') >> I | lit('l') >> L | lit('u') >> U, ['i~-1', 'l~12', 'u~2'], n=2)
fx('alt3/repeated-type', lit('y') >> a | I | lit('x') >> b, ['y~a', '12', 'x~b'])
fx('alt3/containers', lit('o') >> -a | lit('v') >> rep(a >> b) | lit('s') >> +a, ['o', 'o~a', 'v~a~b~a~b', 's~a~a'])
fx('alt2/unit-char', lit('a') | b, ['a', 'b'])
fx('alt2/convert_if-int-long', convif('even', I) | L, ['2', '1', '-12'])
fx('alt3/right-nested', a | (I | lit('u') >> U), ['a', '1', 'u~2'])
fx('alt4/variant-variant', (a | I) | (lit('u') >> U | b), ['a', '1', 'u~2', 'b'])

# ---- alternatives inside sequences and vice versa
fx('mix/alt-then-char', (a | I) >> b, ['a~b', '12~b'])
fx('mix/alt-of-sequences', a >> b | I >> c >> I, ['a~b', '1~,~2'])
fx('mix/literals-around-alts', lit('x') >> (A | I) >> lit('x') >> (U | A), ['x~a~x~2', 'x~1~x~b'])

# ---- repetition / optional, also of tuples
fx('rep/star-char', rep(A), ['', 'a~b~a'])
fx('rep/star-pair', rep(A >> A), ['', 'a~b~b~a', 'a~b~b~a~a~a'], n=2)
fx('rep/star-char-unit', rep(A >> c), ['a~,~b~,'])
fx('rep/plus-char', +A, ['a', 'a~b~a'])
fx('rep/plus-int-unit', +(I >> c), ['1~,~-2~,', '12~,~1~,~2~,'])
fx('rep/opt-pair-char', -(A >> A) >> A, ['a~b~a', 'a'])
fx('rep/opt-opt-char', -a >> -b >> A, ['a~b~a', 'b', 'a~a', 'b~a'])
fx('rep/star-triple', rep(A >> I >> A), ['a~1~b~b~-2~a', 'a~1~b~b~2~a~a~12~a'])
fx('rep/units', rep(lit('a')) >> -lit(','), ['a~a~a~,', 'a', ','])
fx('rep/star-variant', rep(a | I), ['a~1~a', '-1~a~2'], alphabet=['a', '1', '-', 'x'])
fx('rep/plus-struct', +as_struct(st('st2', CH, CH), 'st2', A >> A), ['a~b', 'a~b~b~a~a~a'])
fx('rep/not', not_(lit('a')) >> A >> not_(lit('b')), ['b', 'b~a'])
fx('rep/opt-of-star-triple', -(rep(A >> c >> A) >> lit(';')) >> A, ['a~,~b~b~,~a~;~a', 'a', ';~b'])

# ---- separator / list, also of tuples
fx('list/separator-char', sep(A, c), ['', 'a', 'a~,~b~,~a'])
fx('list/separator-pair', sep(A >> A, c), ['a~b~,~b~a', 'a~b~,~b~a~,~a~a'], n=2)
fx('list/separator-int-string', sep(I >> lit(':') >> +A, c), ['1~:~a~b~,~-2~:~b'])
fx('list/list-char-int', lst(lit('['), A >> I, c, lit(']')), ['[~]', '[~a~1~]', '[~a~1~,~b~-2~]'])
fx('list/separator-variant', sep(a | I, c), ['a~,~1~,~a'], alphabet=['a', '1', '-', ','])
fx('list/separator-triple-then', sep(A >> A >> A, c) >> lit(';') >> A, ['a~b~a~,~b~b~b~;~a', ';~b'])

# ---- converters
fx('conv/as_struct3', as_struct(st('st3', CH, CH, CH), 'st3', A >> A >> A), ['a~b~b', 'b~a~b'], n=2)
fx('conv/as_struct2-char-int', as_struct(st('st2', CH, INT), 'st2', A >> c >> I), ['a~,~12'])
fx('conv/as_struct5', as_struct(st('st5', CH, CH, CH, CH, CH), 'st5', A >> A >> A >> A >> A), ['a~b~b~a~b'])
fx('conv/as_struct4-units-between', as_struct(st('st4', CH, CH, CH, CH), 'st4', A >> c >> A >> A >> c >> A), ['a~,~b~a~,~a'])
fx('conv/as_struct-class', as_struct(Ty('c02s::pt', 'T::st("pt")'), 'pt', I >> c >> I), ['1~,~-2'])
fx('conv/as_struct-nested', as_struct(st('st2', opt(CH), vec(tup(CH, CH))), 'st2', -a >> rep(b >> A)), ['a~b~a~b~b', 'b~a', ''])
fx('conv/construct', construct(st('box', CH), 'box', A) >> construct(st('box', INT), 'box', I), ['a~12'])
fx('conv/cat2', conv('cat2', A >> A) >> A, ['a~b~a'])
fx('conv/mix', conv('mix', I >> c >> I), ['1~,~2', '-12~,~1'])
fx('conv/rev-flattened', conv('rev', A >> I) >> A, ['a~1~b'])
fx('conv/show', conv('show', (a | I) >> -(b >> b) >> rep(a >> c >> U)), ['a~b~b~a~,~1~a~,~2', '-1'])
fx('conv/convert_if', convif('even', I) >> c >> convif('nota', A), ['2~,~b', '1~,~b', '2~,~a'])
fx('conv/ignore', ignore(A >> A) >> A, ['a~b~a'])
fx('conv/const', (const(lit('a'), '7', INT, "V::num('i', 7)") | const(lit('b'), '8', INT, "V::num('i', 8)")) >>
   (const(s_('tt'), 'true', BOOL, 'V::boolean(true)') | const(s_('ff'), 'false', BOOL, 'V::boolean(false)') | I),
   ['a~tt', 'b~ff', 'a~12'], alphabet=['a', 'b', 'tt', 'ff', 't', '1'])
fx('conv/const-structs', const(lit('n'), 'c02s::null_{}', Ty('c02s::null_', 'T::st("null")'), 'V::st("null", {})') |
   const(lit('p'), 'c02s::pt{1, 2}', Ty('c02s::pt', 'T::st("pt")'), "V::st(\"pt\", {V::num('i', 1), V::num('i', 2)})") | A,
   ['n', 'p', 'a'])
fx('conv/named', named(A >> A) >> A, ['a~b~a'])
fx('conv/recursive', recursive(A) >> recursive(A >> A), ['a~b~a'])
fx('conv/get', conv('get2', A >> A >> A) >> conv('get0', A >> I), ['a~a~b~a~12'])
fx('conv/lexeme', lexeme(A >> A) >> A, ['ab~a'], worlds=['c.space'])
fx('conv/lexeme-in-repetition', rep(lexeme(A >> c >> A)), ['a,b~b,a'], worlds=['w.repseteps'])
fx('conv/fatal', lit('a') >> fatal(A >> A) | b >> b, ['a~a~b', 'b~b'])
fx('conv/fatal-in-optional-and-repetition', -(lit('a') >> fatal(b)) >> rep(lit(',') >> fatal(A)), ['a~b~,~a~,~b', ',~b'])
fx('conv/fail', (fail(INT) | I) >> A >> (fail(CH) | b), ['1~a~b'])
fx('conv/base', base(A >> A) >> base(c) >> A, ['a~b~,~a'])
fx('conv/narrow-aliases', nlit('[') >> ncs('ab') >> ns_('ab') >> nch_() >> nlit(']'), ['[~a~ab~x~]'], alphabet=['[', ']', 'a', 'b', 'ab', 'x'])
fx('conv/complement', ~cs('a') >> ~cs('b,') >> ch_(), ['b~a~x'], alphabet=['a', 'b', ',', 'x'])

# ---- grammar classes with typed, mutually recursive rules
# (1) the grammar of examples/parse/grammar.cpp
PRE_EXAMPLE = r'''
template <class Ch> struct ex_list;
template <class Ch> using ex_entry = fcppt::tuple::object<std::basic_string<Ch>, fcppt::recursive<ex_list<Ch>>>;
template <class Ch> struct ex_list { std::vector<ex_entry<Ch>> elements; };
namespace c02s {
template <class C> struct pr<ex_list<C>> { static void go(std::string &o, ex_list<C> const &l) { print_fields(o, "ex_list", l.elements); } };
template <class Ch, class C> struct tn<Ch, ex_list<C>> { static std::string get() { return "ex_list"; } };
}
'''
EX_LIST = user('ex_list<Ch>', 'ex_list')
EX_ENTRY = tup(STR, rec(EX_LIST))
R = Rules(list=EX_LIST, entry=EX_ENTRY)
gfx('grammar/example-list', 'grammar', EX_LIST,
    [('list', EX_LIST, construct(EX_LIST, 'ex_list', lst(lit('{'), R.ref('entry'), lit(','), lit('}')))),
     ('entry', EX_ENTRY, +cs('abc') >> lit('=') >> recursive(R.ref('list')))],
    ['{~ab~=~{~c~=~{~}~}~,~b~=~{~}~}', '{~}'], ['c.eps', 'w.space'], ['{', '}', 'a', 'b', '=', ',', 'a={}'], PRE_EXAMPLE)

# (2) labelled trees: as_struct into a recursive user struct, two mutually recursive rules
PRE_TREE = r'''
template <class Ch> struct tree;
template <class Ch> using tree_kids = std::vector<fcppt::recursive<tree<Ch>>>;
template <class Ch> struct tree { Ch label; tree_kids<Ch> kids; };
namespace c02s {
template <class C> struct pr<tree<C>> { static void go(std::string &o, tree<C> const &t) { print_fields(o, "tree", t.label, t.kids); } };
template <class Ch, class C> struct tn<Ch, tree<C>> { static std::string get() { return "tree"; } };
}
'''
TREE = user('tree<Ch>', 'tree')
KIDS = vec(rec(TREE))
R = Rules(node=TREE, kids=KIDS)
gfx('grammar/tree', 'grammar', TREE,
    [('node', TREE, as_struct(TREE, 'tree', A >> R.ref('kids'))),
     ('kids', KIDS, lst(lit('('), recursive(R.ref('node')), lit(','), lit(')')) | const(eps(), 'tree_kids<Ch>{}', KIDS, 'V::vec({})'))],
    ['a~(~b~,~a~(~b~)~)', 'b', 'a~(~)'], ['w.eps'], ['a', 'b', '(', ')', ','], PRE_TREE)

# (3) s-expressions: a variant that refers to itself through a recursive struct
PRE_SEXP = r'''
template <class Ch> struct sx;
template <class Ch> using sv = fcppt::variant::object<Ch, int, fcppt::recursive<sx<Ch>>>;
template <class Ch> struct sx { std::vector<sv<Ch>> items; };
namespace c02s {
template <class C> struct pr<sx<C>> { static void go(std::string &o, sx<C> const &t) { print_fields(o, "sx", t.items); } };
template <class Ch, class C> struct tn<Ch, sx<C>> { static std::string get() { return "sx"; } };
}
'''
SX = user('sx<Ch>', 'sx')
SV = var(CH, INT, rec(SX))
R = Rules(atom=SV, group=SX)
gfx('grammar/sexp', 'grammar', SV,
    [('atom', SV, A | I | recursive(R.ref('group'))),
     ('group', SX, construct(SX, 'sx', lit('(') >> rep(R.ref('atom')) >> lit(')')))],
    ['(~a~1~(~b~(~)~-2~)~)', 'a', '12', '(~)'], ['c.repseteps'], ['a', 'b', '1', '-', '(', ')'], PRE_SEXP)

# (4) typed rules without recursion: records
R = Rules(start=st('st2', vec(tup(CH, INT)), opt(CH)), pair=tup(CH, INT), pairs=vec(tup(CH, INT)))
gfx('grammar/records', 'grammar', st('st2', vec(tup(CH, INT)), opt(CH)),
    [('start', st('st2', vec(tup(CH, INT)), opt(CH)), as_struct(st('st2', vec(tup(CH, INT)), opt(CH)), 'st2', R.ref('pairs') >> lit(';') >> -A)),
     ('pair', tup(CH, INT), A >> lit('=') >> I),
     ('pairs', vec(tup(CH, INT)), sep(R.ref('pair'), c))],
    ['a~=~1~,~b~=~-2~;~a', ';', 'a~=~1~;'], ['w.replit'], ['a', 'b', '=', '1', '-', ',', ';'])

# (5) the JSON grammar of test/parse/json.cpp (a plain class with base_unique_ptr members)
PRE_JSON = r'''
template <class Ch> class jvalue;
template <class Ch> using jarray = std::vector<fcppt::recursive<jvalue<Ch>>>;
template <class Ch> using jobject = std::unordered_map<std::basic_string<Ch>, fcppt::recursive<jvalue<Ch>>>;
template <class Ch>
class jvalue
{
public:
  using type = fcppt::variant::object<c02s::null_, bool, int, std::basic_string<Ch>, jarray<Ch>, jobject<Ch>>;
  explicit jvalue(type &&_impl) : impl_{std::move(_impl)} {}
  [[nodiscard]] type const &get() const { return impl_; }
private:
  type impl_;
};
template <class Ch> using jentries = std::vector<fcppt::tuple::object<std::basic_string<Ch>, fcppt::recursive<jvalue<Ch>>>>;
template <class Ch> using jstart = fcppt::variant::object<jarray<Ch>, jobject<Ch>>;
namespace c02s {
template <class C> struct pr<jvalue<C>> { static void go(std::string &o, jvalue<C> const &v) { print_fields(o, "jv", v.get()); } };
template <class Ch, class C> struct tn<Ch, jvalue<C>> { static std::string get() { return "jv"; } };
namespace fn {
// mkobj: the entries as a map; fails if a key occurs twice
template <class Ch>
struct mkobj
{
  p::result<Ch, jobject<Ch>> operator()(jentries<Ch> &&e) const
  {
    jobject<Ch> r;
    for (auto &kv : e)
      if (!r.insert(typename jobject<Ch>::value_type{std::move(fcppt::tuple::get<0>(kv)), std::move(fcppt::tuple::get<1>(kv))}).second)
        return fcppt::either::make_failure<jobject<Ch>>(p::error<Ch>{W<Ch>("Double insert")});
    return p::result<Ch, jobject<Ch>>{std::move(r)};
  }
};
}
}
'''
JV = user('jvalue<Ch>', 'jv')
JARRAY = vec(rec(JV))
JOBJECT = tmap(STR, rec(JV))
JSTART = var(JARRAY, JOBJECT)
R = Rules(string=STR, value=JV, object=JOBJECT, array=JARRAY, start=JSTART)
NULLT = Ty('c02s::null_', 'T::st("null")')
gfx('grammar/json', 'members', JSTART,
    [('start', JSTART, R.ref('array') | R.ref('object')),
     ('string', STR, lit('"') >> lexeme(rep(~cs('"'))) >> lit('"')),
     ('value', JV, construct(JV, 'jv',
                             const(s_('null'), 'c02s::null_{}', NULLT, 'V::st("null", {})') |
                             (const(s_('true'), 'true', BOOL, 'V::boolean(true)') | const(s_('false'), 'false', BOOL, 'V::boolean(false)')) |
                             I | R.ref('string') | R.ref('array') | R.ref('object'))),
     ('object', JOBJECT, convif('mkobj', lit('{') >> sep(R.ref('string') >> lit(':') >> recursive(R.ref('value')), lit(',')) >> lit('}'))),
     ('array', JARRAY, lit('[') >> sep(recursive(R.ref('value')), lit(',')) >> lit(']'))],
    ['[~]', '[~1~]', '[~null~]', '[~true~,~false~]', '[~"te st"~]', '{~}', '{~"XY"~:~42~}',
     '{~"X"~:~true~,~"Y"~:~[~10~,~false~,~null~]~,~"Z"~:~{~"A"~:~"test"~,~"B"~:~20~}~}',
     '{~"a"~:~1~,~"a"~:~2~}', '[~[~[~]~,~{~}~]~,~-7~]', '[~"a"~,~{~"b"~:~[~]~}~]'],
    ['c.space'], ['[', ']', '{', '}', ',', ':', '"a"', '"b"', '1', 'true', 'null', '-', '"'], PRE_JSON)


# --------------------------------------------------------------------------------------------- emission
HEADER = '''// GENERATED by harness/gen/c02_fixtures.py - do not edit
#include <c02_static.hpp>
namespace
{
namespace p = fcppt::parse;
using c02s::SK;
namespace A = c02s::A;
namespace T = c02s::T;
namespace V = c02s::V;
'''


def world_args(w):
    chn, skn = w.split('.')
    return ('char' if chn == 'c' else 'wchar_t'), 'SK::' + skn


def emit_fixture(f, worlds):
    """definitions of one fixture and its registration for the given worlds (a fixture that runs in several
    worlds is registered once per translation unit it occurs in; c02_static.cpp merges the entries by name)"""
    i = ident(f.name)
    out = []
    reg = []
    reg.append('  {')
    reg.append('    c02s::fixture f;')
    reg.append('    f.name = %s;' % qs(f.name))
    if f.kind == 'expr':
        out.append('template <class Ch, SK S>\nauto fx_%s()\n{\n  using Sk [[maybe_unused]] = c02s::skipper_t<Ch, S>;\n  return %s;\n}\n' % (i, f.expr.cpp))
        reg.append('    f.text = %s;' % qs(f.expr.cpp))
        reg.append('    f.rules.push_back(c02s::rule{"start", false, c02s::Ty{}, %s});' % f.expr.ast)
        for w in worlds:
            chn, skn = world_args(w)
            reg.append('    f.worlds.push_back(c02s::world_of<%s, %s>(fx_%s<%s, %s>()));' % (chn, skn, i, chn, skn))
    else:
        cls = ('g_' if f.style == 'grammar' else 'm_') + i
        members = ''.join('  bt<%s> r_%s;\n' % (t.cpp, n) for n, t, _ in f.rules)
        start = f.rules[0][0]
        if f.style == 'grammar':
            out.append('template <class Ch, SK S>\nclass %s : public p::grammar<%s, Ch, c02s::skipper_t<Ch, S>>\n{\n  FCPPT_NONMOVABLE(%s);\npublic:\n'
                       '  using Sk = c02s::skipper_t<Ch, S>;\n  using gb = p::grammar<%s, Ch, Sk>;\n  template <class X>\n  using bt = p::base_unique_ptr<X, Ch, Sk>;\n'
                       '  %s();\n  ~%s() {}\nprivate:\n%s};\n' % (cls, f.result.cpp, cls, f.result.cpp, cls, cls, members))
            inits = ['gb{fcppt::make_cref(r_%s), c02s::make_skipper<Ch, S>()}' % start]
            inits += ['r_%s{gb::make_base(%s)}' % (n, e.cpp) for n, _, e in f.rules]
        else:
            out.append('template <class Ch, SK S>\nclass %s\n{\n  FCPPT_NONMOVABLE(%s);\npublic:\n'
                       '  using Sk = c02s::skipper_t<Ch, S>;\n  template <class X>\n  using bt = p::base_unique_ptr<X, Ch, Sk>;\n'
                       '  %s();\n  ~%s() {}\n  [[nodiscard]] bt<%s> const &get() const { return r_%s; }\nprivate:\n%s};\n'
                       % (cls, cls, cls, cls, f.result.cpp, start, members))
            inits = ['r_%s{p::make_base<Ch, Sk>(%s)}' % (n, e.cpp) for n, _, e in f.rules]
        out.append('template <class Ch, SK S>\n%s<Ch, S>::%s()\n    : %s\n{\n}\n' % (cls, cls, ',\n      '.join(inits)))
        reg.append('    f.text = %s;' % qs(' ; '.join('%s = %s' % (n, e.cpp) for n, _, e in f.rules)))
        for n, t, e in f.rules:
            reg.append('    f.rules.push_back(c02s::rule{%s, true, %s, %s});' % (qs(n), t.ref, e.ast))
        for w in worlds:
            chn, skn = world_args(w)
            reg.append('    f.worlds.push_back(c02s::world_of_%s<%s, %s, %s<%s, %s>>());'
                       % ('grammar' if f.style == 'grammar' else 'members', chn, skn, cls, chn, skn))
    reg.append('    f.alphabet = {%s};' % ', '.join(qs(t) for t in f.alphabet))
    reg.append('    f.samples = {%s};' % ', '.join(qs(t) for t in f.samples))
    reg.append('    out.push_back(std::move(f));')
    reg.append('  }')
    return '\n'.join(out), '\n'.join(reg), f.pre


def write_if_changed(path, content):
    if os.path.exists(path) and open(path).read() == content:
        return
    with open(path, 'w') as f:
        f.write(content)


TARGET_WEIGHT = 125  # per translation unit (a fixture-world weighs its node count plus a constant)


def plan():
    """translation units: the fixture-worlds of ONE (character type, skipper) world go together, so that the
    instantiations of the leaf parsers for that world are shared; big worlds are split"""
    units = {}
    for f in FIXTURES:
        for w in f.worlds:
            units.setdefault(w, []).append(f)
    tus = []
    for w in sorted(units):
        fs = sorted(units[w], key=lambda f: f.name)
        # contiguous chunks of about TARGET_WEIGHT (neighbours in name order are similar grammars); a fixture that
        # is heavier than that (the JSON grammar) gets a translation unit of its own
        wgt_of = lambda f: f.weight / len(f.worlds) + 6
        for f in fs:
            if wgt_of(f) > TARGET_WEIGHT:
                tus.append((w, [f]))
        chunk, acc = [], 0.0
        for f in fs:
            wgt = wgt_of(f)
            if wgt > TARGET_WEIGHT:
                continue
            if chunk and acc + wgt > TARGET_WEIGHT * 1.15:
                tus.append((w, chunk))
                chunk, acc = [], 0.0
            chunk.append(f)
            acc += wgt
        if chunk:
            wt = lambda fs_: sum(f.weight / len(f.worlds) + 6 for f in fs_)
            if acc < 40 and tus and tus[-1][0] == w and len(tus[-1][1]) > 1 and wt(tus[-1][1]) <= TARGET_WEIGHT * 1.15:
                tus[-1][1].extend(chunk)  # too small for a translation unit of its own
            else:
                tus.append((w, chunk))
    return tus


def generate(outdir):
    names = [f.name for f in FIXTURES]
    assert len(names) == len(set(names)), 'duplicate fixture name'
    tus = plan()
    paths = []
    for k, (w, fs) in enumerate(tus):
        defs, regs, pres = [], [], []
        for f in fs:
            d, r, pre = emit_fixture(f, [w])
            defs.append('// ' + '-' * 70 + ' ' + f.name + '\n' + d)
            regs.append(r)
            pres.append(pre)
        src = HEADER.replace('namespace\n{', ''.join(pres) + 'namespace\n{', 1) + '\n'.join(defs) + \
            '}\n\n// world %s\nvoid c02s_register_%d(std::vector<c02s::fixture> &out)\n{\n%s\n}\n' % (w, k, '\n'.join(regs))
        path = os.path.join(outdir, 'c02s_fix_%02d.cpp' % k)
        write_if_changed(path, src)
        paths.append(path)
    allsrc = '// GENERATED by harness/gen/c02_fixtures.py - do not edit\n#include <c02_static.hpp>\n'
    allsrc += ''.join('void c02s_register_%d(std::vector<c02s::fixture> &);\n' % k for k in range(len(tus)))
    allsrc += 'void c02s_register_all(std::vector<c02s::fixture> &out)\n{\n' + ''.join('  c02s_register_%d(out);\n' % k for k in range(len(tus))) + '}\n'
    path = os.path.join(outdir, 'c02s_all.cpp')
    write_if_changed(path, allsrc)
    paths.append(path)
    # stale files of an earlier layout
    for fn in os.listdir(outdir):
        full = os.path.join(outdir, fn)
        if fn.startswith('c02s_') and fn.endswith('.cpp') and full not in paths:
            os.remove(full)
    return paths


if __name__ == '__main__':
    import sys
    d = sys.argv[1] if len(sys.argv) > 1 else '/tmp/c02s_gen'
    os.makedirs(d, exist_ok=True)
    print(len(FIXTURES), 'fixtures,', sum(len(f.worlds) for f in FIXTURES), 'fixture-worlds')
    print(len(generate(d)), 'files')
    for w, fs in plan():
        print(w, len(fs), int(sum(f.weight / len(f.worlds) + 6 for f in fs)))
