// C10: a bitfield over an enum behaves exactly like a mathematical set of its enumerators.
//
// Oracle: the model of a bitfield is an integer mask restricted to the enum's size (bit k <=> enumerator k is
// a member); union / intersection / symmetric difference / complement relative to the enum / subset / set
// equality are computed on the mask.  For a model value the *canonical* real bitfield is the one built by
// set(e, true) on null().  Every real result is compared (i) enumerator by enumerator through get(),
// (ii) with == / != / hash / is_subset_eq against the canonical bitfield of the expected set.
//
// Judged: get, set, operator[] (const and non-const), initializer-list constructor, init, the operators
//         | & ^ ~ (bitfield and element overloads) and |= &= ^=, is_subset_eq, ==, !=, bitfield::hash.
// Observed only: std::hash specialisation, underlying_value, the array constructor/accessor, proxy = proxy,
//         number of distinct hash values.
//
// Attribution: a violation is reported at the first operation whose result diverges; a result that failed is
// not used as an operand of further judged operations (counted in skipped/... and .../stopped-at-first-violation),
// so that one defect does not show up under the keys of every operator that merely consumed its output.
#include <vf.hpp>

#include <fcppt/container/bitfield/comparison.hpp>
#include <fcppt/container/bitfield/hash.hpp>
#include <fcppt/container/bitfield/init.hpp>
#include <fcppt/container/bitfield/is_subset_eq.hpp>
#include <fcppt/container/bitfield/object.hpp>
#include <fcppt/container/bitfield/operators.hpp>
#include <fcppt/container/bitfield/std_hash.hpp>
#include <fcppt/container/bitfield/underlying_value.hpp>

#include <bitset>
#include <cstdint>
#include <cstdio>
#include <functional>
#include <initializer_list>
#include <limits>
#include <string>
#include <unordered_set>
#include <utility>
#include <vector>

namespace
{
using mask = unsigned __int128;

std::string hex(mask m)
{
  char b[48];
  auto const hi = static_cast<unsigned long long>(m >> 64);
  auto const lo = static_cast<unsigned long long>(m);
  if (hi != 0)
    std::snprintf(b, sizeof b, "0x%llx%016llx", hi, lo);
  else
    std::snprintf(b, sizeof b, "0x%llx", lo);
  return b;
}
inline bool bit(mask m, unsigned k) { return ((m >> k) & 1U) != 0; }
inline unsigned popcount(mask m)
{
  return static_cast<unsigned>(__builtin_popcountll(static_cast<unsigned long long>(m)) +
                               __builtin_popcountll(static_cast<unsigned long long>(m >> 64)));
}

template <class W>
char const *wn()
{
  if constexpr (std::is_same_v<W, std::uint8_t>)
    return "u8";
  else if constexpr (std::is_same_v<W, std::uint16_t>)
    return "u16";
  else if constexpr (std::is_same_v<W, std::uint32_t>)
    return "u32";
  else if constexpr (std::is_same_v<W, std::uint64_t>)
    return "u64";
  else
    return "?";
}

template <class E>
struct enum_name;
#define VF_ENUM(name, under, n)                                                                              \
  enum class name : under                                                                                    \
  {                                                                                                          \
    first = 0,                                                                                               \
    fcppt_maximum = (n)-1                                                                                    \
  };                                                                                                         \
  template <>                                                                                                \
  struct enum_name<name>                                                                                     \
  {                                                                                                          \
    static char const *get() { return #name; }                                                               \
  };
// the enum sizes of the quantifier
VF_ENUM(e1, int, 1)
VF_ENUM(e3, int, 3)
VF_ENUM(e8, int, 8)
VF_ENUM(e9, int, 9)
VF_ENUM(e17, int, 17)
// extras: other underlying types, sizes at and just above the word widths, more than one 64-bit word
VF_ENUM(e9_u8, std::uint8_t, 9)
VF_ENUM(e16_u16, std::uint16_t, 16)
VF_ENUM(e17_i16, std::int16_t, 17)
VF_ENUM(e33_u64, std::uint64_t, 33)
VF_ENUM(e65_u8, std::uint8_t, 65)
// more enumerators than an 8-bit word type can count (positions beyond 255), and than the 128-bit model mask holds:
// judged against std::bitset in large_enum<>
VF_ENUM(e300_u16, std::uint16_t, 300)

enum method : unsigned
{
  m_canon,
  m_set_desc,
  m_list,
  m_init,
  m_clear_from_full,
  m_index_assign,
  m_or_elem,
  m_or_elem_value,
  m_not_of_complement,
  m_double_not,
  m_xor_full,
  m_and_not,
  m_or_split,
  m_proxy_copy,
  m_init_proxy,
  m_array_ctor,
  m_truthy,
  m_count
};
// the judged function a construction method exercises (first component of the violation key)
// (intermediate results inside a construction are judged on their own, see build())
char const *const method_fn[m_count] = {"set",
                                        "set",
                                        "initializer_list",
                                        "init",
                                        "set(false)",
                                        "operator[]=",
                                        "operator|=(element)",
                                        "operator|(element)",
                                        "operator~",
                                        "operator~",
                                        "operator^",
                                        "operator&=",
                                        "operator|",
                                        "operator[]=",
                                        "init",
                                        "object(array)",
                                        "set"};
char const *const method_tag[m_count] = {"set-ascending",   "set-descending", "initializer-list", "init",
                                         "clear-from-full", "index-assign",   "or-assign-element", "or-element",
                                         "not-of-complement", "double-not",   "xor-with-full",    "and-assign-not",
                                         "or-of-halves",   "index-assign-from-proxy", "init-from-proxy-returning-function",
                                         "from-the-array-of-another-bitfield", "truth-values-that-are-not-0-or-1"};

template <class E, unsigned N, class W>
struct world
{
  using bf = fcppt::container::bitfield::object<E, W>;
  using hasher = fcppt::container::bitfield::hash<bf>;
  static_assert(N >= 1 && N <= 100, "model is a 128 bit mask");
  static_assert(bf::static_size::value == N, "enum size");
  static constexpr unsigned wbits = static_cast<unsigned>(std::numeric_limits<W>::digits);
  static constexpr unsigned words = (N + wbits - 1U) / wbits;
  static constexpr bool partial = (N % wbits) != 0U;
  static constexpr bool small = N <= 9U;

  static mask full() { return (static_cast<mask>(1) << N) - 1U; }
  static E en(unsigned k) { return static_cast<E>(k); }
  static std::string const &name()
  {
    static std::string const n = std::string(enum_name<E>::get()) + "," + wn<W>();
    return n;
  }
  static void viol(char const *fn, char const *cls, std::string const &detail)
  {
    vf::violation(std::string(fn) + "/" + name() + "/" + cls, "mismatch", detail);
  }
  static std::uint64_t off(std::string const &entry) { return vf::hash_str(entry) % 1024U; }

  // ------------------------------------------------------------ construction
  // the canonical bitfield of a set: set(e, true) on null(), ascending
  static bf canon(mask m)
  {
    bf r(bf::null());
    for (unsigned k = 0; k < N; ++k)
      if (bit(m, k))
        r.set(en(k), true);
    return r;
  }
  static std::vector<bf> const &table()
  {
    static std::vector<bf> const t = [] {
      std::vector<bf> r;
      if constexpr (small)
        for (unsigned m = 0; m < (1U << N); ++m)
          r.push_back(canon(m));
      return r;
    }();
    return t;
  }
  static bf canon_of(mask m)
  {
    if constexpr (small)
      return table()[static_cast<std::size_t>(m)];
    else
      return canon(m);
  }

  template <std::size_t... I>
  static bf list_ctor(E const *a, std::index_sequence<I...>)
  {
    return bf{a[I]...};
  }
  // through the initializer-list constructor: exact lists in random order for up to 4 members, otherwise
  // lists of N or 2N entries in random order with duplicates
  static bf from_list(mask m, vf::rng &g)
  {
    std::vector<E> v;
    for (unsigned k = 0; k < N; ++k)
      if (bit(m, k))
        v.push_back(en(k));
    if (v.empty())
    {
      VF_COUNT("list/arity-0");
      return bf(typename bf::initializer_list_type{});
    }
    std::size_t const orig = v.size();
    if (!(orig <= 4 && g.chance(1, 2)))
    {
      std::size_t const target = g.chance(1, 2) ? N : 2U * N;
      while (v.size() < target)
        v.push_back(v[g.below(orig)]);
    }
    for (std::size_t i = v.size(); i > 1; --i)
      std::swap(v[i - 1], v[g.below(i)]);
    if (v.size() > orig)
      VF_COUNT("list/with-duplicates");
    else
      VF_COUNT("list/exact");
    switch (v.size())
    {
    case 1: return list_ctor(v.data(), std::make_index_sequence<1>{});
    case 2: return list_ctor(v.data(), std::make_index_sequence<2>{});
    case 3: return list_ctor(v.data(), std::make_index_sequence<3>{});
    case 4: return list_ctor(v.data(), std::make_index_sequence<4>{});
    default: break;
    }
    if (v.size() == N)
      return list_ctor(v.data(), std::make_index_sequence<N>{});
    return list_ctor(v.data(), std::make_index_sequence<2U * N>{});
  }
  static bf all_by_list()
  {
    std::vector<E> v;
    for (unsigned k = 0; k < N; ++k)
      v.push_back(en(k));
    return list_ctor(v.data(), std::make_index_sequence<N>{});
  }

  // Builds the set m in the way `how`.  Intermediate results that are themselves results of judged functions
  // are judged on the spot; when one of them is wrong, `tainted` is set and the final result is not judged by
  // the caller (the violation is reported once, at the first operation that diverges).
  static bf build(unsigned how, mask m, vf::rng &g, bool &tainted)
  {
    mask const f = full();
    auto step = [&](char const *fn, bf const &v, mask want, mask a, mask b) {
      vf::add_evals(1);
      if (!judge(fn, v, want, a, b))
        tainted = true;
    };
    switch (how)
    {
    case m_canon: return canon(m);
    case m_truthy:
    {
      // the value parameter is a truth value: any non-zero integer (a masked flag word such as w & 0x200) means "in"
      bf r(bf::null());
      unsigned const flag_words[3] = {0x200U, 0x10000U, 0x300U};
      for (unsigned k = 0; k < N; ++k)
      {
        unsigned const w = bit(m, k) ? flag_words[k % 3] : 0U;
        if (k % 2 == 0)
          r.set(en(k), w);
        else
          r[en(k)] = w;
      }
      return r;
    }
    case m_array_ctor:
    {
      // a bitfield built from the storage array of another one holds the same enumerators (object(array_type const &))
      bf const src(canon(m));
      return bf(src.array());
    }
    case m_set_desc:
    {
      bf r(bf::null());
      for (unsigned k = N; k-- > 0;)
        if (bit(m, k))
        {
          r.set(en(k), true);
          r.set(en(k), true);
        }
      return r;
    }
    case m_list: return from_list(m, g);
    case m_init:
      return fcppt::container::bitfield::init<bf>([m](E e) { return bit(m, static_cast<unsigned>(e)); });
    case m_clear_from_full:
    {
      bf r = all_by_list();
      step("initializer_list", r, f, f, 0);
      for (unsigned k = 0; k < N; ++k)
        if (!bit(m, k))
          r.set(en(k), false);
      return r;
    }
    case m_index_assign:
    {
      // start from an unrelated set and assign every bit through the proxy, in a rotated order
      bf r = canon(rand_mask(g));
      unsigned const rot = static_cast<unsigned>(g.below(N));
      for (unsigned i = 0; i < N; ++i)
      {
        unsigned const k = (i + rot) % N;
        r[en(k)] = bit(m, k);
      }
      return r;
    }
    case m_proxy_copy:
    {
      // every bit is copied from another bitfield (or from another position of the same one) by assigning the
      // reference returned by operator[] - as with std::vector<bool>, a[i] = b[j] assigns the VALUE of the bit
      bf src = canon(m);
      bf r = canon(rand_mask(g));
      for (unsigned k = 0; k < N; ++k)
      {
        // alternately from a temporary reference (move assignment of the proxy) and from a named one (copy assignment),
        // same enumerator in two different bitfields
        if ((k + m) % 2 == 0)
          r[en(k)] = src[en(k)];
        else
        {
          typename bf::reference named = src[en(k)];
          r[en(k)] = named;
        }
      }
      {
        // chained assignment through a third bitfield: a[e] = b[e] = value
        bf a = canon(rand_mask(g)), b = canon(rand_mask(g));
        for (unsigned k = 0; k < N; ++k)
          a[en(k)] = b[en(k)] = bit(m, k);
        step("operator[]=", a, m, m, 0);
        step("operator[]=", b, m, m, 0);
      }
      // within one bitfield: move the bits one position up and back down again through the proxy
      if (N >= 2)
      {
        bool const top = r.get(en(N - 1));
        for (unsigned k = N - 1; k > 0; --k)
          r[en(k)] = r[en(k - 1)];
        for (unsigned k = 0; k + 1 < N; ++k)
          r[en(k)] = r[en(k + 1)];
        r[en(N - 1)] = top;
      }
      return r;
    }
    case m_init_proxy:
    {
      // the function handed to init may return anything convertible to bool - here the bit reference of another bitfield,
      // alternately of a mutable and of a const one
      bf src = canon(m);
      bf const &csrc = src;
      if (g.chance(1, 2))
        return fcppt::container::bitfield::init<bf>([&src](E e) { return src[e]; });
      return fcppt::container::bitfield::init<bf>([&csrc](E e) { return csrc[e]; });
    }
    case m_or_elem:
    {
      bf r(bf::null());
      for (unsigned k = 0; k < N; ++k)
        if (bit(m, k))
          r |= en(k);
      return r;
    }
    case m_or_elem_value:
    {
      bf r(bf::null());
      for (unsigned k = N; k-- > 0;)
        if (bit(m, k))
          r = r | en(k);
      return r;
    }
    case m_not_of_complement: return ~canon(f & ~m);
    case m_double_not:
    {
      bf const t = ~canon(m);
      step("operator~", t, f & ~m, m, 0);
      return ~t;
    }
    case m_xor_full:
    {
      bf const a = all_by_list();
      step("initializer_list", a, f, f, 0);
      return a ^ canon(f & ~m);
    }
    case m_and_not:
    {
      bf r = all_by_list();
      step("initializer_list", r, f, f, 0);
      bf const t = ~canon(f & ~m);
      step("operator~", t, m, f & ~m, 0);
      r &= t;
      return r;
    }
    default:
    {
      mask const lowhalf = (static_cast<mask>(1) << (N / 2U)) - 1U;
      return canon(m & lowhalf) | canon(m & ~lowhalf);
    }
    }
  }
  // build + judge the final result; ok == false: do not use the object as an operand of further judged operations
  static bf built(unsigned how, mask m, vf::rng &g, bool &ok, bool subset_too = false)
  {
    bool tainted = false;
    bf const r = build(how, m, g, tainted);
    if (tainted)
    {
      VF_COUNT("skipped/tainted-operand");
      ok = false;
      return r;
    }
    vf::add_evals(1);
    ok = judge(method_fn[how], r, m, m, 0, subset_too, method_tag[how]);
    return r;
  }

  static mask rnd128(vf::rng &g) { return (static_cast<mask>(g.next()) << 64) | g.next(); }
  static mask rand_mask(vf::rng &g)
  {
    mask const f = full();
    switch (g.below(10))
    {
    case 0: return 0;
    case 1: return f;
    case 2: return static_cast<mask>(1) << g.below(N);
    case 3: return f ^ (static_cast<mask>(1) << g.below(N));
    case 4: return rnd128(g) & rnd128(g) & rnd128(g) & f;
    case 5: return (rnd128(g) | rnd128(g) | rnd128(g)) & f;
    case 6:
    {
      // members only among the enumerators stored in the last word
      unsigned const lo = (words - 1U) * wbits;
      return ((rnd128(g) & f) >> lo) << lo;
    }
    default: return rnd128(g) & f;
    }
  }

  // ------------------------------------------------------------ the judge
  static mask members(bf const &b)
  {
    mask got = 0;
    for (unsigned k = 0; k < N; ++k)
      if (b.get(en(k)))
        got |= static_cast<mask>(1) << k;
    return got;
  }
  static void tally()
  {
    if constexpr (partial)
      VF_COUNT("judged/last-word-partially-used");
    else
      VF_COUNT("judged/last-word-full");
    if constexpr (words > 1U)
      VF_COUNT("judged/multi-word");
    else
      VF_COUNT("judged/single-word");
  }
  // `real` was produced by `fn` (from operands a, b) and has to denote the set `want`
  static bool judge(char const *fn, bf const &real, mask want, mask a = 0, mask b = 0, bool subset_too = false,
                    char const *note = "")
  {
    tally();
    bool ok = true;
    auto ctx = [&] { return " " + std::string(note) + " a=" + hex(a) + " b=" + hex(b) + " expected set=" + hex(want); };
    mask const got = members(real);
    if (got != want)
    {
      ok = false;
      viol(fn, "members", "get() over all enumerators yields " + hex(got) + ctx());
    }
    bf const c = canon_of(want);
    bool const eq1 = real == c, eq2 = c == real, ne = real != c;
    if (!eq1 || !eq2)
    {
      ok = false;
      viol(fn, "eq-canonical",
           "result (members " + hex(got) + ") is not == the bitfield built by set() for the same set;" + ctx());
    }
    if (ne)
    {
      ok = false;
      viol(fn, "ne-canonical",
           "result (members " + hex(got) + ") is != the bitfield built by set() for the same set;" + ctx());
    }
    std::size_t const h1 = hasher()(real), h2 = hasher()(c);
    if (h1 != h2)
    {
      ok = false;
      viol(fn, "hash-canonical",
           "hash " + std::to_string(h1) + " differs from hash " + std::to_string(h2) +
               " of the bitfield built by set() for the same set;" + ctx());
    }
    if (subset_too)
    {
      namespace bfn = fcppt::container::bitfield;
      if (!bfn::is_subset_eq(real, c) || !bfn::is_subset_eq(c, real))
      {
        ok = false;
        viol(fn, "subset-canonical", "result and the bitfield built by set() are not subsets of each other;" + ctx());
      }
    }
    return ok;
  }

  // ------------------------------------------------------------ entry: construct
  static void observe(bf const &f, mask m)
  {
    std::size_t const h = hasher()(f);
    if (std::hash<bf>()(f) != h)
    {
      VF_COUNT("observed/std-hash-differs");
      vf::observation("std::hash<bitfield> differs from bitfield::hash for " + name());
    }
    else
      VF_COUNT("observed/std-hash-agrees");
    if constexpr (bf::array_size::value == 1U)
    {
      if (static_cast<mask>(fcppt::container::bitfield::underlying_value(f)) != m)
      {
        VF_COUNT("observed/underlying-value-differs-from-mask");
        vf::observation("underlying_value is not the plain bit mask of the set for " + name());
      }
      else
        VF_COUNT("observed/underlying-value-is-mask");
    }
    bf const again(f.array());
    if (!(again == f) || members(again) != m)
    {
      VF_COUNT("observed/array-roundtrip-differs");
      vf::observation("object(array()) does not reproduce the bitfield for " + name());
    }
    else
      VF_COUNT("observed/array-roundtrip-ok");
    if (bf::array_size::value != words)
      vf::observation("array_size is not ceil(size/bits) for " + name());
  }

  static void one_subset(std::string const &entry, mask m, std::uint64_t idx)
  {
    if (!vf::begin_case("set=%s", hex(m).c_str()))
      return;
    vf::sample_case(1);
    vf::note_distinct(vf::hash_mix(vf::hash_str(entry), vf::hash_bytes(&m, sizeof m)));
    VF_COUNT("construct/subsets");
    vf::rng g(vf::seed_for(entry, idx));
    {
      // the canonical bitfield read through every accessor
      bf c = canon(m);
      bf const &cc = c;
      mask by_get = 0, by_cidx = 0, by_idx = 0, by_and = 0;
      for (unsigned k = 0; k < N; ++k)
      {
        mask const one = static_cast<mask>(1) << k;
        if (cc.get(en(k)))
          by_get |= one;
        if (cc[en(k)])
          by_cidx |= one;
        if (c[en(k)])
          by_idx |= one;
        if (cc & en(k))
          by_and |= one;
      }
      if (by_get != m)
        viol("get", "members", "after set() of " + hex(m) + " get() yields " + hex(by_get));
      if (by_cidx != m)
        viol("operator[]const", "members", "after set() of " + hex(m) + " operator[] const yields " + hex(by_cidx));
      if (by_idx != m)
        viol("operator[]", "members", "after set() of " + hex(m) + " operator[] yields " + hex(by_idx));
      if (by_and != m)
        viol("operator&(element)", "members", "after set() of " + hex(m) + " field & element yields " + hex(by_and));
      vf::add_evals(4);
      observe(cc, m);
    }
    for (unsigned how = 0; how < m_count; ++how)
    {
      vf::extend_case(" %s", method_tag[how]);
      bool ok = true;
      bf const r = built(how, m, g, ok, true);
      static_cast<void>(r);
      static vf::counter c_methods("construct/constructions");
      ++c_methods;
    }
  }

  static void construct()
  {
    std::string const entry = "construct/" + name();
    if (!vf::entry_enabled(entry))
      return;
    vf::set_entry(entry);
    std::uint64_t const o = off(entry);
    bool const all = small || (N <= 17U && vf::thorough());
    if (all)
    {
      for (std::uint64_t m = 0; m < (std::uint64_t{1} << N); ++m)
        if (vf::mine(m + o))
          one_subset(entry, m, m);
      return;
    }
    std::uint64_t const n = vf::tier<std::uint64_t>(N <= 17U ? 1500 : 400, N <= 17U ? 0 : 60000);
    for (std::uint64_t i = 0; i < n; ++i)
    {
      if (!vf::mine(i + o))
        continue;
      vf::rng g(vf::seed_for(entry + "/pick", i));
      one_subset(entry, rand_mask(g), i);
    }
  }

  // ------------------------------------------------------------ entry: pairs
  static void relations(bf const &A, bf const &B, mask a, mask b)
  {
    namespace bfn = fcppt::container::bitfield;
    auto ctx = [&] { return " a=" + hex(a) + " b=" + hex(b); };
    bool const want_sub = (a & ~b) == 0;
    bool const want_sup = (b & ~a) == 0;
    bool const want_eq = a == b;
    if (bfn::is_subset_eq(A, B) != want_sub)
      viol("is_subset_eq", want_sub ? "spurious-false" : "spurious-true", "is_subset_eq(a,b)" + ctx());
    if (bfn::is_subset_eq(B, A) != want_sup)
      viol("is_subset_eq", want_sup ? "spurious-false" : "spurious-true", "is_subset_eq(b,a)" + ctx());
    if ((A == B) != want_eq || (B == A) != want_eq)
      viol("operator==", want_eq ? "spurious-false" : "spurious-true", "a == b" + ctx());
    if ((A != B) != !want_eq || (B != A) != !want_eq)
      viol("operator!=", want_eq ? "spurious-true" : "spurious-false", "a != b" + ctx());
    if (want_eq)
    {
      VF_COUNT("relations/equal-sets");
      if (hasher()(A) != hasher()(B))
        viol("hash", "equal-sets-hash-differently", "hash(a) != hash(b)" + ctx());
    }
    else
      VF_COUNT("relations/different-sets");
    if (want_sub && !want_eq)
      VF_COUNT("relations/proper-subset");
    if (!want_sub && !want_sup)
      VF_COUNT("relations/incomparable");
  }

  static void one_pair(bf const &A, bf const &B, mask a, mask b)
  {
    mask const f = full();
    judge("operator|", A | B, a | b, a, b);
    judge("operator&", A & B, a & b, a, b);
    judge("operator^", A ^ B, a ^ b, a, b);
    {
      bf t = A;
      bf &r = (t |= B);
      if (&r != &t)
        viol("operator|=", "returned-reference", "does not return its left operand");
      judge("operator|=", t, a | b, a, b);
    }
    {
      bf t = A;
      bf &r = (t &= B);
      if (&r != &t)
        viol("operator&=", "returned-reference", "does not return its left operand");
      judge("operator&=", t, a & b, a, b);
    }
    {
      bf t = A;
      bf &r = (t ^= B);
      if (&r != &t)
        viol("operator^=", "returned-reference", "does not return its left operand");
      judge("operator^=", t, a ^ b, a, b);
    }
    // self operands: the right operand is the object that is being modified
    if (a == b)
    {
      bf t = A;
      t |= t;
      judge("operator|=", t, a, a, a);
      t &= t;
      judge("operator&=", t, a, a, a);
      t ^= t;
      judge("operator^=", t, 0, a, a);
    }
    // the operands are unchanged
    if (members(A) != a || members(B) != b)
      viol("operators", "operand-modified", "an operand changed; a=" + hex(a) + " b=" + hex(b));
    // difference through complement: a \ b
    {
      bf const nb = ~B;
      if (judge("operator~", nb, f & ~b, b, 0))
        judge("operator&", A & nb, a & (f & ~b), a, f & ~b);
      else
        VF_COUNT("skipped/tainted-operand");
    }
    relations(A, B, a, b);
  }

  static void pairs()
  {
    std::string const entry = "pairs/" + name();
    if (!vf::entry_enabled(entry))
      return;
    vf::set_entry(entry);
    std::uint64_t const o = off(entry);
    mask const f = full();
    if constexpr (small)
    {
      // all pairs; the right operands come from a table of differently computed representatives
      std::vector<bf> alt;
      std::vector<char> alt_ok;
      static unsigned const hows[] = {m_canon, m_not_of_complement, m_list, m_init, m_xor_full, m_and_not, m_index_assign, m_proxy_copy, m_init_proxy};
      bool table_built = false;
      auto build_table = [&] {
        // inside the first case of this partition, so that an abort in here has a witness
        vf::rng g(vf::hash_mix(vf::hash_str(entry), 77));
        for (unsigned m = 0; m < (1U << N); ++m)
        {
          bool ok = true;
          alt.push_back(built(hows[m % 9U], m, g, ok));
          alt_ok.push_back(ok ? 1 : 0);
        }
        table_built = true;
      };
      for (unsigned a = 0; a < (1U << N); ++a)
      {
        if (!vf::mine(a + o))
          continue;
        if (!vf::begin_case("a=%s b=all %u subsets", hex(a).c_str(), 1U << N))
          continue;
        vf::sample_case(1);
        vf::note_distinct(vf::hash_mix(vf::hash_str(entry), a));
        VF_COUNT("pairs/exhaustive-rows");
        if (!table_built)
          build_table();
        vf::add_evals(9U * (1U << N));
        bool a_ok = true;
        vf::rng ga(vf::hash_mix(vf::hash_str(entry), a));
        bf const A = built((a & 1U) ? m_not_of_complement : m_canon, a, ga, a_ok);
        if (!a_ok)
        {
          VF_COUNT("skipped/tainted-row");
          continue;
        }
        judge("operator~", ~A, f & ~static_cast<mask>(a), a, 0);
        for (unsigned b = 0; b < (1U << N); ++b)
        {
          vf::operands(a, b);
          if (!alt_ok[b])
          {
            VF_COUNT("skipped/tainted-operand");
            continue;
          }
          one_pair(A, alt[b], a, b);
        }
      }
    }
    else
    {
      bool const core = std::is_same_v<E, e17>;
      std::uint64_t const rows = vf::tier<std::uint64_t>(core ? 300 : 40, core ? 9766 : 600);
      unsigned const nb = 256;
      for (std::uint64_t i = 0; i < rows; ++i)
      {
        if (!vf::mine(i + o))
          continue;
        vf::rng g(vf::seed_for(entry, i));
        mask const a = rand_mask(g);
        if (!vf::begin_case("row=%llu a=%s b=%u seeded subsets", static_cast<unsigned long long>(i), hex(a).c_str(), nb))
          continue;
        vf::sample_case(1);
        vf::note_distinct(vf::hash_mix(vf::hash_str(entry), vf::hash_mix(static_cast<std::uint64_t>(a >> 64) + i, static_cast<std::uint64_t>(a))));
        VF_COUNT("pairs/random-rows");
        vf::add_evals(9U * nb);
        bool a_ok = true;
        bf const A = built(static_cast<unsigned>(g.below(m_count)), a, g, a_ok);
        if (!a_ok)
        {
          VF_COUNT("skipped/tainted-row");
          continue;
        }
        judge("operator~", ~A, f & ~a, a, 0);
        for (unsigned j = 0; j < nb; ++j)
        {
          mask b;
          switch (j)
          {
          case 0: b = a; break;
          case 1: b = f & ~a; break;
          case 2: b = 0; break;
          case 3: b = f; break;
          case 4: case 5: case 6: b = a & rnd128(g); break;          // subset of a
          case 7: case 8: case 9: b = (a | rnd128(g)) & f; break;    // superset of a
          case 10: case 11: case 12: b = a ^ (static_cast<mask>(1) << g.below(N)); break; // one enumerator apart
          case 13: b = a ^ (static_cast<mask>(1) << (N - 1U)); break; // differs in the last enumerator only
          default: b = rand_mask(g); break;
          }
          bool b_ok = true;
          bf const B = built(static_cast<unsigned>(g.below(m_count)), b, g, b_ok);
          if (!b_ok)
          {
            VF_COUNT("skipped/tainted-operand");
            continue;
          }
          one_pair(A, B, a, b);
        }
      }
    }
  }

  // ------------------------------------------------------------ entry: trees
  struct node
  {
    char op;     // 'L' literal, '~', '|', '&', '^'
    bool assign; // binary: use the assigning form
    unsigned how;
    mask lit;
    int l, r;
  };
  struct tree
  {
    std::vector<node> nodes;
    unsigned depth = 0;
  };
  // spine == true: this node has to reach the requested depth
  static int gen(tree &t, vf::rng &g, unsigned depth_left, bool spine, unsigned level)
  {
    if (level > t.depth)
      t.depth = level;
    int const idx = static_cast<int>(t.nodes.size());
    t.nodes.push_back(node{'L', false, 0, 0, -1, -1});
    bool const leaf = depth_left == 0 || (!spine && g.chance(3, 10));
    if (leaf)
    {
      t.nodes[idx].how = static_cast<unsigned>(g.below(m_count));
      t.nodes[idx].lit = rand_mask(g);
      return idx;
    }
    static char const ops[] = {'|', '&', '^', '~', '|', '&', '^'};
    char const op = ops[g.below(7)];
    t.nodes[idx].op = op;
    t.nodes[idx].assign = g.chance(1, 2);
    if (op == '~')
    {
      int const l = gen(t, g, depth_left - 1, spine, level + 1);
      t.nodes[idx].l = l;
    }
    else
    {
      bool const left_spine = spine && g.chance(1, 2);
      int const l = gen(t, g, depth_left - 1, spine && left_spine, level + 1);
      int const r = gen(t, g, depth_left - 1, spine && !left_spine, level + 1);
      t.nodes[idx].l = l;
      t.nodes[idx].r = r;
    }
    return idx;
  }
  static void show(tree const &t, int i, std::string &out)
  {
    node const &n = t.nodes[static_cast<std::size_t>(i)];
    if (n.op == 'L')
    {
      out += hex(n.lit);
      out += '#';
      out += std::to_string(n.how);
    }
    else if (n.op == '~')
    {
      out += '~';
      show(t, n.l, out);
    }
    else
    {
      out += '(';
      show(t, n.l, out);
      out += n.op;
      if (n.assign)
        out += '=';
      show(t, n.r, out);
      out += ')';
    }
  }
  struct value
  {
    bf real;
    mask model;
    bool ok; // false: a violation was reported somewhere below; results above are not judged any more
  };
  static value eval(tree const &t, int i, vf::rng &g)
  {
    node const &n = t.nodes[static_cast<std::size_t>(i)];
    mask const f = full();
    if (n.op == 'L')
    {
      bool ok = true;
      bf const r = built(n.how, n.lit, g, ok);
      VF_COUNT("trees/literals");
      return value{r, n.lit, ok};
    }
    if (n.op == '~')
    {
      value const a = eval(t, n.l, g);
      mask const ma = a.model;
      if (!a.ok)
      {
        VF_COUNT("skipped/tainted-operand");
        return value{a.real, f & ~ma, false};
      }
      bf const r = ~a.real;
      VF_COUNT("op/not");
      bool const ok = judge("operator~", r, f & ~ma, ma, 0);
      return value{r, f & ~ma, ok};
    }
    value const va = eval(t, n.l, g);
    value const vb = eval(t, n.r, g);
    if (!va.ok || !vb.ok)
    {
      VF_COUNT("skipped/tainted-operand");
      return value{va.real, 0, false};
    }
    bf const &a = va.real;
    bf const &b = vb.real;
    mask const ma = va.model, mb = vb.model;
    bf r = a;
    mask mr = 0;
    char const *fn = "";
    switch (n.op)
    {
    case '|':
      mr = ma | mb;
      if (n.assign)
      {
        r |= b;
        fn = "operator|=";
        VF_COUNT("op/or-assign");
      }
      else
      {
        r = a | b;
        fn = "operator|";
        VF_COUNT("op/or");
      }
      break;
    case '&':
      mr = ma & mb;
      if (n.assign)
      {
        r &= b;
        fn = "operator&=";
        VF_COUNT("op/and-assign");
      }
      else
      {
        r = a & b;
        fn = "operator&";
        VF_COUNT("op/and");
      }
      break;
    default:
      mr = ma ^ mb;
      if (n.assign)
      {
        r ^= b;
        fn = "operator^=";
        VF_COUNT("op/xor-assign");
      }
      else
      {
        r = a ^ b;
        fn = "operator^";
        VF_COUNT("op/xor");
      }
      break;
    }
    if (members(a) != ma || members(b) != mb)
      viol("operators", "operand-modified", "an operand changed; a=" + hex(ma) + " b=" + hex(mb));
    bool const ok = judge(fn, r, mr, ma, mb);
    return value{r, mr, ok};
  }

  static void trees()
  {
    std::string const entry = "trees/" + name();
    if (!vf::entry_enabled(entry))
      return;
    vf::set_entry(entry);
    std::uint64_t const o = off(entry);
    bool const core = std::is_same_v<E, e1> || std::is_same_v<E, e3> || std::is_same_v<E, e8> ||
                      std::is_same_v<E, e9> || std::is_same_v<E, e17>;
    // 20 core configurations: 3*10^4 / 10^6 trees in total; the extras add a little
    std::uint64_t const n = vf::tier<std::uint64_t>(core ? 1500 : 200, core ? 50000 : 5000);
    for (std::uint64_t i = 0; i < n; ++i)
    {
      if (!vf::mine(i + o))
        continue;
      vf::rng g(vf::seed_for(entry, i));
      tree t;
      unsigned const want_depth = 1U + static_cast<unsigned>(g.below(6)); // 1..6 operator levels
      gen(t, g, want_depth, true, 0);
      std::string expr;
      show(t, 0, expr);
      if (!vf::begin_case("tree=%llu depth=%u nodes=%zu expr=%s", static_cast<unsigned long long>(i), t.depth,
                          t.nodes.size(), expr.c_str()))
        continue;
      vf::sample_case(1);
      vf::note_distinct(vf::hash_mix(vf::hash_str(entry), vf::hash_str(expr)));
      vf::add_evals(t.nodes.size() - 1U);
      VF_COUNT("trees/trees");
      if (t.depth == 6U)
        VF_COUNT("trees/depth-6");
      vf::count_max("max/tree-depth", t.depth);
      vf::count_max("max/tree-nodes", t.nodes.size());
      value const root = eval(t, 0, g);
      if (root.ok)
      {
        // the root once more, now also through is_subset_eq in both directions
        judge("tree-root", root.real, root.model, 0, 0, true);
        if (root.model != 0 && root.model != full())
          VF_COUNT("trees/root-nontrivial-set");
      }
      else
        VF_COUNT("trees/stopped-at-first-violation");
    }
  }

  // ------------------------------------------------------------ entry: history
  static void history()
  {
    std::string const entry = "history/" + name();
    if (!vf::entry_enabled(entry))
      return;
    vf::set_entry(entry);
    std::uint64_t const o = off(entry);
    std::uint64_t const n = vf::tier<std::uint64_t>(200, 6000);
    unsigned const steps = 48;
    mask const fl = full();
    for (std::uint64_t i = 0; i < n; ++i)
    {
      if (!vf::mine(i + o))
        continue;
      vf::rng g(vf::seed_for(entry, i));
      mask mf = rand_mask(g);
      unsigned const how0 = static_cast<unsigned>(g.below(m_count));
      if (!vf::begin_case("history=%llu start=%s#%u", static_cast<unsigned long long>(i), hex(mf).c_str(), how0))
        continue;
      vf::sample_case(1);
      VF_COUNT("history/histories");
      vf::add_evals(steps);
      bool f_ok = true;
      bf f = built(how0, mf, g, f_ok);
      std::uint64_t sig = vf::hash_mix(static_cast<std::uint64_t>(mf), how0);
      if (!f_ok)
        VF_COUNT("history/stopped-at-first-violation");
      for (unsigned s = 0; f_ok && s < steps; ++s)
      {
        unsigned const op = static_cast<unsigned>(g.below(14));
        unsigned const k = static_cast<unsigned>(g.below(N));
        mask const one = static_cast<mask>(1) << k;
        mask mg = 0;
        unsigned howg = 0;
        bool const needs_operand = op >= 5 && op != 8 && op != 13;
        if (needs_operand)
        {
          mg = rand_mask(g);
          howg = static_cast<unsigned>(g.below(m_count));
        }
        bool const v = g.chance(1, 2);
        sig = vf::hash_mix(sig, vf::hash_mix(op * 131U + k * 2U + (v ? 1U : 0U), static_cast<std::uint64_t>(mg) ^ howg));
        static char const *const opname[14] = {"set(k,1)", "set(k,0)", "[k]=v", "|=e(k)", "f=f|e(k)", "|=G", "&=G",
                                               "^=G", "f=~f", "f=f|G", "f=f&G", "f=f^G", "&=~G", "copy"};
        // the step is written to the witness before anything of it is executed
        if (needs_operand)
          vf::extend_case(" %s G=%s#%u", opname[op], hex(mg).c_str(), howg);
        else
          vf::extend_case(" %s k=%u v=%d", opname[op], k, v ? 1 : 0);
        bf G(bf::null());
        if (needs_operand)
        {
          bool g_ok = true;
          G = built(howg, mg, g, g_ok);
          if (!g_ok)
          {
            VF_COUNT("history/stopped-at-first-violation");
            break;
          }
        }
        char const *fn = "";
        switch (op)
        {
        case 0:
          f.set(en(k), true);
          mf |= one;
          fn = "set";
          break;
        case 1:
          f.set(en(k), false);
          mf &= ~one;
          fn = "set(false)";
          break;
        case 2:
          f[en(k)] = v;
          mf = v ? (mf | one) : (mf & ~one);
          fn = "operator[]=";
          break;
        case 3:
        {
          bf &r = (f |= en(k));
          if (&r != &f)
            viol("operator|=(element)", "returned-reference", "does not return its left operand");
          mf |= one;
          fn = "operator|=(element)";
          break;
        }
        case 4:
          f = f | en(k);
          mf |= one;
          fn = "operator|(element)";
          break;
        case 5:
          f |= G;
          mf |= mg;
          fn = "operator|=";
          break;
        case 6:
          f &= G;
          mf &= mg;
          fn = "operator&=";
          break;
        case 7:
          f ^= G;
          mf ^= mg;
          fn = "operator^=";
          break;
        case 8:
          f = ~f;
          mf = fl & ~mf;
          fn = "operator~";
          break;
        case 9:
          f = f | G;
          mf |= mg;
          fn = "operator|";
          break;
        case 10:
          f = f & G;
          mf &= mg;
          fn = "operator&";
          break;
        case 11:
          f = f ^ G;
          mf ^= mg;
          fn = "operator^";
          break;
        case 12:
        {
          bf const ng = ~G;
          if (!judge("operator~", ng, fl & ~mg, mg, 0))
            f_ok = false;
          f &= ng;
          mf &= fl & ~mg;
          fn = "operator&=";
          break;
        }
        default:
        {
          bf const h = f;
          f = bf::null();
          f = h;
          fn = "copy";
          break;
        }
        }
        VF_COUNT("history/steps");
        if (!f_ok || !judge(fn, f, mf, mf, mg, (s % 8U) == 7U))
        {
          VF_COUNT("history/stopped-at-first-violation");
          break;
        }
      }
      vf::note_distinct(vf::hash_mix(vf::hash_str(entry), sig));
    }
  }

  // ------------------------------------------------------------ observed: hash spread, proxy assignment
  static void observed()
  {
    std::string const entry = "observed/" + name();
    if (!vf::entry_enabled(entry) || !vf::mine(off(entry)))
      return;
    vf::set_entry(entry);
    if (!vf::begin_case("hash spread, proxy = proxy"))
      return;
    {
      std::unordered_set<std::size_t> hs;
      vf::rng g(vf::seed_for(entry, 0));
      std::uint64_t const n = small ? (std::uint64_t{1} << N) : 4096U;
      std::unordered_set<std::uint64_t> sets;
      for (std::uint64_t i = 0; i < n; ++i)
      {
        mask const m = small ? static_cast<mask>(i) : rand_mask(g);
        if (!sets.insert(vf::hash_bytes(&m, sizeof m)).second)
          continue;
        hs.insert(hasher()(canon(m)));
      }
      vf::count("observed/hash/sets", sets.size());
      vf::count("observed/hash/distinct-values", hs.size());
      if (hs.size() != sets.size())
        vf::observation("bitfield::hash collides on " + std::to_string(sets.size() - hs.size()) + " of " +
                        std::to_string(sets.size()) + " sets for " + name() + " (allowed; observed only)");
    }
    if constexpr (N >= 2U)
    {
      // f[a] = f[b]: whether the bit is copied or the temporary proxy is rebound is not stated anywhere
      bf f = canon(static_cast<mask>(2));
      f[en(0)] = f[en(1)];
      if (f.get(en(0)))
        VF_COUNT("observed/proxy-assign/copies-bit");
      else
      {
        VF_COUNT("observed/proxy-assign/rebinds-proxy");
        vf::observation("f[a] = f[b] does not copy the bit (proxy copy assignment rebinds the temporary proxy); "
                        "observed only, the property does not state proxy-to-proxy assignment");
      }
    }
  }

  static void run()
  {
    construct();
    pairs();
    trees();
    history();
    observed();
  }
};

template <class W>
void all_enums()
{
  world<e1, 1, W>::run();
  world<e3, 3, W>::run();
  world<e8, 8, W>::run();
  world<e9, 9, W>::run();
  world<e17, 17, W>::run();
}

#ifndef VF_SLICE
#define VF_SLICE -2 // single translation unit build: everything
#endif
#define VF_IN_SLICE(i) (VF_SLICE == (i) || VF_SLICE == -2)
}

// ---- enums with more enumerators than the model mask: a std::bitset model, seeded random subsets
template <class E, unsigned N, class Word>
struct large_enum
{
  using bf = fcppt::container::bitfield::object<E, Word>;
  using bits = std::bitset<N>;
  static bf build(bits const &m, unsigned how)
  {
    bf r = bf::null();
    if (how == 0)
    {
      for (unsigned i = 0; i < N; ++i)
        if (m[i])
          r.set(static_cast<E>(i), true);
    }
    else if (how == 1)
      r = fcppt::container::bitfield::init<bf>([&m](E const e) { return m[static_cast<unsigned>(e)]; });
    else
    {
      r = ~bf::null();
      for (unsigned i = 0; i < N; ++i)
        if (!m[i])
          r[static_cast<E>(i)] = false;
    }
    return r;
  }
  static bits read(bf const &b)
  {
    bits r;
    for (unsigned i = 0; i < N; ++i)
      r[i] = b.get(static_cast<E>(i));
    return r;
  }
  static void run()
  {
    std::string const e = std::string("large-enum/") + enum_name<E>::get() + "," + wn<Word>();
    if (!vf::entry_enabled(e))
      return;
    vf::set_entry(e);
    std::uint64_t const total = vf::tier<std::uint64_t>(300, 30000);
    for (std::uint64_t h = 0; h < total; ++h)
    {
      if (!vf::mine(h))
        continue;
      vf::rng g(vf::seed_for(e, h));
      bits ma, mb;
      unsigned const density = 1 + static_cast<unsigned>(g.below(8));
      for (unsigned i = 0; i < N; ++i)
      {
        ma[i] = g.below(density) == 0;
        mb[i] = g.below(density) == 0;
      }
      // single members far apart: k and k + 256 (the positions an 8-bit counter cannot tell apart)
      if (h % 3 == 0)
      {
        ma.reset();
        mb.reset();
        unsigned const k = static_cast<unsigned>(g.below(N - 256));
        ma[k] = true;
        mb[k + 256] = true;
      }
      if (!vf::begin_case("h=%llu |a|=%zu |b|=%zu", static_cast<unsigned long long>(h), ma.count(), mb.count()))
        continue;
      vf::sample_case(1);
      vf::note_distinct(vf::hash_mix(vf::hash_str(e), vf::hash_mix(std::hash<bits>{}(ma), std::hash<bits>{}(mb))));
      auto const bad = [&](char const *op, char const *cls) { vf::violation(std::string(op) + "/" + enum_name<E>::get() + "," + wn<Word>() + "/" + cls, "mismatch", vf::current_case()); };
      unsigned const how = static_cast<unsigned>(h % 3);
      bf const a = build(ma, how), b = build(mb, (how + 1) % 3), a2 = build(ma, (how + 2) % 3);
      if (read(a) != ma || read(b) != mb)
        bad("get", "members");
      if (!(a == a2) || a != a2 || std::hash<bf>{}(a) != std::hash<bf>{}(a2))
        bad("operator==", "eq-canonical");
      if ((a == b) != (ma == mb))
        bad("operator==", "value");
      if (read(a | b) != (ma | mb))
        bad("operator|", "members");
      if (read(a & b) != (ma & mb))
        bad("operator&", "members");
      if (read(a ^ b) != (ma ^ mb))
        bad("operator^", "members");
      if (read(~a) != ~ma)
        bad("operator~", "members");
      if (fcppt::container::bitfield::is_subset_eq(a, b) != ((ma & ~mb).none()))
        bad("is_subset_eq", "value");
      VF_COUNT("large-enum/cases");
    }
  }
};

#if VF_IN_SLICE(0)
void vf_slice_0() { all_enums<std::uint8_t>(); }
#endif
#if VF_IN_SLICE(1)
void vf_slice_1() { all_enums<std::uint16_t>(); }
#endif
#if VF_IN_SLICE(2)
void vf_slice_2() { all_enums<std::uint32_t>(); }
#endif
#if VF_IN_SLICE(3)
void vf_slice_3() { all_enums<std::uint64_t>(); }
#endif
#if VF_IN_SLICE(4)
void vf_slice_4()
{
  world<e9_u8, 9, std::uint8_t>::run();
  world<e9_u8, 9, std::uint32_t>::run();
  world<e16_u16, 16, std::uint8_t>::run();
  world<e16_u16, 16, std::uint16_t>::run();
  world<e17_i16, 17, std::uint16_t>::run();
  world<e17_i16, 17, unsigned>::run(); // default_internal_type
}
#endif
#if VF_IN_SLICE(5)
void vf_slice_5()
{
  world<e33_u64, 33, std::uint8_t>::run();
  world<e33_u64, 33, std::uint32_t>::run();
  world<e33_u64, 33, std::uint64_t>::run();
  world<e65_u8, 65, std::uint16_t>::run();
  world<e65_u8, 65, std::uint64_t>::run();
  large_enum<e300_u16, 300, std::uint8_t>::run();
  large_enum<e300_u16, 300, std::uint32_t>::run();
  large_enum<e300_u16, 300, std::uint64_t>::run();
}
#endif

#if VF_SLICE < 0
void vf_slice_0();
void vf_slice_1();
void vf_slice_2();
void vf_slice_3();
void vf_slice_4();
void vf_slice_5();
namespace
{
void body()
{
  for (char const *b :
       {"construct/subsets", "construct/constructions", "pairs/exhaustive-rows", "pairs/random-rows",
        "judged/last-word-partially-used", "judged/last-word-full", "judged/multi-word", "judged/single-word",
        "relations/equal-sets", "relations/different-sets", "relations/proper-subset", "relations/incomparable",
        "trees/trees", "trees/depth-6", "trees/literals", "trees/root-nontrivial-set", "op/or", "op/and", "op/xor",
        "op/not", "op/or-assign", "op/and-assign", "op/xor-assign", "history/histories", "history/steps",
        "list/arity-0", "list/exact", "list/with-duplicates"})
    vf::require_bucket(b);
  vf_slice_0();
  vf_slice_1();
  vf_slice_2();
  vf_slice_3();
  vf_slice_4();
  vf_slice_5();
}
}
VF_MAIN(body)
#endif
