// C03: command-line parsing accounts for every argument and matches its reference.
// Main translation unit: registry of the generated shapes + construction of well-/ill-formed definitions.
#include <c03_common.hpp>

void c03_run_all_shapes();

namespace
{
using namespace c03;
FCPPT_RECORD_MAKE_LABEL(xa);
FCPPT_RECORD_MAKE_LABEL(xb);
FCPPT_RECORD_MAKE_LABEL(xt1);
FCPPT_RECORD_MAKE_LABEL(xt2);

template <class T>
void flag_value_type(char const *tn, T a, T b)
{
  std::string n = std::string("flag<") + tn + ">";
  must_construct((n + "/distinct-values").c_str(), [&] {
    o::flag<xa, T> f{o::optional_short_name{o::short_name{"f"}}, o::long_name{"flag"}, o::make_active_value(T{a}), o::make_inactive_value(T{b}), o::optional_help_text{}};
    (void)f;
  });
  must_throw((n + "/equal-values").c_str(), [&] {
    o::flag<xa, T> f{o::optional_short_name{}, o::long_name{"flag"}, o::make_active_value(T{a}), o::make_inactive_value(T{a}), o::optional_help_text{}};
    (void)f;
  });
  must_construct((n + "/option-with-default").c_str(), [&] {
    o::option<xa, T> p{o::optional_short_name{o::short_name{"o"}}, o::long_name{"opt"}, o::make_default_value(fcppt::optional::make(T{a})), o::optional_help_text{}};
    (void)p;
  });
}

void construction()
{
  if (vf::opts().part != 0)
    return;
  flag_value_type<int>("int", 1, 2);
  flag_value_type<unsigned>("unsigned", 1U, 2U);
  flag_value_type<std::string>("string", "on", "off");
  flag_value_type<std::string>("string-long", std::string(64, 'a'), std::string(64, 'b'));
  flag_value_type<color>("color", color::red, color::blue);
  flag_value_type<bool>("bool", true, false);
  must_throw("switch/short-equals-long", [] {
    o::switch_<xa> s{o::optional_short_name{o::short_name{"same"}}, o::long_name{"same"}, o::optional_help_text{}};
    (void)s;
  });
  must_throw("option/short-equals-long", [] {
    o::option<xa, int> s{o::optional_short_name{o::short_name{"same"}}, o::long_name{"same"}, o::no_default_value<int>(), o::optional_help_text{}};
    (void)s;
  });
  must_throw("product/duplicate-flag-names", [] {
    auto p = o::apply(o::switch_<xa>{o::optional_short_name{}, o::long_name{"flag"}, o::optional_help_text{}},
                      o::switch_<xb>{o::optional_short_name{}, o::long_name{"flag"}, o::optional_help_text{}});
    (void)p;
  });
  must_throw("product/duplicate-option-names", [] {
    auto p = o::apply(o::option<xa, int>{o::optional_short_name{o::short_name{"o"}}, o::long_name{"opt"}, o::no_default_value<int>(), o::optional_help_text{}},
                      o::option<xb, int>{o::optional_short_name{o::short_name{"o"}}, o::long_name{"other"}, o::no_default_value<int>(), o::optional_help_text{}});
    (void)p;
  });
  must_construct("product/distinct-names", [] {
    auto p = o::apply(o::option<xa, int>{o::optional_short_name{o::short_name{"o"}}, o::long_name{"opt"}, o::no_default_value<int>(), o::optional_help_text{}},
                      o::switch_<xb>{o::optional_short_name{o::short_name{"f"}}, o::long_name{"flag"}, o::optional_help_text{}});
    (void)p;
  });
  must_throw("commands/duplicate-command-names", [] {
    auto c = o::make_commands(o::switch_<xa>{o::optional_short_name{}, o::long_name{"flag"}, o::optional_help_text{}},
                              o::make_sub_command<xt1>("c", o::argument<xb, int>{o::long_name{"a"}, o::optional_help_text{}}, o::optional_help_text{}),
                              o::make_sub_command<xt2>("c", o::argument<xb, int>{o::long_name{"a"}, o::optional_help_text{}}, o::optional_help_text{}));
    (void)c;
  });
  must_construct("commands/distinct-command-names", [] {
    auto c = o::make_commands(o::switch_<xa>{o::optional_short_name{}, o::long_name{"flag"}, o::optional_help_text{}},
                              o::make_sub_command<xt1>("c", o::argument<xb, int>{o::long_name{"a"}, o::optional_help_text{}}, o::optional_help_text{}),
                              o::make_sub_command<xt2>("d", o::argument<xb, int>{o::long_name{"a"}, o::optional_help_text{}}, o::optional_help_text{}));
    (void)c;
  });
}

void body()
{
  for (char const *b : {"options/shapes-run", "options/outcome/success", "options/outcome/failure", "options/accounting-checks",
                        "options/model/rejected-leftover", "options/model/sum-second-branch-tried",
                        "options/model/optional-recovered-from-missing", "options/model/many-stopped-at-missing",
                        "options/help-wrapper-runs", "options/help-text-returned", "options/construct/well-formed",
                        "options/construct/ill-formed"})
    vf::require_bucket(b);
  construction();
  c03_run_all_shapes();
}
}

VF_MAIN(body)
