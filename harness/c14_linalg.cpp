// C14: vector, dim and matrix arithmetic obeys the exact ring and module laws.
//
// Oracle: plain nested std::array<long long> arithmetic written from the property text and the module
// documentation (row-major matrices): component-wise loops, the triple-loop matrix product, the Leibniz
// sum over permutations for the determinant (the library uses the Laplace recursion), cofactors built by
// skipping a row and a column.  Every library result is read back element by element from its storage
// (row-major, as documented) and compared with the model; the algebraic identities are judged on the
// library's own results as well.
//
// Judged: the operations the statement lists.  Observed only (vf::observation): operator/, vector (+-*) dim,
// to_vector/to_dim, map, bit_strings, inverse.
#include <vf.hpp>
#include <heavy.hpp>

#include <fcppt/no_init.hpp>
#include <fcppt/cast/static_cast_fun.hpp>
#include <fcppt/math/size_type.hpp>
#include <fcppt/math/static_size.hpp>
#include <fcppt/math/dim/arithmetic.hpp>
#include <fcppt/math/dim/at.hpp>
#include <fcppt/math/dim/comparison.hpp>
#include <fcppt/math/dim/fill.hpp>
#include <fcppt/math/dim/init.hpp>
#include <fcppt/math/dim/narrow_cast.hpp>
#include <fcppt/math/dim/null.hpp>
#include <fcppt/math/dim/object_impl.hpp>
#include <fcppt/math/dim/push_back.hpp>
#include <fcppt/math/dim/static.hpp>
#include <fcppt/math/dim/structure_cast.hpp>
#include <fcppt/math/dim/to_vector.hpp>
#include <fcppt/math/matrix/adjugate.hpp>
#include <fcppt/math/matrix/arithmetic.hpp>
#include <fcppt/math/matrix/at_r.hpp>
#include <fcppt/math/matrix/at_r_c.hpp>
#include <fcppt/math/matrix/comparison.hpp>
#include <fcppt/math/matrix/delete_row_and_column.hpp>
#include <fcppt/math/matrix/determinant.hpp>
#include <fcppt/math/matrix/identity.hpp>
#include <fcppt/math/matrix/index.hpp>
#include <fcppt/math/matrix/init.hpp>
#include <fcppt/math/matrix/inverse.hpp>
#include <fcppt/math/matrix/object_impl.hpp>
#include <fcppt/math/matrix/row.hpp>
#include <fcppt/math/matrix/scaling.hpp>
#include <fcppt/math/matrix/static.hpp>
#include <fcppt/math/matrix/structure_cast.hpp>
#include <fcppt/math/matrix/translation.hpp>
#include <fcppt/math/matrix/transpose.hpp>
#include <fcppt/math/matrix/vector.hpp>
#include <fcppt/math/vector/arithmetic.hpp>
#include <fcppt/math/vector/at.hpp>
#include <fcppt/math/vector/bit_strings.hpp>
#include <fcppt/math/vector/comparison.hpp>
#include <fcppt/math/vector/cross.hpp>
#include <fcppt/math/vector/dim.hpp>
#include <fcppt/math/vector/dot.hpp>
#include <fcppt/math/vector/fill.hpp>
#include <fcppt/math/vector/init.hpp>
#include <fcppt/math/vector/length_square.hpp>
#include <fcppt/math/vector/map.hpp>
#include <fcppt/math/vector/narrow_cast.hpp>
#include <fcppt/math/vector/null.hpp>
#include <fcppt/math/vector/object_impl.hpp>
#include <fcppt/math/vector/push_back.hpp>
#include <fcppt/math/vector/static.hpp>
#include <fcppt/math/vector/structure_cast.hpp>
#include <fcppt/math/vector/to_dim.hpp>
#include <fcppt/optional/object.hpp>

#include <algorithm>
#include <array>
#include <cstddef>
#include <cstring>
#include <functional>
#include <numeric>
#include <string>
#include <type_traits>
#include <utility>

namespace
{
namespace fm = fcppt::math;
using fm::size_type;
using ll = long long;

// ------------------------------------------------------------------ storage types supplied by the user
// A view over memory owned by somebody else (as in test/math/vector/view_storage.cpp).
template <typename T, size_type N>
class view_storage
{
public:
  using value_type = T;
  using size_type = fcppt::math::size_type;
  using storage_size = fcppt::math::static_size<N>;
  using pointer = value_type *;
  using reference = value_type &;
  using const_reference = value_type const &;
  explicit view_storage(pointer const _data) : data_(_data) {}
  reference operator[](size_type const _index) { return data_[_index]; }
  const_reference operator[](size_type const _index) const { return data_[_index]; }

private:
  pointer data_;
};

// A view over raw bytes with proxy references (as in test/math/vector/raw_view.cpp).
template <typename Type, typename Pointer>
class raw_proxy
{
public:
  explicit raw_proxy(Pointer const _data) : data_{_data} {}
  operator Type() const // NOLINT
  {
    Type result;
    std::memcpy(&result, data_, sizeof(Type));
    return result;
  }
  raw_proxy &operator=(Type const &_other)
  {
    std::memcpy(data_, &_other, sizeof(Type));
    return *this;
  }

private:
  Pointer data_;
};
template <typename Type, size_type N>
class raw_view
{
public:
  using value_type = Type;
  using size_type = fcppt::math::size_type;
  using storage_size = fcppt::math::static_size<N>;
  using pointer = unsigned char *;
  using const_pointer = unsigned char const *;
  using reference = raw_proxy<Type, pointer>;
  using const_reference = raw_proxy<Type, const_pointer>;
  explicit raw_view(pointer const _data) : data_(_data) {}
  reference operator[](size_type const _index) { return reference{data_ + _index * sizeof(Type)}; }
  const_reference operator[](size_type const _index) const
  {
    return const_reference{data_ + _index * sizeof(Type)};
  }

private:
  pointer data_;
};

template <class T>
char const *tn()
{
  if constexpr (std::is_same_v<T, int>)
    return "int";
  else if constexpr (std::is_same_v<T, long>)
    return "long";
  else if constexpr (std::is_same_v<T, short>)
    return "short";
  else if constexpr (std::is_same_v<T, vf::heavy>)
    return "heavy";
  else
    return "?";
}

template <size_type N, class F>
void static_for(F &&f)
{
  [&]<size_type... I>(std::integer_sequence<size_type, I...>) {
    (f(std::integral_constant<size_type, I>{}), ...);
  }(std::make_integer_sequence<size_type, N>{});
}

// ------------------------------------------------------------------ the plain-array model
template <std::size_t R, std::size_t C>
using pm = std::array<std::array<ll, C>, R>;
template <std::size_t N>
using pv = std::array<ll, N>;

template <std::size_t R, std::size_t C>
pm<R, C> p_add(pm<R, C> const &a, pm<R, C> const &b)
{
  pm<R, C> r{};
  for (std::size_t i = 0; i < R; ++i)
    for (std::size_t j = 0; j < C; ++j)
      r[i][j] = a[i][j] + b[i][j];
  return r;
}
template <std::size_t R, std::size_t C>
pm<R, C> p_sub(pm<R, C> const &a, pm<R, C> const &b)
{
  pm<R, C> r{};
  for (std::size_t i = 0; i < R; ++i)
    for (std::size_t j = 0; j < C; ++j)
      r[i][j] = a[i][j] - b[i][j];
  return r;
}
template <std::size_t R, std::size_t C>
pm<R, C> p_smul(ll k, pm<R, C> const &a)
{
  pm<R, C> r{};
  for (std::size_t i = 0; i < R; ++i)
    for (std::size_t j = 0; j < C; ++j)
      r[i][j] = k * a[i][j];
  return r;
}
template <std::size_t R, std::size_t K, std::size_t C>
pm<R, C> p_mul(pm<R, K> const &a, pm<K, C> const &b)
{
  pm<R, C> r{};
  for (std::size_t i = 0; i < R; ++i)
    for (std::size_t j = 0; j < C; ++j)
    {
      ll s = 0;
      for (std::size_t k = 0; k < K; ++k)
        s += a[i][k] * b[k][j];
      r[i][j] = s;
    }
  return r;
}
template <std::size_t R, std::size_t C>
pm<C, R> p_tr(pm<R, C> const &a)
{
  pm<C, R> r{};
  for (std::size_t i = 0; i < R; ++i)
    for (std::size_t j = 0; j < C; ++j)
      r[j][i] = a[i][j];
  return r;
}
template <std::size_t N>
pm<N, N> p_id()
{
  pm<N, N> r{};
  for (std::size_t i = 0; i < N; ++i)
    r[i][i] = 1;
  return r;
}
// Leibniz formula: sum over all permutations of sign * product
template <std::size_t N>
ll p_det(pm<N, N> const &a)
{
  std::array<std::size_t, N> perm{};
  std::iota(perm.begin(), perm.end(), std::size_t{0});
  ll sum = 0;
  do
  {
    unsigned inv = 0;
    for (std::size_t i = 0; i < N; ++i)
      for (std::size_t j = i + 1; j < N; ++j)
        if (perm[i] > perm[j])
          ++inv;
    ll prod = 1;
    for (std::size_t i = 0; i < N; ++i)
      prod *= a[i][perm[i]];
    sum += (inv % 2U) ? -prod : prod;
  } while (std::next_permutation(perm.begin(), perm.end()));
  return sum;
}
// the matrix without row dr and column dc
template <std::size_t R, std::size_t C>
pm<R - 1, C - 1> p_minor(pm<R, C> const &a, std::size_t dr, std::size_t dc)
{
  pm<R - 1, C - 1> r{};
  std::size_t ri = 0;
  for (std::size_t i = 0; i < R; ++i)
  {
    if (i == dr)
      continue;
    std::size_t ci = 0;
    for (std::size_t j = 0; j < C; ++j)
    {
      if (j == dc)
        continue;
      r[ri][ci] = a[i][j];
      ++ci;
    }
    ++ri;
  }
  return r;
}
// adjugate = transpose of the cofactor matrix
template <std::size_t N>
pm<N, N> p_adj(pm<N, N> const &a)
{
  pm<N, N> r{};
  for (std::size_t i = 0; i < N; ++i)
    for (std::size_t j = 0; j < N; ++j)
    {
      ll cof = p_det(p_minor(a, i, j));
      if ((i + j) % 2U)
        cof = -cof;
      r[j][i] = cof;
    }
  return r;
}
template <std::size_t R, std::size_t C>
pv<R> p_mv(pm<R, C> const &a, pv<C> const &v)
{
  pv<R> r{};
  for (std::size_t i = 0; i < R; ++i)
    for (std::size_t j = 0; j < C; ++j)
      r[i] += a[i][j] * v[j];
  return r;
}
template <std::size_t N, class F>
pv<N> p_zip(pv<N> const &a, pv<N> const &b, F f)
{
  pv<N> r{};
  for (std::size_t i = 0; i < N; ++i)
    r[i] = f(a[i], b[i]);
  return r;
}
template <std::size_t N>
pv<N> p_vsmul(ll k, pv<N> const &a)
{
  pv<N> r{};
  for (std::size_t i = 0; i < N; ++i)
    r[i] = k * a[i];
  return r;
}
template <std::size_t N>
ll p_dot(pv<N> const &a, pv<N> const &b)
{
  ll s = 0;
  for (std::size_t i = 0; i < N; ++i)
    s += a[i] * b[i];
  return s;
}
inline pv<3> p_cross(pv<3> const &a, pv<3> const &b)
{
  return pv<3>{a[1] * b[2] - a[2] * b[1], a[2] * b[0] - a[0] * b[2], a[0] * b[1] - a[1] * b[0]};
}

template <std::size_t N>
std::string show(pv<N> const &v)
{
  std::string s = "(";
  for (std::size_t i = 0; i < N; ++i)
  {
    if (i)
      s += ',';
    s += std::to_string(v[i]);
  }
  return s + ")";
}
template <std::size_t R, std::size_t C>
std::string show(pm<R, C> const &m)
{
  std::string s = "[";
  for (std::size_t i = 0; i < R; ++i)
    s += show(m[i]);
  return s + "]";
}
inline std::string show(ll v) { return std::to_string(v); }
inline std::string show(bool v) { return v ? "true" : "false"; }

// ------------------------------------------------------------------ reading library objects back
// element (r,c) of a matrix is element r*C+c of its storage (documented: row-major)
template <class M>
pm<M::static_rows::value, M::static_columns::value> plain_m(M const &m)
{
  constexpr std::size_t R = M::static_rows::value, C = M::static_columns::value;
  pm<R, C> r{};
  for (std::size_t i = 0; i < R; ++i)
    for (std::size_t j = 0; j < C; ++j)
      r[i][j] = static_cast<ll>(static_cast<typename M::value_type>(
          m.storage()[static_cast<size_type>(i * C + j)]));
  return r;
}
template <class V>
pv<V::static_size::value> plain_v(V const &v)
{
  constexpr std::size_t N = V::static_size::value;
  pv<N> r{};
  for (std::size_t i = 0; i < N; ++i)
    r[i] = static_cast<ll>(static_cast<typename V::value_type>(v.storage()[static_cast<size_type>(i)]));
  return r;
}

// ------------------------------------------------------------------ judging
struct ctx
{
  std::string inst;                  // "int,2x2,sv"
  std::function<std::string()> desc; // operands, only evaluated on failure
};
inline void report(ctx const &c, char const *op, char const *cls, std::string const &got, std::string const &want)
{
  vf::violation(std::string(op) + "<" + c.inst + ">/" + cls, "mismatch",
                c.desc() + " got=" + got + " want=" + want);
}
template <class M, std::size_t R, std::size_t C>
bool want_m(ctx const &c, char const *op, M const &got, pm<R, C> const &want, char const *cls = "value")
{
  VF_COUNT("judged/model-comparisons");
  auto g = plain_m(got);
  if (g == want)
    return true;
  report(c, op, cls, show(g), show(want));
  return false;
}
template <class V, std::size_t N>
bool want_v(ctx const &c, char const *op, V const &got, pv<N> const &want, char const *cls = "value")
{
  VF_COUNT("judged/model-comparisons");
  auto g = plain_v(got);
  if (g == want)
    return true;
  report(c, op, cls, show(g), show(want));
  return false;
}
template <class A, class B>
bool want_s(ctx const &c, char const *op, A const &got, B const &want, char const *cls = "value")
{
  VF_COUNT("judged/model-comparisons");
  if (static_cast<ll>(got) == static_cast<ll>(want))
    return true;
  report(c, op, cls, show(static_cast<ll>(got)), show(static_cast<ll>(want)));
  return false;
}
inline bool want_b(ctx const &c, char const *op, bool got, bool want, char const *cls = "value")
{
  VF_COUNT("judged/model-comparisons");
  if (got == want)
    return true;
  report(c, op, cls, show(got), show(want));
  return false;
}
// an identity between two library results (compared element-wise on what was read back)
template <class L, class R>
bool ident_m(ctx const &c, char const *law, L const &lhs, R const &rhs)
{
  VF_COUNT("judged/identities");
  auto l = plain_m(lhs);
  auto r = plain_m(rhs);
  if (l == r)
    return true;
  report(c, law, "identity", "lhs " + show(l), "rhs " + show(r));
  return false;
}
template <class L, class R>
bool ident_v(ctx const &c, char const *law, L const &lhs, R const &rhs)
{
  VF_COUNT("judged/identities");
  auto l = plain_v(lhs);
  auto r = plain_v(rhs);
  if (l == r)
    return true;
  report(c, law, "identity", "lhs " + show(l), "rhs " + show(r));
  return false;
}
template <class A, class B>
bool ident_s(ctx const &c, char const *law, A const &lhs, B const &rhs)
{
  VF_COUNT("judged/identities");
  if (static_cast<ll>(lhs) == static_cast<ll>(rhs))
    return true;
  report(c, law, "identity", "lhs " + show(static_cast<ll>(lhs)), "rhs " + show(static_cast<ll>(rhs)));
  return false;
}

// ------------------------------------------------------------------ operands in the storage variants
template <class T, size_type R, size_type C>
struct mat_op
{
  using st_t = fm::matrix::static_<T, R, C>;
  using vs_t = view_storage<T, R * C>;
  using vw_t = fm::matrix::object<T, R, C, vs_t>;
  pm<R, C> p;
  std::array<T, R * C> flat;
  explicit mat_op(pm<R, C> const &p_) : p(p_), flat{}
  {
    for (std::size_t i = 0; i < R; ++i)
      for (std::size_t j = 0; j < C; ++j)
        flat[i * C + j] = static_cast<T>(p[i][j]);
  }
  st_t st() const
  {
    st_t m{fcppt::no_init{}};
    for (size_type i = 0; i < R * C; ++i)
      m.storage()[i] = flat[i];
    return m;
  }
  vw_t vw() { return vw_t{vs_t{flat.data()}}; }
};

// A vector operand: static, view over an array, row 1 of a static 3xN matrix, row 2 of a view 3xN matrix.
template <class T, size_type N>
struct vec_op
{
  using st_t = fm::vector::static_<T, N>;
  using vs_t = view_storage<T, N>;
  using vw_t = fm::vector::object<T, N, vs_t>;
  using host_s_t = fm::matrix::static_<T, 3, N>;
  using host_vs_t = view_storage<T, 3 * N>;
  using host_v_t = fm::matrix::object<T, 3, N, host_vs_t>;
  pv<N> p;
  std::array<T, N> flat;
  std::array<T, 3 * N> hflat;
  host_s_t host_s;
  host_v_t host_v;
  explicit vec_op(pv<N> const &p_) : p(p_), flat{}, hflat{}, host_s{fcppt::no_init{}}, host_v{host_vs_t{hflat.data()}}
  {
    for (size_type i = 0; i < N; ++i)
      flat[i] = static_cast<T>(p[i]);
    for (size_type i = 0; i < 3 * N; ++i)
    {
      // row 1 of host_s and row 2 of host_v hold the vector, everything else a sentinel
      host_s.storage()[i] = (i / N == 1) ? flat[i % N] : static_cast<T>(77);
      hflat[i] = (i / N == 2) ? flat[i % N] : static_cast<T>(-77);
    }
  }
  vec_op(vec_op const &) = delete;
  vec_op &operator=(vec_op const &) = delete;
  st_t st() const
  {
    st_t v{fcppt::no_init{}};
    for (size_type i = 0; i < N; ++i)
      v.storage()[i] = flat[i];
    return v;
  }
  vw_t vw() { return vw_t{vs_t{flat.data()}}; }
  // row of a const static matrix / of a non-const view matrix
  typename host_s_t::const_reference rs() const { return host_s.get_unsafe(1); }
  typename host_v_t::reference rv() { return host_v.get_unsafe(2); }
};

template <class T, size_type N>
struct dim_op
{
  using st_t = fm::dim::static_<T, N>;
  using vs_t = view_storage<T, N>;
  using vw_t = fm::dim::object<T, N, vs_t>;
  pv<N> p;
  std::array<T, N> flat;
  explicit dim_op(pv<N> const &p_) : p(p_), flat{}
  {
    for (size_type i = 0; i < N; ++i)
      flat[i] = static_cast<T>(p[i]);
  }
  st_t st() const
  {
    st_t v{fcppt::no_init{}};
    for (size_type i = 0; i < N; ++i)
      v.storage()[i] = flat[i];
    return v;
  }
  vw_t vw() { return vw_t{vs_t{flat.data()}}; }
};

inline std::uint64_t hash_ll(ll const *p, std::size_t n, std::uint64_t h) { return vf::hash_bytes(p, n * sizeof(ll), h); }
template <std::size_t R, std::size_t C>
std::uint64_t hash_pm(pm<R, C> const &m, std::uint64_t h)
{
  return hash_ll(&m[0][0], R * C, h);
}

// two vector operands in one of six storage combinations
template <class VO, class F>
void withvec2(unsigned cfg, VO &u, VO &v, F const &f)
{
  switch (cfg % 6U)
  {
  case 0:
  {
    auto const x = u.st(), y = v.st();
    VF_COUNT("storage/vector/static,static");
    f(x, y, "ss");
    break;
  }
  case 1:
  {
    auto const x = u.vw(), y = v.vw();
    VF_COUNT("storage/vector/view,view");
    f(x, y, "vv");
    break;
  }
  case 2:
  {
    auto const x = u.st();
    auto const y = v.vw();
    VF_COUNT("storage/vector/static,view");
    f(x, y, "sv");
    break;
  }
  case 3:
  {
    auto const x = u.vw();
    auto const y = v.st();
    VF_COUNT("storage/vector/view,static");
    f(x, y, "vs");
    break;
  }
  case 4:
  {
    auto const x = u.rs();
    auto const y = v.rv();
    VF_COUNT("storage/vector/row-of-static-matrix,row-of-view-matrix");
    f(x, y, "rq");
    break;
  }
  default:
  {
    auto const x = u.rv();
    auto const y = v.rs();
    VF_COUNT("storage/vector/row-of-view-matrix,row-of-static-matrix");
    f(x, y, "qr");
    break;
  }
  }
}

// ------------------------------------------------------------------ matrix laws
template <class T, size_type N>
struct ml
{
  using P = pm<N, N>;
  using PV = pv<N>;
  using op_t = mat_op<T, N, N>;
  using S = typename op_t::st_t;
  using V = typename op_t::vw_t;
  using vec_t = vec_op<T, N>;

  static std::string inst(char const *cfg)
  {
    return std::string(tn<T>()) + "," + std::to_string(N) + "x" + std::to_string(N) + "," + cfg;
  }

  // ---- one matrix
  template <class MA>
  static void unary(ctx const &c, MA const &A, P const &pa)
  {
    namespace mx = fm::matrix;
    // read access
    static_for<N>([&](auto r) {
      constexpr size_type Rw = decltype(r)::value;
      want_v(c, "matrix::at_r", mx::at_r<Rw>(A), pa[Rw]);
      want_v(c, "matrix::object::get_unsafe", A.get_unsafe(Rw), pa[Rw]);
      static_for<N>([&](auto cc) {
        constexpr size_type Cl = decltype(cc)::value;
        want_s(c, "matrix::at_r_c", mx::at_r_c<Rw, Cl>(A), pa[Rw][Cl]);
        want_s(c, "matrix::object::get_unsafe", A.get_unsafe(Rw).get_unsafe(Cl), pa[Rw][Cl], "element");
        {
          auto const row = mx::at_r<Rw>(A);
          want_s(c, "vector::at(row)", fm::vector::at<Cl>(row), pa[Rw][Cl]);
        }
      });
    });
#define VF_MXY(r, cc)                                                                                        \
  if constexpr ((r) < N && (cc) < N)                                                                         \
    want_s(c, "matrix::object::m" #r #cc, A.m##r##cc(), pa[r][cc]);
    VF_MXY(0, 0) VF_MXY(0, 1) VF_MXY(0, 2) VF_MXY(0, 3)
    VF_MXY(1, 0) VF_MXY(1, 1) VF_MXY(1, 2) VF_MXY(1, 3)
    VF_MXY(2, 0) VF_MXY(2, 1) VF_MXY(2, 2) VF_MXY(2, 3)
    VF_MXY(3, 0) VF_MXY(3, 1) VF_MXY(3, 2) VF_MXY(3, 3)
#undef VF_MXY
    // minors
    static_for<N>([&](auto r) {
      static_for<N>([&](auto cc) {
        constexpr size_type DR = decltype(r)::value, DC = decltype(cc)::value;
        want_m(c, "matrix::delete_row_and_column", mx::delete_row_and_column<DR, DC>(A), p_minor(pa, DR, DC));
      });
    });
    // identity
    auto I = mx::identity<S>();
    want_m(c, "matrix::identity", I, p_id<N>());
    ident_m(c, "law:A*I=A", A * I, A);
    ident_m(c, "law:I*A=A", I * A, A);
    // init reproduces the matrix from its (row,column) function
    want_m(c, "matrix::init",
           mx::init<S>([&pa]<size_type Rw, size_type Cl>(mx::index<Rw, Cl>) { return static_cast<T>(pa[Rw][Cl]); }),
           pa);
    want_m(c, "matrix::init",
           mx::init<S>([]<size_type Rw, size_type Cl>(mx::index<Rw, Cl>) { return static_cast<T>(Rw * 10 + Cl); }),
           []() {
             P r{};
             for (std::size_t i = 0; i < N; ++i)
               for (std::size_t j = 0; j < N; ++j)
                 r[i][j] = static_cast<ll>(i * 10 + j);
             return r;
           }(),
           "index");
    // rows
    {
      auto mkrow = [&pa](std::size_t r) {
        return [&]<std::size_t... J>(std::index_sequence<J...>) {
          return mx::row(static_cast<T>(pa[r][J])...);
        }(std::make_index_sequence<N>{});
      };
      S const fromrows = [&]<std::size_t... Rw>(std::index_sequence<Rw...>) {
        return S(mkrow(Rw)...);
      }(std::make_index_sequence<N>{});
      want_m(c, "matrix::row", fromrows, pa);
      // the same rows as named NON-CONST lvalues, used for two constructions: the rows must survive the first one
      auto rows = [&]<std::size_t... Rw>(std::index_sequence<Rw...>) {
        return std::make_tuple(mkrow(Rw)...);
      }(std::make_index_sequence<N>{});
      S const first = std::apply([](auto &...r) { return S(r...); }, rows);
      S const second = std::apply([](auto &...r) { return S(r...); }, rows);
      want_m(c, "matrix::row", first, pa, "lvalue-rows");
      want_m(c, "matrix::row", second, pa, "lvalue-rows-second-use");
    }
    // conversion between storage types, structure_cast
    {
      S const copy{A};
      want_m(c, "matrix::object(other storage)", copy, pa);
      S assigned{mx::identity<S>()};
      assigned = A;
      want_m(c, "matrix::object::operator=(other storage)", assigned, pa, "static-target");
      using O = std::conditional_t<std::is_same_v<T, int>, long, int>;
      using D = fm::matrix::static_<O, N, N>;
      want_m(c, "matrix::structure_cast", mx::structure_cast<D, fcppt::cast::static_cast_fun>(A), pa);
    }
    // write access through every path
    {
      S W{A};
      P pw = pa;
      static_for<N>([&](auto r) {
        static_for<N>([&](auto cc) {
          constexpr size_type Rw = decltype(r)::value, Cl = decltype(cc)::value;
          mx::at_r_c<Rw, Cl>(W) = static_cast<T>(100 + Rw * 10 + Cl);
          pw[Rw][Cl] = 100 + Rw * 10 + Cl;
          want_m(c, "matrix::at_r_c", W, pw, "write");
        });
      });
      std::array<T, N * N> buf{};
      V W2{typename op_t::vs_t{buf.data()}};
      W2 = W;
      want_m(c, "matrix::object::operator=(other storage)", W2, pw);
      static_for<N>([&](auto r) {
        constexpr size_type Rw = decltype(r)::value;
        W2.get_unsafe(Rw).get_unsafe(N - 1 - Rw) = static_cast<T>(-5 - static_cast<int>(Rw));
        pw[Rw][N - 1 - Rw] = -5 - static_cast<int>(Rw);
      });
      want_m(c, "matrix::object::get_unsafe", W2, pw, "write");
      for (std::size_t i = 0; i < N * N; ++i)
        want_s(c, "matrix::object::get_unsafe", buf[i], pw[i / N][i % N], "write-through-view");
    }
  }

  // ---- two matrices and a scalar
  template <class MA, class MB>
  static void pair(ctx const &c, MA const &A, MB const &B, P const &pa, P const &pb, ll k)
  {
    namespace mx = fm::matrix;
    T const kk = static_cast<T>(k);
    want_m(c, "matrix::operator+", A + B, p_add(pa, pb));
    want_m(c, "matrix::operator-", A - B, p_sub(pa, pb));
    auto const AB = A * B;
    P const pab = p_mul(pa, pb);
    want_m(c, "matrix::operator*", AB, pab);
    want_m(c, "matrix::operator*(scalar,matrix)", kk * B, p_smul(k, pb));
    want_m(c, "matrix::operator*(matrix,scalar)", A * kk, p_smul(k, pa));
    auto const tA = mx::transpose(A);
    auto const tB = mx::transpose(B);
    want_m(c, "matrix::transpose", tA, p_tr(pa));
    ident_m(c, "law:(A^T)^T=A", mx::transpose(tA), A);
    ident_m(c, "law:(AB)^T=B^T*A^T", mx::transpose(AB), tB * tA);
    T const dA = mx::determinant(A), dB = mx::determinant(B);
    ll const pda = p_det(pa);
    want_s(c, "matrix::determinant", dA, pda);
    ident_s(c, "law:det(AB)=det(A)*det(B)", mx::determinant(AB), dA * dB);
    ident_s(c, "law:det(A^T)=det(A)", mx::determinant(tA), dA);
    auto const adjA = mx::adjugate(A);
    want_m(c, "matrix::adjugate", adjA, p_adj(pa));
    auto const dI = dA * mx::identity<S>();
    ident_m(c, "law:A*adj(A)=det(A)*I", A * adjA, dI);
    ident_m(c, "law:adj(A)*A=det(A)*I", adjA * A, dI);
    if (pda == 0)
      VF_COUNT("matrix/det/zero");
    else
      VF_COUNT("matrix/det/nonzero");
    if (pa != p_tr(pa))
      VF_COUNT("matrix/nonsymmetric");
    if (pab != p_mul(pb, pa))
      VF_COUNT("matrix/noncommuting-pair");
    // comparison
    bool const same = pa == pb;
    want_b(c, "matrix::operator==", A == B, same);
    want_b(c, "matrix::operator!=", A != B, !same);
    if (same)
      VF_COUNT("matrix/cmp/equal");
    else
    {
      unsigned nd = 0;
      for (std::size_t i = 0; i < N; ++i)
        for (std::size_t j = 0; j < N; ++j)
          nd += pa[i][j] != pb[i][j];
      if (nd == 1)
        VF_COUNT("matrix/cmp/differ-in-one-entry");
      if (nd == 1 && pa[N - 1][N - 1] != pb[N - 1][N - 1])
        VF_COUNT("matrix/cmp/differ-in-last-entry-only");
      VF_COUNT("matrix/cmp/different");
    }
    {
      S const copyA{A};
      want_b(c, "matrix::operator==", copyA == A, true, "copy");
      want_b(c, "matrix::operator!=", A != copyA, false, "copy");
    }
    // compound assignment on a static and on a view target
    {
      S W{A};
      W += B;
      want_m(c, "matrix::object::operator+=", W, p_add(pa, pb));
      W -= B;
      want_m(c, "matrix::object::operator-=", W, pa);
      W -= B;
      want_m(c, "matrix::object::operator-=", W, p_sub(pa, pb));
      W *= kk;
      want_m(c, "matrix::object::operator*=", W, p_smul(k, p_sub(pa, pb)));
      std::array<T, N * N> buf{};
      for (std::size_t i = 0; i < N * N; ++i)
        buf[i] = static_cast<T>(pa[i / N][i % N]);
      V W2{typename op_t::vs_t{buf.data()}};
      W2 += B;
      want_m(c, "matrix::object::operator+=", W2, p_add(pa, pb), "view-target");
      W2 *= kk;
      want_m(c, "matrix::object::operator*=", W2, p_smul(k, p_add(pa, pb)), "view-target");
      W2 -= A;
      want_m(c, "matrix::object::operator-=", W2, p_sub(p_smul(k, p_add(pa, pb)), pa), "view-target");
    }
    // aliasing operands: the scalar refers to an element of the target, the right operand is the target itself
    {
      for (std::size_t ar = 0; ar < N; ++ar)
        for (std::size_t ac = 0; ac < N; ++ac)
        {
          VF_COUNT("judged/aliasing-operands");
          S Z{A};
          Z *= Z.get_unsafe(static_cast<size_type>(ar)).get_unsafe(static_cast<size_type>(ac));
          want_m(c, "matrix::object::operator*=", Z, p_smul(pa[ar][ac], pa), "scalar-aliases-element");
          std::array<T, N * N> zb{};
          for (std::size_t i = 0; i < N * N; ++i)
            zb[i] = static_cast<T>(pa[i / N][i % N]);
          V ZV{typename op_t::vs_t{zb.data()}};
          ZV *= ZV.get_unsafe(static_cast<size_type>(ar)).get_unsafe(static_cast<size_type>(ac));
          want_m(c, "matrix::object::operator*=", ZV, p_smul(pa[ar][ac], pa), "scalar-aliases-element-view-target");
        }
      S Z2{A};
      Z2 += Z2;
      want_m(c, "matrix::object::operator+=", Z2, p_smul(2, pa), "self-operand");
      Z2 -= Z2;
      want_m(c, "matrix::object::operator-=", Z2, p_smul(0, pa), "self-operand");
    }
  }

  // ---- three matrices
  template <class MA, class MB, class MC>
  static void triple(ctx const &c, MA const &A, MB const &B, MC const &C, P const &pa, P const &pb, P const &pc)
  {
    auto const AB = A * B;
    auto const BC = B * C;
    auto const AC = A * C;
    auto const l1 = AB * C;
    want_m(c, "matrix::operator*", l1, p_mul(p_mul(pa, pb), pc), "triple-product");
    ident_m(c, "law:(AB)C=A(BC)", l1, A * BC);
    auto const l2 = A * (B + C);
    want_m(c, "matrix::operator*", l2, p_mul(pa, p_add(pb, pc)), "product-of-sum");
    ident_m(c, "law:A(B+C)=AB+AC", l2, AB + AC);
    ident_m(c, "law:(A+B)C=AC+BC", (A + B) * C, AC + BC);
    ident_m(c, "law:A(B-C)=AB-AC", A * (B - C), AB - AC);
  }

  // ---- matrices and vectors
  template <class MA, class MB, class VU, class VV>
  static void matvec(ctx const &c, MA const &A, MB const &B, VU const &u, VV const &v, P const &pa, P const &pb,
                     PV const &pu, PV const &pvv)
  {
    auto const Au = A * u;
    want_v(c, "matrix::operator*(matrix,vector)", Au, p_mv(pa, pu));
    auto const Av = A * v;
    want_v(c, "matrix::operator*(matrix,vector)", Av, p_mv(pa, pvv));
    ident_v(c, "law:A(u+v)=Au+Av", A * (u + v), Au + Av);
    ident_v(c, "law:(AB)u=A(Bu)", (A * B) * u, A * (B * u));
    ident_v(c, "law:(A+B)u=Au+Bu", (A + B) * u, Au + B * u);
    ident_s(c, "law:(Au).v=u.(A^T*v)", fm::vector::dot(Au, fm::vector::static_<T, N>{v}),
            fm::vector::dot(fm::vector::static_<T, N>{u}, fm::matrix::transpose(A) * v));
    bool nz = false;
    for (auto x : p_mv(pa, pu))
      nz = nz || x != 0;
    if (nz)
      VF_COUNT("matrix/matvec/nonzero-result");
  }

  // dispatch on the storage configuration
  template <class F>
  static void with2(unsigned cfg, op_t &a, op_t &b, F const &f)
  {
    switch (cfg % 4U)
    {
    case 0:
    {
      S const x = a.st(), y = b.st();
      VF_COUNT("storage/matrix/static,static");
      f(x, y, "ss");
      break;
    }
    case 1:
    {
      V const x = a.vw(), y = b.vw();
      VF_COUNT("storage/matrix/view,view");
      f(x, y, "vv");
      break;
    }
    case 2:
    {
      S const x = a.st();
      V const y = b.vw();
      VF_COUNT("storage/matrix/static,view");
      f(x, y, "sv");
      break;
    }
    default:
    {
      V const x = a.vw();
      S const y = b.st();
      VF_COUNT("storage/matrix/view,static");
      f(x, y, "vs");
      break;
    }
    }
  }
  // a third operand: static for even, view for odd
  template <class F>
  static void with1(unsigned cfg, op_t &a, F const &f)
  {
    if (cfg % 2U == 0)
    {
      S const x = a.st();
      f(x, "s");
    }
    else
    {
      V const x = a.vw();
      f(x, "v");
    }
  }
  static void run_unary(op_t &a, unsigned cfg)
  {
    with1(cfg, a, [&](auto const &A, char const *cn) {
      ctx c{inst(cn), [&] { return "A=" + show(a.p); }};
      unary(c, A, a.p);
    });
  }
  static void run_pair(op_t &a, op_t &b, ll k, unsigned cfg)
  {
    with2(cfg, a, b, [&](auto const &A, auto const &B, char const *cn) {
      ctx c{inst(cn), [&] { return "A=" + show(a.p) + " B=" + show(b.p) + " k=" + std::to_string(k); }};
      pair(c, A, B, a.p, b.p, k);
    });
  }
  static void run_triple(op_t &a, op_t &b, op_t &cm, unsigned cfg)
  {
    // configurations: sss, vvv, svs, vsv
    with2(cfg, a, b, [&](auto const &A, auto const &B, char const *cn) {
      with1(cfg, cm, [&](auto const &C, char const *c3) {
        ctx c{inst((std::string(cn) + c3).c_str()),
              [&] { return "A=" + show(a.p) + " B=" + show(b.p) + " C=" + show(cm.p); }};
        triple(c, A, B, C, a.p, b.p, cm.p);
      });
    });
  }
  static void run_matvec(op_t &a, op_t &b, vec_t &u, vec_t &v, unsigned cfg)
  {
    // matrix storage from cfg % 2, vector storages from cfg / 2
    with1(cfg, a, [&](auto const &A, char const *cn) {
      S const B = b.st();
      withvec2(cfg / 2U, u, v, [&](auto const &U, auto const &Vv, char const *vn) {
        ctx c{inst((std::string(cn) + "*" + vn).c_str()), [&] {
                return "A=" + show(a.p) + " B=" + show(b.p) + " u=" + show(u.p) + " v=" + show(v.p);
              }};
        matvec(c, A, B, U, Vv, a.p, b.p, u.p, v.p);
      });
    });
  }
};

// ------------------------------------------------------------------ vector and dim laws
struct vec_kind
{
  static constexpr bool is_vector = true;
  static char const *name() { return "vector"; }
  template <class T, size_type N>
  using st = fm::vector::static_<T, N>;
  template <class T, size_type N, class S>
  using obj = fm::vector::object<T, N, S>;
  template <class T, size_type N>
  using op = vec_op<T, N>;
  template <class V>
  static auto null() { return fm::vector::null<V>(); }
  template <class V>
  static V fill(typename V::value_type const &k) { return fm::vector::fill<V>(k); }
  template <class V, class F>
  static V init(F const &f) { return fm::vector::init<V>(f); }
  template <class D, class V>
  static D narrow(V const &v) { return fm::vector::narrow_cast<D>(v); }
  template <class V, class T>
  static auto push(V const &v, T const &k) { return fm::vector::push_back(v, k); }
  template <class D, class V>
  static D scast(V const &v) { return fm::vector::structure_cast<D, fcppt::cast::static_cast_fun>(v); }
  template <size_type I, class V>
  static decltype(auto) at(V &v) { return fm::vector::at<I>(v); }
};
struct dim_kind
{
  static constexpr bool is_vector = false;
  static char const *name() { return "dim"; }
  template <class T, size_type N>
  using st = fm::dim::static_<T, N>;
  template <class T, size_type N, class S>
  using obj = fm::dim::object<T, N, S>;
  template <class T, size_type N>
  using op = dim_op<T, N>;
  template <class V>
  static auto null() { return fm::dim::null<V>(); }
  template <class V>
  static V fill(typename V::value_type const &k) { return fm::dim::fill<V>(k); }
  template <class V, class F>
  static V init(F const &f) { return fm::dim::init<V>(f); }
  template <class D, class V>
  static D narrow(V const &v) { return fm::dim::narrow_cast<D>(v); }
  template <class V, class T>
  static auto push(V const &v, T const &k) { return fm::dim::push_back(v, k); }
  template <class D, class V>
  static D scast(V const &v) { return fm::dim::structure_cast<D, fcppt::cast::static_cast_fun>(v); }
  template <size_type I, class V>
  static decltype(auto) at(V &v) { return fm::dim::at<I>(v); }
};

template <class K, class T, size_type N>
struct vl
{
  using PV = pv<N>;
  using op_t = typename K::template op<T, N>;
  using S = typename K::template st<T, N>;
  using VS = view_storage<T, N>;
  using V = typename K::template obj<T, N, VS>;

  static std::string inst(char const *cfg)
  {
    return std::string(tn<T>()) + "," + std::to_string(N) + "," + cfg;
  }
  static std::string opn(char const *what) { return std::string(K::name()) + "::" + what; }

  template <class U>
  static void unary(ctx const &c, U const &u, PV const &pu, ll k)
  {
    T const kk = static_cast<T>(k);
    // read access
    static_for<N>([&](auto i) {
      constexpr size_type I = decltype(i)::value;
      want_s(c, opn("at").c_str(), K::template at<I>(u), pu[I]);
      want_s(c, opn("object::get_unsafe").c_str(), u.get_unsafe(I), pu[I]);
    });
    if constexpr (K::is_vector)
    {
      want_s(c, "vector::object::x", u.x(), pu[0]);
      if constexpr (N >= 2)
        want_s(c, "vector::object::y", u.y(), pu[1]);
      if constexpr (N >= 3)
        want_s(c, "vector::object::z", u.z(), pu[2]);
      if constexpr (N >= 4)
        want_s(c, "vector::object::w", u.w(), pu[3]);
    }
    else
    {
      want_s(c, "dim::object::w", u.w(), pu[0]);
      if constexpr (N >= 2)
        want_s(c, "dim::object::h", u.h(), pu[1]);
      if constexpr (N >= 3)
        want_s(c, "dim::object::d", u.d(), pu[2]);
    }
    // the NON-CONST overloads of the same accessors (reads through a mutable reference change nothing), and writes
    // through them on a static copy: each named accessor reaches its own component
    {
      U &mu = const_cast<U &>(u);
      static_for<N>([&](auto i) {
        constexpr size_type I = decltype(i)::value;
        want_s(c, opn("at(non-const)").c_str(), K::template at<I>(mu), pu[I]);
        want_s(c, opn("object::get_unsafe(non-const)").c_str(), mu.get_unsafe(I), pu[I]);
      });
      if constexpr (K::is_vector)
      {
        want_s(c, "vector::object::x(non-const)", mu.x(), pu[0]);
        if constexpr (N >= 2)
          want_s(c, "vector::object::y(non-const)", mu.y(), pu[1]);
        if constexpr (N >= 3)
          want_s(c, "vector::object::z(non-const)", mu.z(), pu[2]);
        if constexpr (N >= 4)
          want_s(c, "vector::object::w(non-const)", mu.w(), pu[3]);
        fm::vector::static_<T, N> w{fcppt::no_init{}};
        for (size_type j = 0; j < N; ++j)
          w.get_unsafe(j) = static_cast<T>(0);
        w.x() = static_cast<T>(11);
        if constexpr (N >= 2)
          w.y() = static_cast<T>(22);
        if constexpr (N >= 3)
          w.z() = static_cast<T>(33);
        if constexpr (N >= 4)
          w.w() = static_cast<T>(44);
        for (size_type j = 0; j < N; ++j)
          want_s(c, "vector::object::named-accessor-write", w.get_unsafe(j), static_cast<ll>(11 * (j + 1)));
      }
      else
      {
        want_s(c, "dim::object::w(non-const)", mu.w(), pu[0]);
        if constexpr (N >= 2)
          want_s(c, "dim::object::h(non-const)", mu.h(), pu[1]);
        if constexpr (N >= 3)
          want_s(c, "dim::object::d(non-const)", mu.d(), pu[2]);
        fm::dim::static_<T, N> w{fcppt::no_init{}};
        for (size_type j = 0; j < N; ++j)
          w.get_unsafe(j) = static_cast<T>(0);
        w.w() = static_cast<T>(11);
        if constexpr (N >= 2)
          w.h() = static_cast<T>(22);
        if constexpr (N >= 3)
          w.d() = static_cast<T>(33);
        for (size_type j = 0; j < std::min<size_type>(N, 3); ++j)
          want_s(c, "dim::object::named-accessor-write", w.get_unsafe(j), static_cast<ll>(11 * (j + 1)));
      }
    }
    // negation and scalar products
    want_v(c, opn("operator-(unary)").c_str(), -u, p_vsmul(-1, pu));
    want_v(c, opn("operator*(scalar,x)").c_str(), kk * u, p_vsmul(k, pu));
    want_v(c, opn("operator*(x,scalar)").c_str(), u * kk, p_vsmul(k, pu));
    // null, fill, init
    want_v(c, opn("null").c_str(), K::template null<U>(), PV{});
    {
      PV f{};
      f.fill(k);
      want_v(c, opn("fill").c_str(), K::template fill<S>(kk), f);
    }
    want_v(c, opn("init").c_str(), K::template init<S>([&pu](size_type i) { return static_cast<T>(pu[i]); }), pu);
    {
      PV idx{};
      for (std::size_t i = 0; i < N; ++i)
        idx[i] = static_cast<ll>(3 * i + 1);
      want_v(c, opn("init").c_str(), K::template init<S>([](size_type i) { return static_cast<T>(3 * i + 1); }), idx,
             "index");
    }
    // conversions
    {
      S const copy{u};
      want_v(c, opn("object(other storage)").c_str(), copy, pu);
      S assigned{K::template fill<S>(static_cast<T>(42))};
      assigned = u;
      want_v(c, opn("object::operator=(other storage)").c_str(), assigned, pu, "static-target");
      using O = std::conditional_t<std::is_same_v<T, int>, long, int>;
      want_v(c, opn("structure_cast").c_str(), K::template scast<typename K::template st<O, N>>(u), pu);
    }
    // narrow_cast to every smaller dimension, push_back
    static_for<N>([&](auto m) {
      constexpr size_type M = decltype(m)::value;
      if constexpr (M >= 1)
      {
        pv<M> w{};
        for (std::size_t i = 0; i < M; ++i)
          w[i] = pu[i];
        want_v(c, opn("narrow_cast").c_str(), K::template narrow<typename K::template st<T, M>>(u), w);
      }
    });
    {
      pv<N + 1> w{};
      for (std::size_t i = 0; i < N; ++i)
        w[i] = pu[i];
      w[N] = k;
      auto const pb = K::push(u, kk);
      want_v(c, opn("push_back").c_str(), pb, w);
      ident_v(c, (std::string("law:narrow_cast(push_back(x,k))=x/") + K::name()).c_str(),
              K::template narrow<S>(pb), u);
    }
    // write access on a static and a view target
    {
      S W{u};
      PV pw = pu;
      static_for<N>([&](auto i) {
        constexpr size_type I = decltype(i)::value;
        K::template at<I>(W) = static_cast<T>(50 + I);
        pw[I] = 50 + I;
        want_v(c, opn("at").c_str(), W, pw, "write");
      });
      std::array<T, N> buf{};
      V W2{VS{buf.data()}};
      W2 = W;
      want_v(c, opn("object::operator=(other storage)").c_str(), W2, pw);
      W2.get_unsafe(N - 1) = static_cast<T>(-3);
      pw[N - 1] = -3;
      for (std::size_t i = 0; i < N; ++i)
        want_s(c, opn("object::get_unsafe").c_str(), buf[i], pw[i], "write-through-view");
    }
  }

  template <class U, class W>
  static void pair(ctx const &c, U const &u, W const &v, PV const &pu, PV const &pw, ll k)
  {
    T const kk = static_cast<T>(k);
    want_v(c, opn("operator+").c_str(), u + v, p_zip(pu, pw, std::plus<ll>{}));
    want_v(c, opn("operator-").c_str(), u - v, p_zip(pu, pw, std::minus<ll>{}));
    want_v(c, opn("operator*").c_str(), u * v, p_zip(pu, pw, std::multiplies<ll>{}));
    ident_v(c, (std::string("law:k(u+v)=ku+kv/") + K::name()).c_str(), kk * (u + v), kk * u + kk * v);
    ident_v(c, (std::string("law:u-v=u+(-v)/") + K::name()).c_str(), u - v, u + (-v));
    // equality
    bool const same = pu == pw;
    want_b(c, opn("operator==").c_str(), u == v, same);
    want_b(c, opn("operator!=").c_str(), u != v, !same);
    {
      S const copy{u};
      want_b(c, opn("operator==").c_str(), copy == u, true, "copy");
      want_b(c, opn("operator!=").c_str(), u != copy, false, "copy");
    }
    // compound assignment, static and view targets
    {
      S X{u};
      X += v;
      want_v(c, opn("object::operator+=").c_str(), X, p_zip(pu, pw, std::plus<ll>{}));
      X -= v;
      X -= v;
      want_v(c, opn("object::operator-=").c_str(), X, p_zip(pu, pw, std::minus<ll>{}));
      X *= v;
      auto const prod = p_zip(p_zip(pu, pw, std::minus<ll>{}), pw, std::multiplies<ll>{});
      want_v(c, opn("object::operator*=").c_str(), X, prod);
      X *= kk;
      want_v(c, opn("object::operator*=(scalar)").c_str(), X, p_vsmul(k, prod));
      std::array<T, N> buf{};
      for (std::size_t i = 0; i < N; ++i)
        buf[i] = static_cast<T>(pu[i]);
      V Y{VS{buf.data()}};
      Y += v;
      want_v(c, opn("object::operator+=").c_str(), Y, p_zip(pu, pw, std::plus<ll>{}), "view-target");
      Y *= kk;
      want_v(c, opn("object::operator*=(scalar)").c_str(), Y, p_vsmul(k, p_zip(pu, pw, std::plus<ll>{})), "view-target");
      Y -= u;
      Y *= v;
      want_v(c, opn("object::operator*=").c_str(), Y,
             p_zip(p_zip(p_vsmul(k, p_zip(pu, pw, std::plus<ll>{})), pu, std::minus<ll>{}), pw, std::multiplies<ll>{}),
             "view-target");
    }
    // aliasing operands: the scalar refers to a component of the target, the right operand is the target itself
    {
      for (std::size_t ai = 0; ai < N; ++ai)
      {
        VF_COUNT("judged/aliasing-operands");
        S Z{u};
        Z *= Z.get_unsafe(static_cast<size_type>(ai));
        want_v(c, opn("object::operator*=(scalar)").c_str(), Z, p_vsmul(pu[ai], pu), "scalar-aliases-component");
        std::array<T, N> zb{};
        for (std::size_t i = 0; i < N; ++i)
          zb[i] = static_cast<T>(pu[i]);
        V ZV{VS{zb.data()}};
        ZV *= ZV.get_unsafe(static_cast<size_type>(ai));
        want_v(c, opn("object::operator*=(scalar)").c_str(), ZV, p_vsmul(pu[ai], pu), "scalar-aliases-component-view-target");
      }
      S Z2{u};
      Z2 += Z2;
      want_v(c, opn("object::operator+=").c_str(), Z2, p_vsmul(2, pu), "self-operand");
      Z2 *= Z2;
      want_v(c, opn("object::operator*=").c_str(), Z2, p_zip(p_vsmul(2, pu), p_vsmul(2, pu), std::multiplies<ll>{}), "self-operand");
      Z2 -= Z2;
      want_v(c, opn("object::operator-=").c_str(), Z2, p_vsmul(0, pu), "self-operand");
    }
    if constexpr (K::is_vector)
    {
      namespace vx = fm::vector;
      ll const d = p_dot(pu, pw);
      want_s(c, "vector::dot", vx::dot(u, v), d);
      ident_s(c, "law:u.v=v.u", vx::dot(u, v), vx::dot(v, u));
      want_s(c, "vector::length_square", vx::length_square(u), p_dot(pu, pu));
      ident_s(c, "law:length_square(u)=u.u", vx::length_square(u), vx::dot(u, u));
      ident_s(c, "law:(u+v).(u+v)=u.u+2u.v+v.v", vx::length_square(u + v),
              vx::length_square(u) + 2 * vx::dot(u, v) + vx::length_square(v));
      if (d != 0)
        VF_COUNT("vector/dot/nonzero");
      if constexpr (N == 3)
      {
        auto const cr = vx::cross(u, v);
        auto const pc = p_cross(pu, pw);
        want_v(c, "vector::cross", cr, pc);
        ident_v(c, "law:uxv=-(vxu)", cr, -vx::cross(v, u));
        ident_s(c, "law:u.(uxv)=0", vx::dot(S{u}, cr), 0);
        ident_s(c, "law:v.(uxv)=0", vx::dot(cr, v), 0);
        ident_s(c, "law:|uxv|^2=|u|^2|v|^2-(u.v)^2", vx::length_square(cr),
                vx::length_square(u) * vx::length_square(v) - vx::dot(u, v) * vx::dot(u, v));
        if (pc != pv<3>{})
          VF_COUNT("vector/cross/nonzero");
        else
          VF_COUNT("vector/cross/zero");
      }
    }
  }

  // ordering needs both operands of the same type
  template <class U>
  static void order(ctx const &c, U const &u, U const &v, PV const &pu, PV const &pw)
  {
    want_b(c, opn("operator<").c_str(), u < v, pu < pw);
    want_b(c, opn("operator>").c_str(), u > v, pu > pw);
    want_b(c, opn("operator<=").c_str(), u <= v, pu <= pw);
    want_b(c, opn("operator>=").c_str(), u >= v, pu >= pw);
    want_b(c, opn("operator<").c_str(), v < u, pw < pu, "swapped");
    if (pu == pw)
      VF_COUNT("cmp/equal");
    else
    {
      std::size_t first = 0;
      while (pu[first] == pw[first])
        ++first;
      if (first == N - 1)
        VF_COUNT("cmp/differ-in-last-component-only");
      if (first > 0 || N == 1)
        VF_COUNT("cmp/equal-prefix-then-different");
      bool later_opposite = false;
      for (std::size_t i = first + 1; i < N; ++i)
        later_opposite = later_opposite || ((pu[i] < pw[i]) != (pu[first] < pw[first]) && pu[i] != pw[i]);
      if (later_opposite)
        VF_COUNT("cmp/later-component-ordered-the-other-way");
      if (pu < pw)
        VF_COUNT("cmp/less");
      else
        VF_COUNT("cmp/greater");
    }
  }

  template <class F>
  static void with2(unsigned cfg, op_t &u, op_t &v, F const &f)
  {
    if constexpr (K::is_vector)
      withvec2(cfg, u, v, f);
    else
      switch (cfg % 4U)
      {
      case 0:
      {
        auto const x = u.st(), y = v.st();
        VF_COUNT("storage/dim/static,static");
        f(x, y, "ss");
        break;
      }
      case 1:
      {
        auto const x = u.vw(), y = v.vw();
        VF_COUNT("storage/dim/view,view");
        f(x, y, "vv");
        break;
      }
      case 2:
      {
        auto const x = u.st();
        auto const y = v.vw();
        VF_COUNT("storage/dim/static,view");
        f(x, y, "sv");
        break;
      }
      default:
      {
        auto const x = u.vw();
        auto const y = v.st();
        VF_COUNT("storage/dim/view,static");
        f(x, y, "vs");
        break;
      }
      }
  }

  // everything for one pair of operands; cfg selects the storage combination
  static void run(pv<N> const &pu, pv<N> const &pw, ll k, unsigned cfg)
  {
    op_t u(pu), v(pw);
    auto desc = [&] { return "u=" + show(pu) + " v=" + show(pw) + " k=" + std::to_string(k); };
    with2(cfg, u, v, [&](auto const &U, auto const &W, char const *cn) {
      ctx c{inst(cn), desc};
      pair(c, U, W, pu, pw, k);
      if constexpr (std::is_same_v<std::remove_cvref_t<decltype(U)>, std::remove_cvref_t<decltype(W)>>)
        order(c, U, W, pu, pw);
      unary(c, U, pu, k);
    });
    if constexpr (K::is_vector)
    {
      // rows of the same matrix type have the same type, so they can be ordered
      if (cfg % 6U >= 4U)
      {
        ctx c{inst("rr"), desc};
        order(c, u.rs(), v.rs(), pu, pw);
        ctx c2{inst("qq"), desc};
        order(c2, u.rv(), v.rv(), pu, pw);
      }
    }
  }
};

// ------------------------------------------------------------------ generators
template <std::size_t N>
pv<N> rnd_vec(vf::rng &g)
{
  pv<N> v{};
  switch (g.below(6))
  {
  case 0: // sparse
    for (auto &x : v)
      x = g.chance(1, 3) ? g.range(-9, 9) : 0;
    break;
  case 1: // small
    for (auto &x : v)
      x = g.range(-1, 1);
    break;
  default:
    for (auto &x : v)
      x = g.range(-9, 9);
  }
  return v;
}
// a second operand that is often close to the first one (equality and ordering need near misses)
template <std::size_t N>
pv<N> rnd_vec_near(vf::rng &g, pv<N> const &u)
{
  switch (g.below(8))
  {
  case 0:
    return u;
  case 1:
  case 2:
  {
    pv<N> v = u;
    std::size_t i = g.chance(1, 2) ? N - 1 : static_cast<std::size_t>(g.below(N));
    v[i] = v[i] >= 9 ? v[i] - 1 : (v[i] <= -9 ? v[i] + 1 : v[i] + (g.chance(1, 2) ? 1 : -1));
    // make the components after the first difference disagree the other way round
    for (std::size_t j = i + 1; j < N; ++j)
      if (g.chance(1, 2))
        v[j] = v[i] < u[i] ? 9 : -9;
    return v;
  }
  default:
    return rnd_vec<N>(g);
  }
}
template <std::size_t N>
pm<N, N> rnd_matrix(vf::rng &g)
{
  pm<N, N> m{};
  auto uniform = [&](ll lo, ll hi) {
    for (auto &r : m)
      for (auto &x : r)
        x = g.range(lo, hi);
  };
  switch (g.below(10))
  {
  case 0: // sparse
    for (auto &r : m)
      for (auto &x : r)
        x = g.chance(1, 3) ? g.range(-9, 9) : 0;
    break;
  case 1: // singular: one row repeats another
  {
    uniform(-9, 9);
    std::size_t i = static_cast<std::size_t>(g.below(N)), j = static_cast<std::size_t>(g.below(N));
    if (i != j)
      m[j] = m[i];
    else
      m[i].fill(0);
    break;
  }
  case 2: // symmetric
    uniform(-9, 9);
    for (std::size_t i = 0; i < N; ++i)
      for (std::size_t j = 0; j < i; ++j)
        m[i][j] = m[j][i];
    break;
  case 3: // small entries (determinant +-1 is frequent)
    uniform(-1, 1);
    break;
  case 4: // signed permutation matrix
  {
    std::array<std::size_t, N> perm{};
    std::iota(perm.begin(), perm.end(), std::size_t{0});
    for (std::size_t i = N; i > 1; --i)
      std::swap(perm[i - 1], perm[static_cast<std::size_t>(g.below(i))]);
    for (std::size_t i = 0; i < N; ++i)
      m[i][perm[i]] = g.chance(1, 2) ? 1 : -1;
    break;
  }
  case 5: // upper triangular
    uniform(-9, 9);
    for (std::size_t i = 0; i < N; ++i)
      for (std::size_t j = 0; j < i; ++j)
        m[i][j] = 0;
    break;
  default:
    uniform(-9, 9);
  }
  return m;
}
template <std::size_t N>
pm<N, N> rnd_matrix_near(vf::rng &g, pm<N, N> const &a)
{
  switch (g.below(12))
  {
  case 0:
    return a;
  case 1:
  case 2:
  {
    pm<N, N> b = a;
    std::size_t i = N - 1, j = N - 1;
    if (g.chance(1, 2))
    {
      i = static_cast<std::size_t>(g.below(N));
      j = static_cast<std::size_t>(g.below(N));
    }
    b[i][j] = b[i][j] >= 9 ? 8 : b[i][j] + 1;
    return b;
  }
  default:
    return rnd_matrix<N>(g);
  }
}

// the 256 2x2 matrices over {-1,0,1,2}; index digits are the entries in row-major order
inline pm<2, 2> m2_of(unsigned idx)
{
  pm<2, 2> m{};
  for (std::size_t i = 0; i < 4; ++i)
    m[i / 2][i % 2] = static_cast<ll>((idx >> (2 * (3 - i))) & 3U) - 1;
  return m;
}
inline pv<2> v2_of(unsigned idx) { return pv<2>{static_cast<ll>((idx >> 2) & 3U) - 1, static_cast<ll>(idx & 3U) - 1}; }

// ------------------------------------------------------------------ entries
// all 2x2 matrices over {-1,0,1,2}: one matrix, all pairs, matrix-vector
void m2_unary_pairs()
{
  using L = ml<int, 2>;
  std::string e = "matrix<int,2x2>/unary";
  if (vf::entry_enabled(e))
  {
    vf::set_entry(e);
    for (unsigned a = 0; a < 256; ++a)
    {
      if (!vf::mine(a))
        continue;
      L::op_t A(m2_of(a));
      if (!vf::begin_case("A=#%u %s storage=static,view", a, show(A.p).c_str()))
        continue;
      vf::sample_case(1);
      vf::add_evals(1);
      vf::note_distinct(vf::hash_mix(vf::hash_str(e), a));
      for (unsigned cfg = 0; cfg < 2; ++cfg)
      {
        vf::operands(a, cfg);
        L::run_unary(A, cfg);
      }
    }
  }
  e = "matrix<int,2x2>/pairs";
  if (vf::entry_enabled(e))
  {
    vf::set_entry(e);
    for (unsigned a = 0; a < 256; ++a)
    {
      if (!vf::mine(a))
        continue;
      L::op_t A(m2_of(a));
      for (unsigned cfg = 0; cfg < 4; ++cfg)
      {
        if (!vf::begin_case("A=#%u %s cfg=%u B=all 256 matrices over {-1,0,1,2} (ops: a b cfg)", a, show(A.p).c_str(), cfg))
          continue;
        vf::sample_case(1);
        vf::add_evals(255);
        vf::note_distinct(vf::hash_mix(vf::hash_str(e), a * 4 + cfg));
        for (unsigned b = 0; b < 256; ++b)
        {
          vf::operands(a, b, cfg);
          L::op_t B(m2_of(b));
          VF_COUNT("m2/pairs");
          L::run_pair(A, B, static_cast<ll>((a * 7U + b * 3U + cfg) % 19U) - 9, cfg);
        }
      }
    }
  }
  e = "matrix<int,2x2>/vectors";
  if (vf::entry_enabled(e))
  {
    vf::set_entry(e);
    for (unsigned a = 0; a < 256; ++a)
    {
      if (!vf::mine(a))
        continue;
      L::op_t A(m2_of(a));
      unsigned const bi = (a * 37U + 11U) % 256U;
      L::op_t B(m2_of(bi));
      if (!vf::begin_case("A=#%u %s B=#%u u,v=all 16x16 vectors over {-1,0,1,2} (ops: a u v cfg)", a, show(A.p).c_str(), bi))
        continue;
      vf::sample_case(1);
      vf::add_evals(255);
      vf::note_distinct(vf::hash_mix(vf::hash_str(e), a));
      for (unsigned ui = 0; ui < 16; ++ui)
        for (unsigned vi = 0; vi < 16; ++vi)
        {
          unsigned const cfg = (a + ui * 5U + vi) % 12U;
          vf::operands(a, ui, vi, cfg);
          L::vec_t u(v2_of(ui)), v(v2_of(vi));
          VF_COUNT("m2/matvec");
          L::run_matvec(A, B, u, v, cfg);
        }
    }
  }
}

void m2_triples()
{
  using L = ml<int, 2>;
  std::string e = "matrix<int,2x2>/triples";
  if (!vf::entry_enabled(e))
    return;
  vf::set_entry(e);
  bool const all = vf::thorough();
  for (unsigned a = 0; a < 256; ++a)
  {
    if (!vf::mine(a))
      continue;
    L::op_t A(m2_of(a));
    vf::rng g(vf::seed_for(e, a));
    if (!vf::begin_case("A=#%u %s B=all 256 C=%s (ops: a b c cfg)", a, show(A.p).c_str(),
                        all ? "all 256" : "3 per (A,B), seeded"))
      continue;
    vf::sample_case(1);
    vf::note_distinct(vf::hash_mix(vf::hash_str(e), vf::hash_mix(a, all ? 0 : g.s)));
    for (unsigned b = 0; b < 256; ++b)
    {
      L::op_t B(m2_of(b));
      unsigned const nc = all ? 256U : 3U;
      for (unsigned ci = 0; ci < nc; ++ci)
      {
        unsigned const cidx = all ? ci : static_cast<unsigned>(g.below(256));
        unsigned const cfg = (a + b + cidx) % 4U;
        vf::operands(a, b, cidx, cfg);
        L::op_t C(m2_of(cidx));
        VF_COUNT("m2/triples");
        L::run_triple(A, B, C, cfg);
      }
      vf::add_evals(nc);
    }
  }
}

template <class T, size_type N, bool Algebra, bool Products>
void random_matrices(char const *suffix)
{
  using L = ml<T, N>;
  std::string e = std::string("matrix<") + tn<T>() + "," + std::to_string(N) + "x" + std::to_string(N) + ">/" + suffix;
  if (!vf::entry_enabled(e))
    return;
  vf::set_entry(e);
  std::uint64_t const n = vf::tier<std::uint64_t>(10000, 1000000);
  for (std::uint64_t i = 0; i < n; ++i)
  {
    if (!vf::mine(i))
      continue;
    vf::rng g(vf::seed_for(e, i));
    typename L::op_t A(rnd_matrix<N>(g));
    typename L::op_t B(rnd_matrix_near<N>(g, A.p));
    typename L::op_t C(rnd_matrix<N>(g));
    typename L::vec_t u(rnd_vec<N>(g)), v(rnd_vec<N>(g));
    ll const k = g.range(-9, 9);
    unsigned const cfg = static_cast<unsigned>(g.next() & 0xffffU);
    if (!vf::begin_case("i=%llu cfg=%u A=%s B=%s C=%s u=%s v=%s k=%lld", static_cast<unsigned long long>(i), cfg,
                        show(A.p).c_str(), show(B.p).c_str(), show(C.p).c_str(), show(u.p).c_str(),
                        show(v.p).c_str(), k))
      continue;
    vf::sample_case(2);
    vf::note_distinct(hash_pm(A.p, hash_pm(B.p, hash_pm(C.p, vf::hash_mix(vf::hash_str(e), cfg)))));
    if constexpr (Algebra)
    {
      VF_COUNT("random/matrix-algebra-cases");
      L::run_unary(A, cfg);
      L::run_pair(A, B, k, cfg >> 1);
    }
    if constexpr (Products)
    {
      VF_COUNT("random/matrix-product-cases");
      L::run_triple(A, B, C, cfg >> 3);
      L::run_matvec(A, B, u, v, cfg >> 5);
    }
  }
}

// translation and scaling builders (4x4, homogeneous coordinates), all (x,y,z) in [-9,9]^3
template <class T, bool Laws>
void builders()
{
  std::string e = std::string("matrix<") + tn<T>() + ",4x4>/builders";
  if (!vf::entry_enabled(e))
    return;
  vf::set_entry(e);
  namespace mx = fm::matrix;
  using M4 = mx::static_<T, 4, 4>;
  for (int x = -9; x <= 9; ++x)
  {
    if (!vf::mine(static_cast<unsigned>(x + 9)))
      continue;
    if (!vf::begin_case("x=%d y,z=all of [-9,9]^2 (ops: x y z)", x))
      continue;
    vf::sample_case(1);
    vf::add_evals(19 * 19 - 1);
    vf::note_distinct(vf::hash_mix(vf::hash_str(e), static_cast<std::uint64_t>(x + 9)));
    for (int y = -9; y <= 9; ++y)
      for (int z = -9; z <= 9; ++z)
      {
        vf::operands(x, y, z);
        VF_COUNT("builders/cases");
        ctx c{std::string(tn<T>()) + ",4x4",
              [&] { return "x=" + std::to_string(x) + " y=" + std::to_string(y) + " z=" + std::to_string(z); }};
        pm<4, 4> pt = p_id<4>(), ps = p_id<4>();
        pt[0][3] = x;
        pt[1][3] = y;
        pt[2][3] = z;
        ps[0][0] = x;
        ps[1][1] = y;
        ps[2][2] = z;
        T const tx = static_cast<T>(x), ty = static_cast<T>(y), tz = static_cast<T>(z);
        vec_op<T, 3> t(pv<3>{x, y, z});
        M4 const Tm = mx::translation(tx, ty, tz);
        M4 const Sm = mx::scaling(tx, ty, tz);
        want_m(c, "matrix::translation", Tm, pt);
        want_m(c, "matrix::scaling", Sm, ps);
        switch ((x + y + z + 27) % 4)
        {
        case 0:
          want_m(c, "matrix::translation(vector)", mx::translation(t.st()), pt, "s");
          want_m(c, "matrix::scaling(vector)", mx::scaling(t.vw()), ps, "v");
          break;
        case 1:
          want_m(c, "matrix::translation(vector)", mx::translation(t.vw()), pt, "v");
          want_m(c, "matrix::scaling(vector)", mx::scaling(t.st()), ps, "s");
          break;
        case 2:
          want_m(c, "matrix::translation(vector)", mx::translation(t.rs()), pt, "r");
          want_m(c, "matrix::scaling(vector)", mx::scaling(t.rv()), ps, "q");
          break;
        default:
          want_m(c, "matrix::translation(vector)", mx::translation(t.rv()), pt, "q");
          want_m(c, "matrix::scaling(vector)", mx::scaling(t.rs()), ps, "r");
        }
        if constexpr (Laws)
        {
          // a point p=(2,-3,5,1) is moved / scaled; translations compose by adding
          fm::vector::static_<T, 4> const p(static_cast<T>(2), static_cast<T>(-3), static_cast<T>(5), static_cast<T>(1));
          want_v(c, "law:translation(t)*(p,1)=(p+t,1)", Tm * p, pv<4>{2 + x, -3 + y, 5 + z, 1});
          want_v(c, "law:scaling(s)*(p,1)=(s*p,1)", Sm * p, pv<4>{2 * x, -3 * y, 5 * z, 1});
          ident_m(c, "law:translation(a)*translation(b)=translation(a+b)",
                  Tm * mx::translation(static_cast<T>(z), static_cast<T>(x), static_cast<T>(-y)),
                  mx::translation(static_cast<T>(x + z), static_cast<T>(y + x), static_cast<T>(z - y)));
          want_s(c, "law:det(scaling(x,y,z))=xyz", mx::determinant(Sm), static_cast<ll>(x) * y * z);
          want_s(c, "law:det(translation)=1", mx::determinant(Tm), 1);
        }
      }
  }
}

template <class K, class T, size_type N>
void random_vectors()
{
  using L = vl<K, T, N>;
  std::string const base = std::string(K::name()) + "<" + tn<T>() + "," + std::to_string(N) + ">";
  std::string e = base + "/random";
  if (vf::entry_enabled(e))
  {
    vf::set_entry(e);
    std::uint64_t const n = vf::tier<std::uint64_t>(10000, 1000000);
    for (std::uint64_t i = 0; i < n; ++i)
    {
      if (!vf::mine(i))
        continue;
      vf::rng g(vf::seed_for(e, i));
      pv<N> const u = rnd_vec<N>(g);
      pv<N> const v = rnd_vec_near<N>(g, u);
      ll const k = g.range(-9, 9);
      unsigned const cfg = static_cast<unsigned>(g.below(12));
      if (!vf::begin_case("i=%llu cfg=%u u=%s v=%s k=%lld", static_cast<unsigned long long>(i), cfg, show(u).c_str(),
                          show(v).c_str(), k))
        continue;
      vf::sample_case(1);
      vf::note_distinct(hash_ll(u.data(), N, hash_ll(v.data(), N, vf::hash_mix(vf::hash_str(e), cfg * 32U + static_cast<unsigned>(k + 9)))));
      VF_COUNT("random/vector-dim-cases");
      L::run(u, v, k, cfg);
    }
  }
  // exhaustive part: dimension 1 all pairs in every storage combination; dimension 2 all u, v sampled (quick) or all (thorough)
  if constexpr (N <= 2)
  {
    e = base + "/exhaustive";
    if (!vf::entry_enabled(e))
      return;
    vf::set_entry(e);
    unsigned const total = N == 1 ? 19U : 361U;
    auto of = [](unsigned idx) {
      pv<N> r{};
      if constexpr (N == 1)
        r[0] = static_cast<ll>(idx) - 9;
      else
      {
        r[0] = static_cast<ll>(idx / 19U) - 9;
        r[1] = static_cast<ll>(idx % 19U) - 9;
      }
      return r;
    };
    unsigned const ncfg = K::is_vector ? 6U : 4U;
    for (unsigned ui = 0; ui < total; ++ui)
    {
      if (!vf::mine(ui))
        continue;
      pv<N> const u = of(ui);
      bool const allv = N == 1 || vf::thorough();
      vf::rng g(vf::seed_for(e, ui));
      if (!vf::begin_case("u=%s v=%s (ops: u v cfg)", show(u).c_str(), allv ? "all of [-9,9]^N" : "24 seeded"))
        continue;
      vf::sample_case(1);
      vf::note_distinct(vf::hash_mix(vf::hash_str(e), vf::hash_mix(ui, allv ? 0 : g.s)));
      unsigned const nv = allv ? total : 24U;
      for (unsigned j = 0; j < nv; ++j)
      {
        unsigned const vi = allv ? j : static_cast<unsigned>(g.below(total));
        pv<N> const v = of(vi);
        for (unsigned cfg = 0; cfg < ncfg; ++cfg)
        {
          if (N == 2 && cfg != (ui + vi) % ncfg)
            continue;
          vf::operands(ui, vi, cfg);
          VF_COUNT("exhaustive/vector-dim-pairs");
          L::run(u, v, static_cast<ll>((ui + 3U * vi) % 19U) - 9, cfg);
          vf::add_evals(1);
        }
      }
    }
  }
}

// ------------------------------------------------------------------ proxy-reference storage (judged: only what goes
// through element access, same-type copy, assignment and ==, i.e. what test/math/vector/raw_view.cpp demonstrates)
void raw_view_vectors()
{
  std::string e = "vector<int,3>/raw_view";
  if (!vf::entry_enabled(e) || !vf::mine(vf::hash_str(e)))
    return;
  vf::set_entry(e);
  using RS = raw_view<int, 3>;
  using R = fm::vector::object<int, 3, RS>;
  using S = fm::vector::static_<int, 3>;
  unsigned const n = vf::tier(2000U, 100000U);
  for (unsigned i = 0; i < n; ++i)
  {
    vf::rng g(vf::seed_for(e, i));
    pv<3> const pu = rnd_vec<3>(g), pw = rnd_vec_near<3>(g, pu);
    unsigned const off = static_cast<unsigned>(g.below(4)); // unaligned on purpose
    if (!vf::begin_case("i=%u offset=%u u=%s v=%s", i, off, show(pu).c_str(), show(pw).c_str()))
      continue;
    vf::sample_case(1);
    vf::note_distinct(hash_ll(pu.data(), 3, hash_ll(pw.data(), 3, vf::hash_mix(vf::hash_str(e), off))));
    VF_COUNT("storage/vector/raw_view");
    ctx c{"int,3,raw", [&] { return "u=" + show(pu) + " v=" + show(pw) + " offset=" + std::to_string(off); }};
    std::array<unsigned char, 3 * sizeof(int) + 4> bytes{};
    R r{RS{bytes.data() + off}};
    r.x() = static_cast<int>(pu[0]);
    r.get_unsafe(1) = static_cast<int>(pu[1]);
    fm::vector::at<2>(r) = static_cast<int>(pu[2]);
    for (std::size_t j = 0; j < 3; ++j)
    {
      int b = 0;
      std::memcpy(&b, bytes.data() + off + j * sizeof(int), sizeof(int));
      want_s(c, "vector::object::get_unsafe", b, pu[j], "write-through-raw-view");
    }
    R const rc(r);
    want_s(c, "vector::object::x", static_cast<int>(rc.x()), pu[0]);
    want_s(c, "vector::object::y", static_cast<int>(rc.y()), pu[1]);
    want_s(c, "vector::object::z", static_cast<int>(rc.z()), pu[2]);
    want_s(c, "vector::at", static_cast<int>(fm::vector::at<1>(rc)), pu[1]);
    vec_op<int, 3> w(pw);
    S const sw = w.st();
    want_b(c, "vector::operator==", rc == sw, pu == pw);
    want_b(c, "vector::operator!=", sw != rc, pu != pw);
    r = sw;
    want_v(c, "vector::object::operator=(other storage)", r, pw);
    r = w.rv();
    want_b(c, "vector::operator==", r == w.vw(), true, "copy");
  }
}

// ------------------------------------------------------------------ observed only (not named by the statement)
void observed()
{
  raw_view_vectors();
  std::string e = "observed/neighbours";
  if (!vf::entry_enabled(e) || !vf::mine(vf::hash_str(e)))
    return;
  vf::set_entry(e);
  if (!vf::begin_case("operator/, vector(+-*)dim, to_vector/to_dim, map, bit_strings, inverse"))
    return;
  unsigned surprises = 0, calls = 0;
  auto note = [&](bool ok, std::string const &what) {
    ++calls;
    if (!ok)
    {
      ++surprises;
      vf::observation(what + " (observed only; not judged by C14)");
    }
  };
  using V3 = fm::vector::static_<int, 3>;
  using D3 = fm::dim::static_<int, 3>;
  vf::rng g(vf::seed_for(e));
  for (unsigned i = 0; i < 2000; ++i)
  {
    pv<3> const pu = rnd_vec<3>(g), pw = rnd_vec<3>(g);
    ll const k = g.range(-3, 3);
    vec_op<int, 3> u(pu), w(pw);
    dim_op<int, 3> d(pw);
    vf::operands(i);
    // division: nothing iff a divisor is zero, else the truncating quotient per component
    {
      auto const q = u.vw() / w.st();
      bool zero = false;
      pv<3> want{};
      for (std::size_t j = 0; j < 3; ++j)
      {
        zero = zero || pw[j] == 0;
        if (pw[j] != 0)
          want[j] = pu[j] / pw[j];
      }
      note(q.has_value() == !zero && (zero || plain_v(q.get_unsafe()) == want),
           "vector / vector differs from the component-wise quotient for u=" + show(pu) + " v=" + show(pw));
      auto const qs = u.st() / static_cast<int>(k);
      pv<3> wants{};
      if (k != 0)
        for (std::size_t j = 0; j < 3; ++j)
          wants[j] = pu[j] / k;
      note(qs.has_value() == (k != 0) && (k == 0 || plain_v(qs.get_unsafe()) == wants),
           "vector / scalar differs from the component-wise quotient for u=" + show(pu) + " k=" + std::to_string(k));
      auto const qd = d.st() / d.vw();
      note(qd.has_value() == !zero, "dim / dim has_value differs for d=" + show(pw));
    }
    // vector op dim
    note(plain_v(u.st() + d.vw()) == p_zip(pu, pw, std::plus<ll>{}), "vector + dim differs for " + show(pu) + show(pw));
    note(plain_v(u.vw() - d.st()) == p_zip(pu, pw, std::minus<ll>{}), "vector - dim differs for " + show(pu) + show(pw));
    note(plain_v(u.rs() * d.st()) == p_zip(pu, pw, std::multiplies<ll>{}), "vector * dim differs for " + show(pu) + show(pw));
    // conversions and map
    note(plain_v(fm::vector::to_dim(u.vw())) == pu, "to_dim changes components of " + show(pu));
    note(plain_v(fm::dim::to_vector(d.vw())) == pw, "to_vector changes components of " + show(pw));
    note(plain_v(fm::vector::map(u.rv(), [](int x) { return x * x - 1; })) ==
             p_zip(pu, pu, [](ll a, ll b) { return a * b - 1; }),
         "vector::map differs from the component-wise map for " + show(pu));
    (void)sizeof(V3);
    (void)sizeof(D3);
  }
  // bit_strings: element i has component j equal to bit j of i (documentation example)
  {
    auto check_bits = [&](auto const &arr, std::size_t n) {
      std::size_t i = 0;
      for (auto const &v : arr)
      {
        bool ok = true;
        for (std::size_t j = 0; j < n; ++j)
          ok = ok && static_cast<ll>(v.storage()[static_cast<size_type>(j)]) == static_cast<ll>((i >> j) & 1U);
        note(ok, "bit_strings<int," + std::to_string(n) + ">: element " + std::to_string(i) + " is not the bit string of its index");
        ++i;
      }
      note(i == (std::size_t{1} << n), "bit_strings<int," + std::to_string(n) + "> has " + std::to_string(i) + " elements");
    };
    check_bits(fm::vector::bit_strings<int, 1>(), 1);
    check_bits(fm::vector::bit_strings<int, 2>(), 2);
    check_bits(fm::vector::bit_strings<int, 3>(), 3);
  }
  // inverse over the integers: only meaningful when det = +-1
  {
    unsigned unimodular = 0;
    for (unsigned a = 0; a < 256; ++a)
    {
      pm<2, 2> const pa = m2_of(a);
      ll const d = p_det(pa);
      if (d != 1 && d != -1)
        continue;
      mat_op<int, 2, 2> A(pa);
      vf::operands(a);
      // inverse divides by the library's own determinant; a wrong determinant is reported by the judged entries
      if (static_cast<ll>(fm::matrix::determinant(A.st())) != d)
        continue;
      ++unimodular;
      note(plain_m(A.vw() * fm::matrix::inverse(A.st())) == p_id<2>(), "A*inverse(A) != I for unimodular A=" + show(pa));
      note(plain_m(fm::matrix::inverse(A.vw())) == p_smul(d, p_adj(pa)), "inverse(A) != det*adj(A) for unimodular A=" + show(pa));
    }
    vf::count("observed/inverse/unimodular-2x2", unimodular);
  }
  vf::add_evals(calls);
  vf::count("observed/calls", calls);
  vf::count("observed/surprises", surprises);
}

#ifndef VF_SLICE
#define VF_SLICE -2 // single translation unit build: everything
#endif
#define VF_IN_SLICE(i) (VF_SLICE == (i) || VF_SLICE == -2)
}

#if VF_IN_SLICE(0)
void vf_slice_0() { m2_unary_pairs(); }
#endif
#if VF_IN_SLICE(1)
void vf_slice_1() { m2_triples(); }
#endif
#if VF_IN_SLICE(2)
void vf_slice_2() { random_matrices<int, 3, true, true>("random"); }
#endif
#if VF_IN_SLICE(3)
void vf_slice_3() { random_matrices<long, 4, true, false>("random-algebra"); }
#endif
#if VF_IN_SLICE(4)
void vf_slice_4()
{
  random_matrices<long, 4, false, true>("random-products");
  builders<long, true>();
}
#endif
#if VF_IN_SLICE(5)
void vf_slice_5()
{
  random_vectors<vec_kind, int, 1>();
  random_vectors<vec_kind, int, 2>();
}
#endif
#if VF_IN_SLICE(6)
void vf_slice_6() { random_vectors<vec_kind, int, 3>(); }
#endif
#if VF_IN_SLICE(7)
void vf_slice_7() { random_vectors<vec_kind, int, 4>(); }
#endif
#if VF_IN_SLICE(8)
void vf_slice_8()
{
  random_vectors<dim_kind, int, 1>();
  random_vectors<dim_kind, int, 2>();
  random_vectors<dim_kind, int, 3>();
  random_vectors<dim_kind, int, 4>();
}
#endif
#if VF_IN_SLICE(9)
namespace
{
// ---- narrow and mixed scalar types: the element type of a product is decltype(L * R) (int for signed char / short
// operands), and every entry is the exact sum of products as long as that sum fits this type. Entries in [-9,9]:
// a dot product of three terms reaches 243, beyond signed char.
template <class T>
char const *tn2()
{
  if constexpr (std::is_same_v<T, signed char>)
    return "schar";
  else if constexpr (std::is_same_v<T, unsigned char>)
    return "uchar";
  else if constexpr (std::is_same_v<T, unsigned short>)
    return "ushort";
  else if constexpr (std::is_same_v<T, long long>)
    return "llong";
  else
    return tn<T>();
}
template <class Lt, class Rt, size_type R, size_type K, size_type C>
void mixed_product(std::string const &e, std::uint64_t i)
{
  using res_t = decltype(std::declval<Lt>() * std::declval<Rt>());
  vf::rng g(vf::seed_for(e, i * 131U + R * 17U + K * 5U + C));
  long long a[R][K], b[K][C];
  bool const nonneg = std::is_unsigned_v<Lt> || std::is_unsigned_v<Rt>;
  fm::matrix::static_<Lt, R, K> A{fcppt::no_init{}};
  fm::matrix::static_<Rt, K, C> B{fcppt::no_init{}};
  std::string text;
  for (size_type r = 0; r < R; ++r)
    for (size_type k = 0; k < K; ++k)
    {
      a[r][k] = nonneg ? g.range(0, 9) : g.range(-9, 9);
      if (g.chance(1, 3))
        a[r][k] = a[r][k] < 0 ? -9 : 9;
      A.storage()[r * K + k] = static_cast<Lt>(a[r][k]);
      text += std::to_string(a[r][k]) + " ";
    }
  text += "| ";
  for (size_type k = 0; k < K; ++k)
    for (size_type c = 0; c < C; ++c)
    {
      b[k][c] = nonneg ? g.range(0, 9) : g.range(-9, 9);
      if (g.chance(1, 3))
        b[k][c] = b[k][c] < 0 ? -9 : 9;
      B.storage()[k * C + c] = static_cast<Rt>(b[k][c]);
      text += std::to_string(b[k][c]) + " ";
    }
  if (!vf::begin_case("%s x %s, %zux%zu * %zux%zu: %s", tn2<Lt>(), tn2<Rt>(), static_cast<std::size_t>(R), static_cast<std::size_t>(K),
                      static_cast<std::size_t>(K), static_cast<std::size_t>(C), text.c_str()))
    return;
  vf::note_distinct(vf::hash_str(text, vf::hash_str(e) + R * 100 + K * 10 + C));
  std::string const key = std::string("matrix*matrix<") + tn2<Lt>() + "," + tn2<Rt>() + ">";
  auto const P = A * B;
  using got_t = std::remove_cvref_t<decltype(P.storage()[0])>;
  if (!std::is_same_v<got_t, res_t>)
    vf::violation(key + "/element-type", "mismatch", "the element type of the product is not decltype(L * R)");
  bool beyond_left = false;
  for (size_type r = 0; r < R; ++r)
    for (size_type c = 0; c < C; ++c)
    {
      long long sum = 0;
      for (size_type k = 0; k < K; ++k)
      {
        sum += a[r][k] * b[k][c];
        if (sum > static_cast<long long>(std::numeric_limits<Lt>::max()) || sum < static_cast<long long>(std::numeric_limits<Lt>::min()))
          beyond_left = true;
      }
      if (static_cast<long long>(P.storage()[r * C + c]) != sum)
      {
        vf::violation(key + "/entry", "mismatch", "entry (" + std::to_string(r) + "," + std::to_string(c) + ") is " +
                                                    std::to_string(static_cast<long long>(P.storage()[r * C + c])) + ", the exact sum of products is " + std::to_string(sum));
        return;
      }
    }
  VF_COUNT("mixed/matrix-products");
  if (beyond_left)
    VF_COUNT("mixed/partial-sum-beyond-left-element-type");
  // matrix * vector with the same operands' first column
  {
    fm::vector::static_<Rt, K> v{fcppt::no_init{}};
    for (size_type k = 0; k < K; ++k)
      v.storage()[k] = static_cast<Rt>(b[k][0]);
    auto const mv = A * v;
    for (size_type r = 0; r < R; ++r)
    {
      long long sum = 0;
      for (size_type k = 0; k < K; ++k)
        sum += a[r][k] * b[k][0];
      if (static_cast<long long>(mv.storage()[r]) != sum)
      {
        vf::violation(std::string("matrix*vector<") + tn2<Lt>() + "," + tn2<Rt>() + ">/entry", "mismatch",
                      "component " + std::to_string(r) + " is " + std::to_string(static_cast<long long>(mv.storage()[r])) + ", exact " + std::to_string(sum));
        return;
      }
    }
    VF_COUNT("mixed/matrix-vector-products");
  }
}
// scalar * vector and vector * scalar with different scalar and component types: every component is the exact product in
// decltype(scalar * component) - in particular a narrow unsigned scalar does not convert a negative component
template <class St, class Ct, size_type N>
void mixed_scalar_vector(std::string const &e, std::uint64_t i)
{
  vf::rng g(vf::seed_for(e, i * 977U + N * 13U + sizeof(St) * 3U + sizeof(Ct)));
  long long const sc = std::is_unsigned_v<St> ? g.range(0, 9) : g.range(-9, 9);
  long long comp[N];
  fm::vector::static_<Ct, N> v{fcppt::no_init{}};
  std::string text = std::to_string(sc) + " *";
  for (size_type k = 0; k < N; ++k)
  {
    comp[k] = std::is_unsigned_v<Ct> ? g.range(0, 9) : g.range(-9, 9);
    v.storage()[k] = static_cast<Ct>(comp[k]);
    text += " " + std::to_string(comp[k]);
  }
  if (!vf::begin_case("%s scalar x %s vector<%zu>: %s", tn2<St>(), tn2<Ct>(), static_cast<std::size_t>(N), text.c_str()))
    return;
  vf::note_distinct(vf::hash_str(text, vf::hash_str(e) + N * 7 + sizeof(St) * 100 + sizeof(Ct)));
  St const scalar = static_cast<St>(sc);
  auto const left = scalar * v;
  auto const right = v * scalar;
  std::string const key = std::string("scalar*vector<") + tn2<St>() + "," + tn2<Ct>() + ">";
  for (size_type k = 0; k < N; ++k)
  {
    long long const want = static_cast<long long>(scalar * static_cast<Ct>(comp[k]));
    if (static_cast<long long>(left.storage()[k]) != want)
    {
      vf::violation(key + "/scalar-on-the-left", "mismatch", "component " + std::to_string(k) + " is " + std::to_string(static_cast<long long>(left.storage()[k])) + ", scalar * component is " + std::to_string(want));
      return;
    }
    if (static_cast<long long>(right.storage()[k]) != want)
    {
      vf::violation(key + "/scalar-on-the-right", "mismatch", "component " + std::to_string(k) + " is " + std::to_string(static_cast<long long>(right.storage()[k])) + ", component * scalar is " + std::to_string(want));
      return;
    }
  }
  VF_COUNT("mixed/scalar-vector-products");
}

template <class Lt, class Rt>
void mixed_pair(std::string const &e, std::uint64_t i)
{

  mixed_product<Lt, Rt, 2, 2, 2>(e, i);
  mixed_product<Lt, Rt, 2, 3, 2>(e, i);
  mixed_product<Lt, Rt, 3, 3, 3>(e, i);
  mixed_product<Lt, Rt, 1, 4, 2>(e, i);
}
void mixed_scalars()
{
  std::string const e = "matrix/narrow-and-mixed-scalars";
  if (!vf::entry_enabled(e))
    return;
  vf::set_entry(e);
  std::uint64_t const n = vf::tier<std::uint64_t>(600, 40000);
  for (std::uint64_t i = 0; i < n; ++i)
  {
    if (!vf::mine(i))
      continue;
    mixed_pair<signed char, signed char>(e, i);
    mixed_pair<short, short>(e, i);
    mixed_pair<signed char, int>(e, i);
    mixed_pair<int, signed char>(e, i);
    mixed_pair<short, long>(e, i);
    mixed_pair<long, short>(e, i);
    mixed_pair<unsigned char, unsigned char>(e, i);
    mixed_pair<unsigned char, int>(e, i);
    mixed_pair<int, long long>(e, i);
    // (scalar types that promote: the combinations stay buildable whatever type the implementation computes in)
    mixed_scalar_vector<unsigned short, int, 3>(e, i);
    mixed_scalar_vector<unsigned char, int, 4>(e, i);
    mixed_scalar_vector<signed char, int, 2>(e, i);
    mixed_scalar_vector<short, int, 4>(e, i);
    mixed_scalar_vector<signed char, signed char, 3>(e, i);
    mixed_scalar_vector<unsigned char, unsigned char, 2>(e, i);
  }
}
}
void vf_slice_9()
{
  builders<int, false>();
  observed();
  mixed_scalars();
}
#endif

#if VF_IN_SLICE(10)
namespace
{
// ---- an exact scalar whose multiplication is NOT commutative (upper triangular 2x2 integer matrices as numbers): the
// module laws distinguish s * x from x * s.  "scalar * is computed per component": (s * M)(i,j) = s * M(i,j) and
// (M * s)(i,j) = M(i,j) * s, the matrix product is sum_k A(i,k) * B(k,j) with the factors in this order.
struct ncs
{
  long a = 0, b = 0, d = 0; // [[a, b], [0, d]]
  ncs() = default;
  ncs(long a_, long b_, long d_) : a(a_), b(b_), d(d_) {}
  friend ncs operator+(ncs const &x, ncs const &y) { return ncs(x.a + y.a, x.b + y.b, x.d + y.d); }
  friend ncs operator-(ncs const &x, ncs const &y) { return ncs(x.a - y.a, x.b - y.b, x.d - y.d); }
  friend ncs operator*(ncs const &x, ncs const &y) { return ncs(x.a * y.a, x.a * y.b + x.b * y.d, x.d * y.d); }
  ncs &operator+=(ncs const &y) { return *this = *this + y; }
  ncs &operator-=(ncs const &y) { return *this = *this - y; }
  ncs &operator*=(ncs const &y) { return *this = *this * y; }
  friend bool operator==(ncs const &x, ncs const &y) { return x.a == y.a && x.b == y.b && x.d == y.d; }
  friend bool operator!=(ncs const &x, ncs const &y) { return !(x == y); }
};
inline std::string show_ncs(ncs const &x) { return "[" + std::to_string(x.a) + "," + std::to_string(x.b) + ";" + std::to_string(x.d) + "]"; }
}
namespace fcppt
{
template <>
struct make_literal<ncs, void>
{
  using decorated_type = ncs;
  template <typename Arg>
  static decorated_type get(Arg const v)
  {
    return ncs(static_cast<long>(v), 0, static_cast<long>(v));
  }
};
}
namespace
{
void noncommutative_scalars()
{
  std::string const e = "matrix<noncommutative-scalar,2x2>";
  if (!vf::entry_enabled(e))
    return;
  vf::set_entry(e);
  namespace mx = fm::matrix;
  using M = mx::static_<ncs, 2, 2>;
  using V = fm::vector::static_<ncs, 2>;
  std::uint64_t const n = vf::tier<std::uint64_t>(600, 60000);
  for (std::uint64_t i = 0; i < n; ++i)
  {
    if (!vf::mine(i))
      continue;
    vf::rng g(vf::seed_for(e, i));
    auto const rnd = [&g] { return ncs(g.range(-4, 4), g.range(-4, 4), g.range(-4, 4)); };
    ncs const sc = rnd();
    std::array<std::array<ncs, 2>, 2> pa{{{rnd(), rnd()}, {rnd(), rnd()}}}, pb{{{rnd(), rnd()}, {rnd(), rnd()}}};
    std::array<ncs, 2> pu{rnd(), rnd()};
    if (!vf::begin_case("i=%llu s=%s A=[%s %s / %s %s]", static_cast<unsigned long long>(i), show_ncs(sc).c_str(), show_ncs(pa[0][0]).c_str(),
                        show_ncs(pa[0][1]).c_str(), show_ncs(pa[1][0]).c_str(), show_ncs(pa[1][1]).c_str()))
      continue;
    vf::sample_case(1);
    vf::note_distinct(vf::hash_mix(vf::hash_str(e), vf::hash_mix(static_cast<std::uint64_t>(sc.a * 81 + sc.b * 9 + sc.d), vf::hash_bytes(&pa, sizeof pa))));
    M const A(mx::row(pa[0][0], pa[0][1]), mx::row(pa[1][0], pa[1][1])), B(mx::row(pb[0][0], pb[0][1]), mx::row(pb[1][0], pb[1][1]));
    V const u(pu[0], pu[1]);
    auto const bad = [&](char const *op, std::string const &d) { vf::violation(std::string(op) + "<noncommutative-scalar,2x2>/value", "mismatch", d + " case: " + vf::current_case()); };
    M const sA = sc * A, As = A * sc, AB = A * B;
    V const su = sc * u, us = u * sc, Au = A * u;
    bool commutes = true;
    for (std::size_t r = 0; r < 2; ++r)
    {
      for (std::size_t c = 0; c < 2; ++c)
      {
        commutes = commutes && sc * pa[r][c] == pa[r][c] * sc;
        if (sA.get_unsafe(r).get_unsafe(c) != sc * pa[r][c])
          bad("matrix::operator*(scalar,matrix)", "element (" + std::to_string(r) + "," + std::to_string(c) + ") is not s * M(i,j)");
        if (As.get_unsafe(r).get_unsafe(c) != pa[r][c] * sc)
          bad("matrix::operator*(matrix,scalar)", "element (" + std::to_string(r) + "," + std::to_string(c) + ") is not M(i,j) * s");
        if (AB.get_unsafe(r).get_unsafe(c) != pa[r][0] * pb[0][c] + pa[r][1] * pb[1][c])
          bad("matrix::operator*(matrix,matrix)", "element (" + std::to_string(r) + "," + std::to_string(c) + ") is not sum_k A(i,k) * B(k,j)");
      }
      if (su.get_unsafe(r) != sc * pu[r])
        bad("vector::operator*(scalar,vector)", "component " + std::to_string(r) + " is not s * v(i)");
      if (us.get_unsafe(r) != pu[r] * sc)
        bad("vector::operator*(vector,scalar)", "component " + std::to_string(r) + " is not v(i) * s");
      if (Au.get_unsafe(r) != pa[r][0] * pu[0] + pa[r][1] * pu[1])
        bad("matrix::operator*(matrix,vector)", "component " + std::to_string(r) + " is not sum_k A(i,k) * v(k)");
    }
    VF_COUNT("noncommutative/cases");
    if (!commutes)
      VF_COUNT("noncommutative/scalar-does-not-commute-with-an-element");
  }
}

// ---- a trivially copyable, padding-free scalar whose == is COARSER than byte equality (residues mod 7 kept unreduced):
// == / != of vector, dim and matrix are the element-wise comparison with the scalar's own operator==, and the ring
// identities hold as equalities of the scalar type.
struct mod7
{
  int rep = 0; // any representative
  friend mod7 operator+(mod7 a, mod7 b) { return mod7{a.rep + b.rep}; }
  friend mod7 operator-(mod7 a, mod7 b) { return mod7{a.rep - b.rep}; }
  friend mod7 operator*(mod7 a, mod7 b) { return mod7{(a.rep % 7) * (b.rep % 7)}; }
  mod7 &operator+=(mod7 b) { return *this = *this + b; }
  mod7 &operator-=(mod7 b) { return *this = *this - b; }
  mod7 &operator*=(mod7 b) { return *this = *this * b; }
  static int norm(int r) { return ((r % 7) + 7) % 7; }
  friend bool operator==(mod7 a, mod7 b) { return norm(a.rep) == norm(b.rep); }
  friend bool operator!=(mod7 a, mod7 b) { return !(a == b); }
};
static_assert(std::has_unique_object_representations_v<mod7> && std::is_trivially_copyable_v<mod7>);
}
namespace fcppt
{
template <>
struct make_literal<mod7, void>
{
  using decorated_type = mod7;
  template <typename Arg>
  static decorated_type get(Arg const v)
  {
    return mod7{static_cast<int>(v)};
  }
};
}
namespace
{
void coarse_equality_scalars()
{
  std::string const e = "vector,dim,matrix<residues-mod-7>/comparison";
  if (!vf::entry_enabled(e))
    return;
  vf::set_entry(e);
  namespace mx = fm::matrix;
  using V = fm::vector::static_<mod7, 3>;
  using D = fm::dim::static_<mod7, 2>;
  using M = mx::static_<mod7, 2, 2>;
  std::uint64_t const n = vf::tier<std::uint64_t>(400, 40000);
  for (std::uint64_t i = 0; i < n; ++i)
  {
    if (!vf::mine(i))
      continue;
    vf::rng g(vf::seed_for(e, i));
    std::array<int, 4> a{}, b{};
    bool const same_class = g.chance(1, 2);
    for (std::size_t k = 0; k < 4; ++k)
    {
      a[k] = static_cast<int>(g.range(-20, 20));
      b[k] = same_class ? a[k] + 7 * static_cast<int>(g.range(-3, 3)) : static_cast<int>(g.range(-20, 20));
    }
    if (!vf::begin_case("i=%llu a=(%d,%d,%d,%d) b=(%d,%d,%d,%d)", static_cast<unsigned long long>(i), a[0], a[1], a[2], a[3], b[0], b[1], b[2], b[3]))
      continue;
    vf::sample_case(1);
    vf::note_distinct(vf::hash_mix(vf::hash_str(e), vf::hash_mix(vf::hash_bytes(a.data(), sizeof a), vf::hash_bytes(b.data(), sizeof b))));
    auto const eq = [&](std::size_t cnt) {
      bool r = true;
      for (std::size_t k = 0; k < cnt; ++k)
        r = r && mod7{a[k]} == mod7{b[k]};
      return r;
    };
    bool different_bytes = false;
    for (std::size_t k = 0; k < 4; ++k)
      different_bytes = different_bytes || a[k] != b[k];
    if (eq(4) && different_bytes)
      VF_COUNT("coarse-equality/equal-values-with-different-representations");
    auto const bad = [&](char const *what) { vf::violation(std::string(what) + "<residues-mod-7>/not-the-element-wise-comparison", "mismatch", vf::current_case()); };
    V const va(mod7{a[0]}, mod7{a[1]}, mod7{a[2]}), vb(mod7{b[0]}, mod7{b[1]}, mod7{b[2]});
    if ((va == vb) != eq(3) || (va != vb) == eq(3))
      bad("vector::operator==");
    D const da(mod7{a[0]}, mod7{a[1]}), db(mod7{b[0]}, mod7{b[1]});
    if ((da == db) != eq(2) || (da != db) == eq(2))
      bad("dim::operator==");
    M const ma(mx::row(mod7{a[0]}, mod7{a[1]}), mx::row(mod7{a[2]}, mod7{a[3]})), mb(mx::row(mod7{b[0]}, mod7{b[1]}), mx::row(mod7{b[2]}, mod7{b[3]}));
    if ((ma == mb) != eq(4) || (ma != mb) == eq(4))
      bad("matrix::operator==");
    // a ring identity as an equality of library results: (A + B) * s == A * s + B * s
    mod7 const sc{static_cast<int>(g.range(-9, 9))};
    if (!((ma + mb) * sc == ma * sc + mb * sc))
      bad("law:(A+B)*s=A*s+B*s");
    VF_COUNT("coarse-equality/cases");
  }
}

// ---- vector (+ - *) dim with DIFFERENT value types: per component in the usual arithmetic conversion of the two types
// (a dim of unsigned subtracted from a vector of long is long arithmetic - the dim is not negated in its own type first)
template <class A, class B>
void vector_dim_mixed(char const *an, char const *bn)
{
  std::string const e = std::string("vector<") + an + ",3> op dim<" + bn + ",3>";
  if (!vf::entry_enabled(e))
    return;
  vf::set_entry(e);
  using V = fm::vector::static_<A, 3>;
  using D = fm::dim::static_<B, 3>;
  using R = decltype(std::declval<A>() - std::declval<B>());
  std::uint64_t const n = vf::tier<std::uint64_t>(300, 30000);
  for (std::uint64_t i = 0; i < n; ++i)
  {
    if (!vf::mine(i))
      continue;
    vf::rng g(vf::seed_for(e, i));
    std::array<A, 3> a{};
    std::array<B, 3> b{};
    for (std::size_t k = 0; k < 3; ++k)
    {
      a[k] = static_cast<A>(g.range(std::is_signed_v<A> ? -40 : 50, 90));
      b[k] = static_cast<B>(g.range(std::is_signed_v<B> ? -9 : 0, 40));
    }
    if (!vf::begin_case("i=%llu a=(%lld,%lld,%lld) b=(%lld,%lld,%lld)", static_cast<unsigned long long>(i), static_cast<ll>(a[0]), static_cast<ll>(a[1]), static_cast<ll>(a[2]),
                        static_cast<ll>(b[0]), static_cast<ll>(b[1]), static_cast<ll>(b[2])))
      continue;
    vf::sample_case(1);
    vf::note_distinct(vf::hash_mix(vf::hash_str(e), vf::hash_mix(vf::hash_bytes(a.data(), sizeof a), vf::hash_bytes(b.data(), sizeof b))));
    V const v(a[0], a[1], a[2]);
    D const d(b[0], b[1], b[2]);
    auto const sum = v + d;
    auto const dif = v - d;
    auto const pro = v * d;
    static_assert(std::is_same_v<typename decltype(dif)::value_type, R>, "element type of vector - dim");
    for (std::size_t k = 0; k < 3; ++k)
    {
      VF_COUNT("vector-dim-mixed/components");
      if (sum.get_unsafe(k) != static_cast<R>(a[k] + b[k]))
        vf::violation(std::string("vector::operator+(vector,dim)<") + an + "," + bn + ">/value", "mismatch", vf::current_case());
      if (dif.get_unsafe(k) != static_cast<R>(a[k] - b[k]))
        vf::violation(std::string("vector::operator-(vector,dim)<") + an + "," + bn + ">/value", "mismatch",
                      std::string(vf::current_case()) + " component " + std::to_string(k) + " got " + std::to_string(dif.get_unsafe(k)) + " want " + std::to_string(static_cast<R>(a[k] - b[k])));
      if (pro.get_unsafe(k) != static_cast<R>(a[k] * b[k]))
        vf::violation(std::string("vector::operator*(vector,dim)<") + an + "," + bn + ">/value", "mismatch", vf::current_case());
    }
  }
}

// ---- init with a function that has STATE (loading from an iterator, a counter): "init ... agree with the same operations on
// plain arrays" - the plain loop calls the function for index 0, 1, 2, ... (row-major for a matrix)
void init_call_order()
{
  std::string const e = "vector,dim,matrix::init/call-order";
  if (!vf::entry_enabled(e) || !vf::mine(vf::hash_str(e)))
    return;
  vf::set_entry(e);
  if (!vf::begin_case("init from a running counter / an input iterator for vector<int,4>, dim<int,3>, matrix<int,2,3>, matrix<int,3,3>"))
    return;
  vf::note_distinct(vf::hash_str(e));
  std::array<int, 9> const src{10, 20, 30, 40, 50, 60, 70, 80, 90};
  {
    auto it = src.begin();
    auto const v = fm::vector::init<fm::vector::static_<int, 4>>([&it](auto) { return *it++; });
    for (size_type k = 0; k < 4; ++k)
      if (v.get_unsafe(k) != src[k])
        vf::violation("vector::init/call-order", "mismatch", "component " + std::to_string(k) + " is " + std::to_string(v.get_unsafe(k)) + ", the plain loop gives " + std::to_string(src[k]));
  }
  {
    auto it = src.begin();
    auto const d = fm::dim::init<fm::dim::static_<int, 3>>([&it](auto) { return *it++; });
    for (size_type k = 0; k < 3; ++k)
      if (d.get_unsafe(k) != src[k])
        vf::violation("dim::init/call-order", "mismatch", "component " + std::to_string(k));
  }
  {
    auto it = src.begin();
    auto const m = fm::matrix::init<fm::matrix::static_<int, 2, 3>>([&it](auto) { return *it++; });
    for (size_type r = 0; r < 2; ++r)
      for (size_type c = 0; c < 3; ++c)
        if (m.get_unsafe(r).get_unsafe(c) != src[r * 3 + c])
          vf::violation("matrix::init/call-order", "mismatch", "element (" + std::to_string(r) + "," + std::to_string(c) + ") of a 2x3 matrix");
  }
  {
    int counter = 0;
    auto const m = fm::matrix::init<fm::matrix::static_<int, 3, 3>>([&counter](auto) { return counter++; });
    for (size_type r = 0; r < 3; ++r)
      for (size_type c = 0; c < 3; ++c)
        if (m.get_unsafe(r).get_unsafe(c) != static_cast<int>(r * 3 + c))
          vf::violation("matrix::init/call-order", "mismatch", "element (" + std::to_string(r) + "," + std::to_string(c) + ") of a 3x3 matrix");
  }
  VF_COUNT("init/call-order-cases");
  vf::add_evals(4);
}

// ---- rectangular shapes: identity (ones exactly where row == column), null, fill, init, transpose, products between
// compatible shapes, matrix * vector, comparison - against plain arrays.  Tall, wide, one column, one row.
template <std::size_t R, std::size_t C>
pm<R, C> p_rect_id()
{
  pm<R, C> r{};
  for (std::size_t i = 0; i < R && i < C; ++i)
    r[i][i] = 1;
  return r;
}
template <class T, size_type R, size_type C>
void rect_shape(vf::rng &g, std::uint64_t i)
{
  namespace mx = fm::matrix;
  using S = mx::static_<T, R, C>;
  using St = mx::static_<T, C, R>;
  std::string const inst = std::string(tn<T>()) + "," + std::to_string(R) + "x" + std::to_string(C);
  pm<R, C> pa{}, pb{};
  for (auto &r : pa)
    for (auto &x : r)
      x = g.range(-9, 9);
  for (auto &r : pb)
    for (auto &x : r)
      x = g.chance(1, 4) ? g.range(-9, 9) : 0;
  pv<C> pu{};
  for (auto &x : pu)
    x = g.range(-9, 9);
  if (!vf::begin_case("i=%llu shape=%llux%llu A=%s B=%s u=%s", static_cast<unsigned long long>(i), static_cast<unsigned long long>(R),
                      static_cast<unsigned long long>(C), show(pa).c_str(), show(pb).c_str(), show(pu).c_str()))
    return;
  vf::sample_case(1);
  vf::note_distinct(hash_pm(pa, hash_pm(pb, vf::hash_str(inst))));
  ctx c{inst, [&] { return "A=" + show(pa) + " B=" + show(pb) + " u=" + show(pu); }};
  mat_op<T, R, C> oa(pa), ob(pb);
  S const A = oa.st(), B = ob.st();
  VF_COUNT("rect/cases");
  if (R >= C + 2)
    VF_COUNT("rect/tall-by-two-or-more");
  want_m(c, "matrix::identity", mx::identity<S>(), p_rect_id<R, C>(), "rectangular");
  want_m(c, "matrix::identity", mx::identity<St>(), p_rect_id<C, R>(), "rectangular");
  want_m(c, "matrix::init", mx::init<S>([&pa]<size_type Rw, size_type Cl>(mx::index<Rw, Cl>) { return static_cast<T>(pa[Rw][Cl]); }), pa, "rectangular");
  want_m(c, "matrix::transpose", mx::transpose(A), p_tr(pa), "rectangular");
  ident_m(c, "law:(A^T)^T=A", mx::transpose(mx::transpose(A)), A);
  ident_m(c, "law:identity^T=identity", mx::transpose(mx::identity<S>()), mx::identity<St>());
  want_m(c, "matrix::operator+", A + B, p_add(pa, pb), "rectangular");
  want_m(c, "matrix::operator-", A - B, p_sub(pa, pb), "rectangular");
  want_m(c, "matrix::operator*(scalar)", static_cast<T>(3) * A, p_smul(3, pa), "rectangular");
  // (RxC) * (CxR) and (CxR) * (RxC)
  auto const tB = mx::transpose(B);
  want_m(c, "matrix::operator*", A * tB, p_mul(pa, p_tr(pb)), "rectangular");
  want_m(c, "matrix::operator*", tB * A, p_mul(p_tr(pb), pa), "rectangular");
  // A * identity(CxC) = A, identity(RxR) * A = A, A * identity(CxR) selects / pads columns
  want_m(c, "matrix::operator*", A * mx::identity<mx::static_<T, C, C>>(), pa, "times-square-identity");
  want_m(c, "matrix::operator*", mx::identity<mx::static_<T, R, R>>() * A, pa, "times-square-identity");
  want_m(c, "matrix::operator*", A * mx::identity<St>(), p_mul(pa, p_rect_id<C, R>()), "times-rectangular-identity");
  // matrix * vector
  {
    vec_op<T, C> ou(pu);
    pv<R> want{};
    for (std::size_t r = 0; r < R; ++r)
      for (std::size_t k = 0; k < C; ++k)
        want[r] += pa[r][k] * pu[k];
    want_v(c, "matrix::operator*(vector)", A * ou.st(), want, "rectangular");
  }
  want_b(c, "matrix::operator==", A == B, pa == pb, "rectangular");
  want_b(c, "matrix::operator!=", A != B, pa != pb, "rectangular");
  {
    S const copy(A);
    want_b(c, "matrix::operator==", A == copy, true, "rectangular-copy");
  }
}
template <class T>
void rect_shapes()
{
  std::string const e = std::string("matrix<") + tn<T>() + ",rectangular>";
  if (!vf::entry_enabled(e))
    return;
  vf::set_entry(e);
  std::uint64_t const n = vf::tier<std::uint64_t>(400, 40000);
  for (std::uint64_t i = 0; i < n; ++i)
  {
    if (!vf::mine(i))
      continue;
    vf::rng g(vf::seed_for(e, i));
    switch (i % 9)
    {
    case 0: rect_shape<T, 1, 3>(g, i); break;
    case 1: rect_shape<T, 3, 1>(g, i); break;
    case 2: rect_shape<T, 2, 3>(g, i); break;
    case 3: rect_shape<T, 3, 2>(g, i); break;
    case 4: rect_shape<T, 4, 2>(g, i); break;
    case 5: rect_shape<T, 2, 4>(g, i); break;
    case 6: rect_shape<T, 4, 1>(g, i); break;
    case 7: rect_shape<T, 1, 4>(g, i); break;
    default: rect_shape<T, 5, 2>(g, i); break;
    }
  }
}
}
// a scalar whose move is not a copy (common/heavy.hpp): a moved-from operand reads as 7777
void vf_slice_10()
{
  random_matrices<vf::heavy, 2, true, true>("random");
  random_matrices<vf::heavy, 3, true, true>("random");
  random_vectors<vec_kind, vf::heavy, 3>();
  random_vectors<dim_kind, vf::heavy, 2>();
  rect_shapes<int>();
  rect_shapes<long>();
  noncommutative_scalars();
  coarse_equality_scalars();
  init_call_order();
  vector_dim_mixed<long, unsigned>("long", "unsigned");
  vector_dim_mixed<std::size_t, unsigned>("size_t", "unsigned");
  vector_dim_mixed<int, short>("int", "short");
  vector_dim_mixed<long, int>("long", "int");
  vf::count("heavy/constructed", vf::heavy_stats().constructed);
  vf::count("heavy/moved", vf::heavy_stats().moved);
  vf::count("heavy/moved-from-reads(observed)", vf::heavy_stats().moved_from_reads);
}
#endif

#if VF_SLICE < 0
void vf_slice_0();
void vf_slice_1();
void vf_slice_2();
void vf_slice_3();
void vf_slice_4();
void vf_slice_5();
void vf_slice_6();
void vf_slice_7();
void vf_slice_8();
void vf_slice_9();
void vf_slice_10();
namespace
{
void body()
{
  for (char const *b :
       {"judged/model-comparisons", "judged/identities", "judged/aliasing-operands", "mixed/matrix-products",
        "mixed/partial-sum-beyond-left-element-type", "mixed/matrix-vector-products", "mixed/scalar-vector-products", "m2/pairs", "m2/triples", "m2/matvec",
        "random/matrix-algebra-cases", "random/matrix-product-cases", "random/vector-dim-cases",
        "exhaustive/vector-dim-pairs", "builders/cases", "matrix/det/zero", "matrix/det/nonzero",
        "matrix/nonsymmetric", "matrix/noncommuting-pair", "matrix/matvec/nonzero-result", "matrix/cmp/equal",
        "matrix/cmp/different", "matrix/cmp/differ-in-one-entry", "matrix/cmp/differ-in-last-entry-only",
        "storage/matrix/static,static", "storage/matrix/view,view", "storage/matrix/static,view",
        "storage/matrix/view,static", "storage/vector/static,static", "storage/vector/view,view",
        "storage/vector/static,view", "storage/vector/view,static",
        "storage/vector/row-of-static-matrix,row-of-view-matrix",
        "storage/vector/row-of-view-matrix,row-of-static-matrix", "storage/dim/static,static",
        "storage/dim/view,view", "storage/dim/static,view", "storage/dim/view,static", "vector/dot/nonzero",
        "vector/cross/nonzero", "vector/cross/zero", "cmp/equal", "cmp/less", "cmp/greater",
        "cmp/differ-in-last-component-only", "cmp/equal-prefix-then-different",
        "cmp/later-component-ordered-the-other-way", "storage/vector/raw_view", "observed/calls", "rect/tall-by-two-or-more", "noncommutative/scalar-does-not-commute-with-an-element", "coarse-equality/equal-values-with-different-representations"})
    vf::require_bucket(b);
  vf_slice_0();
  vf_slice_1();
  vf_slice_2();
  vf_slice_3();
  vf_slice_4();
  vf_slice_5();
  vf_slice_6();
  vf_slice_7();
  vf_slice_8();
  vf_slice_9();
  vf_slice_10();
}
}
VF_MAIN(body)
#endif
