// C14: vector, dim and matrix arithmetic obeys the exact ring and module laws.
//
// Oracle: plain nested std::array<long long> arithmetic written from the property text and the module
// documentation (row-major matrices): component-wise loops, the triple-loop matrix product, the Leibniz
// sum over permutations for the determinant (the library uses the Laplace recursion), cofactors built by
// skipping a row and a column.  Every library result is read back element by element from its storage
// (row-major, as documented) and compared with the model; the algebraic identities are judged on the
// library's own results as well.
//
// Judged: the operations the statement lists.  Observed only (vf::observation): operator/, vector (+-*) dim,
// to_vector/to_dim, map, bit_strings, inverse.
#include <vf.hpp>

#include <fcppt/no_init.hpp>
#include <fcppt/cast/static_cast_fun.hpp>
#include <fcppt/math/size_type.hpp>
#include <fcppt/math/static_size.hpp>
#include <fcppt/math/dim/arithmetic.hpp>
#include <fcppt/math/dim/at.hpp>
#include <fcppt/math/dim/comparison.hpp>
#include <fcppt/math/dim/fill.hpp>
#include <fcppt/math/dim/init.hpp>
#include <fcppt/math/dim/narrow_cast.hpp>
#include <fcppt/math/dim/null.hpp>
#include <fcppt/math/dim/object_impl.hpp>
#include <fcppt/math/dim/push_back.hpp>
#include <fcppt/math/dim/static.hpp>
#include <fcppt/math/dim/structure_cast.hpp>
#include <fcppt/math/dim/to_vector.hpp>
#include <fcppt/math/matrix/adjugate.hpp>
#include <fcppt/math/matrix/arithmetic.hpp>
#include <fcppt/math/matrix/at_r.hpp>
#include <fcppt/math/matrix/at_r_c.hpp>
#include <fcppt/math/matrix/comparison.hpp>
#include <fcppt/math/matrix/delete_row_and_column.hpp>
#include <fcppt/math/matrix/determinant.hpp>
#include <fcppt/math/matrix/identity.hpp>
#include <fcppt/math/matrix/index.hpp>
#include <fcppt/math/matrix/init.hpp>
#include <fcppt/math/matrix/inverse.hpp>
#include <fcppt/math/matrix/object_impl.hpp>
#include <fcppt/math/matrix/row.hpp>
#include <fcppt/math/matrix/scaling.hpp>
#include <fcppt/math/matrix/static.hpp>
#include <fcppt/math/matrix/structure_cast.hpp>
#include <fcppt/math/matrix/translation.hpp>
#include <fcppt/math/matrix/transpose.hpp>
#include <fcppt/math/matrix/vector.hpp>
#include <fcppt/math/vector/arithmetic.hpp>
#include <fcppt/math/vector/at.hpp>
#include <fcppt/math/vector/bit_strings.hpp>
#include <fcppt/math/vector/comparison.hpp>
#include <fcppt/math/vector/cross.hpp>
#include <fcppt/math/vector/dim.hpp>
#include <fcppt/math/vector/dot.hpp>
#include <fcppt/math/vector/fill.hpp>
#include <fcppt/math/vector/init.hpp>
#include <fcppt/math/vector/length_square.hpp>
#include <fcppt/math/vector/map.hpp>
#include <fcppt/math/vector/narrow_cast.hpp>
#include <fcppt/math/vector/null.hpp>
#include <fcppt/math/vector/object_impl.hpp>
#include <fcppt/math/vector/push_back.hpp>
#include <fcppt/math/vector/static.hpp>
#include <fcppt/math/vector/structure_cast.hpp>
#include <fcppt/math/vector/to_dim.hpp>
#include <fcppt/optional/object.hpp>

#include <algorithm>
#include <array>
#include <cstddef>
#include <cstring>
#include <functional>
#include <numeric>
#include <string>
#include <type_traits>
#include <utility>

namespace
{
namespace fm = fcppt::math;
using fm::size_type;
using ll = long long;

// ------------------------------------------------------------------ storage types supplied by the user
// A view over memory owned by somebody else (as in test/math/vector/view_storage.cpp).
template <typename T, size_type N>
class view_storage
{
public:
  using value_type = T;
  using size_type = fcppt::math::size_type;
  using storage_size = fcppt::math::static_size<N>;
  using pointer = value_type *;
  using reference = value_type &;
  using const_reference = value_type const &;
  explicit view_storage(pointer const _data) : data_(_data) {}
  reference operator[](size_type const _index) { return data_[_index]; }
  const_reference operator[](size_type const _index) const { return data_[_index]; }

private:
  pointer data_;
};

// A view over raw bytes with proxy references (as in test/math/vector/raw_view.cpp).
template <typename Type, typename Pointer>
class raw_proxy
{
public:
  explicit raw_proxy(Pointer const _data) : data_{_data} {}
  operator Type() const // NOLINT
  {
    Type result;
    std::memcpy(&result, data_, sizeof(Type));
    return result;
  }
  raw_proxy &operator=(Type const &_other)
  {
    std::memcpy(data_, &_other, sizeof(Type));
    return *this;
  }

private:
  Pointer data_;
};
template <typename Type, size_type N>
class raw_view
{
public:
  using value_type = Type;
  using size_type = fcppt::math::size_type;
  using storage_size = fcppt::math::static_size<N>;
  using pointer = unsigned char *;
  using const_pointer = unsigned char const *;
  using reference = raw_proxy<Type, pointer>;
  using const_reference = raw_proxy<Type, const_pointer>;
  explicit raw_view(pointer const _data) : data_(_data) {}
  reference operator[](size_type const _index) { return reference{data_ + _index * sizeof(Type)}; }
  const_reference operator[](size_type const _index) const
  {
    return const_reference{data_ + _index * sizeof(Type)};
  }

private:
  pointer data_;
};

template <class T>
char const *tn()
{
  if constexpr (std::is_same_v<T, int>)
    return "int";
  else if constexpr (std::is_same_v<T, long>)
    return "long";
  else if constexpr (std::is_same_v<T, short>)
    return "short";
  else
    return "?";
}

template <size_type N, class F>
void static_for(F &&f)
{
  [&]<size_type... I>(std::integer_sequence<size_type, I...>) {
    (f(std::integral_constant<size_type, I>{}), ...);
  }(std::make_integer_sequence<size_type, N>{});
}

// ------------------------------------------------------------------ the plain-array model
template <std::size_t R, std::size_t C>
using pm = std::array<std::array<ll, C>, R>;
template <std::size_t N>
using pv = std::array<ll, N>;

template <std::size_t R, std::size_t C>
pm<R, C> p_add(pm<R, C> const &a, pm<R, C> const &b)
{
  pm<R, C> r{};
  for (std::size_t i = 0; i < R; ++i)
    for (std::size_t j = 0; j < C; ++j)
      r[i][j] = a[i][j] + b[i][j];
  return r;
}
template <std::size_t R, std::size_t C>
pm<R, C> p_sub(pm<R, C> const &a, pm<R, C> const &b)
{
  pm<R, C> r{};
  for (std::size_t i = 0; i < R; ++i)
    for (std::size_t j = 0; j < C; ++j)
      r[i][j] = a[i][j] - b[i][j];
  return r;
}
template <std::size_t R, std::size_t C>
pm<R, C> p_smul(ll k, pm<R, C> const &a)
{
  pm<R, C> r{};
  for (std::size_t i = 0; i < R; ++i)
    for (std::size_t j = 0; j < C; ++j)
      r[i][j] = k * a[i][j];
  return r;
}
template <std::size_t R, std::size_t K, std::size_t C>
pm<R, C> p_mul(pm<R, K> const &a, pm<K, C> const &b)
{
  pm<R, C> r{};
  for (std::size_t i = 0; i < R; ++i)
    for (std::size_t j = 0; j < C; ++j)
    {
      ll s = 0;
      for (std::size_t k = 0; k < K; ++k)
        s += a[i][k] * b[k][j];
      r[i][j] = s;
    }
  return r;
}
template <std::size_t R, std::size_t C>
pm<C, R> p_tr(pm<R, C> const &a)
{
  pm<C, R> r{};
  for (std::size_t i = 0; i < R; ++i)
    for (std::size_t j = 0; j < C; ++j)
      r[j][i] = a[i][j];
  return r;
}
template <std::size_t N>
pm<N, N> p_id()
{
  pm<N, N> r{};
  for (std::size_t i = 0; i < N; ++i)
    r[i][i] = 1;
  return r;
}
// Leibniz formula: sum over all permutations of sign * product
template <std::size_t N>
ll p_det(pm<N, N> const &a)
{
  std::array<std::size_t, N> perm{};
  std::iota(perm.begin(), perm.end(), std::size_t{0});
  ll sum = 0;
  do
  {
    unsigned inv = 0;
    for (std::size_t i = 0; i < N; ++i)
      for (std::size_t j = i + 1; j < N; ++j)
        if (perm[i] > perm[j])
          ++inv;
    ll prod = 1;
    for (std::size_t i = 0; i < N; ++i)
      prod *= a[i][perm[i]];
    sum += (inv % 2U) ? -prod : prod;
  } while (std::next_permutation(perm.begin(), perm.end()));
  return sum;
}
// the matrix without row dr and column dc
template <std::size_t R, std::size_t C>
pm<R - 1, C - 1> p_minor(pm<R, C> const &a, std::size_t dr, std::size_t dc)
{
  pm<R - 1, C - 1> r{};
  std::size_t ri = 0;
  for (std::size_t i = 0; i < R; ++i)
  {
    if (i == dr)
      continue;
    std::size_t ci = 0;
    for (std::size_t j = 0; j < C; ++j)
    {
      if (j == dc)
        continue;
      r[ri][ci] = a[i][j];
      ++ci;
    }
    ++ri;
  }
  return r;
}
// adjugate = transpose of the cofactor matrix
template <std::size_t N>
pm<N, N> p_adj(pm<N, N> const &a)
{
  pm<N, N> r{};
  for (std::size_t i = 0; i < N; ++i)
    for (std::size_t j = 0; j < N; ++j)
    {
      ll cof = p_det(p_minor(a, i, j));
      if ((i + j) % 2U)
        cof = -cof;
      r[j][i] = cof;
    }
  return r;
}
template <std::size_t R, std::size_t C>
pv<R> p_mv(pm<R, C> const &a, pv<C> const &v)
{
  pv<R> r{};
  for (std::size_t i = 0; i < R; ++i)
    for (std::size_t j = 0; j < C; ++j)
      r[i] += a[i][j] * v[j];
  return r;
}
template <std::size_t N, class F>
pv<N> p_zip(pv<N> const &a, pv<N> const &b, F f)
{
  pv<N> r{};
  for (std::size_t i = 0; i < N; ++i)
    r[i] = f(a[i], b[i]);
  return r;
}
template <std::size_t N>
pv<N> p_vsmul(ll k, pv<N> const &a)
{
  pv<N> r{};
  for (std::size_t i = 0; i < N; ++i)
    r[i] = k * a[i];
  return r;
}
template <std::size_t N>
ll p_dot(pv<N> const &a, pv<N> const &b)
{
  ll s = 0;
  for (std::size_t i = 0; i < N; ++i)
    s += a[i] * b[i];
  return s;
}
inline pv<3> p_cross(pv<3> const &a, pv<3> const &b)
{
  return pv<3>{a[1] * b[2] - a[2] * b[1], a[2] * b[0] - a[0] * b[2], a[0] * b[1] - a[1] * b[0]};
}

template <std::size_t N>
std::string show(pv<N> const &v)
{
  std::string s = "(";
  for (std::size_t i = 0; i < N; ++i)
  {
    if (i)
      s += ',';
    s += std::to_string(v[i]);
  }
  return s + ")";
}
template <std::size_t R, std::size_t C>
std::string show(pm<R, C> const &m)
{
  std::string s = "[";
  for (std::size_t i = 0; i < R; ++i)
    s += show(m[i]);
  return s + "]";
}
inline std::string show(ll v) { return std::to_string(v); }
inline std::string show(bool v) { return v ? "true" : "false"; }

// ------------------------------------------------------------------ reading library objects back
// element (r,c) of a matrix is element r*C+c of its storage (documented: row-major)
template <class M>
pm<M::static_rows::value, M::static_columns::value> plain_m(M const &m)
{
  constexpr std::size_t R = M::static_rows::value, C = M::static_columns::value;
  pm<R, C> r{};
  for (std::size_t i = 0; i < R; ++i)
    for (std::size_t j = 0; j < C; ++j)
      r[i][j] = static_cast<ll>(static_cast<typename M::value_type>(
          m.storage()[static_cast<size_type>(i * C + j)]));
  return r;
}
template <class V>
pv<V::static_size::value> plain_v(V const &v)
{
  constexpr std::size_t N = V::static_size::value;
  pv<N> r{};
  for (std::size_t i = 0; i < N; ++i)
    r[i] = static_cast<ll>(static_cast<typename V::value_type>(v.storage()[static_cast<size_type>(i)]));
  return r;
}

// ------------------------------------------------------------------ judging
struct ctx
{
  std::string inst;                  // "int,2x2,sv"
  std::function<std::string()> desc; // operands, only evaluated on failure
};
inline void report(ctx const &c, char const *op, char const *cls, std::string const &got, std::string const &want)
{
  vf::violation(std::string(op) + "<" + c.inst + ">/" + cls, "mismatch",
                c.desc() + " got=" + got + " want=" + want);
}
template <class M, std::size_t R, std::size_t C>
bool want_m(ctx const &c, char const *op, M const &got, pm<R, C> const &want, char const *cls = "value")
{
  VF_COUNT("judged/model-comparisons");
  auto g = plain_m(got);
  if (g == want)
    return true;
  report(c, op, cls, show(g), show(want));
  return false;
}
template <class V, std::size_t N>
bool want_v(ctx const &c, char const *op, V const &got, pv<N> const &want, char const *cls = "value")
{
  VF_COUNT("judged/model-comparisons");
  auto g = plain_v(got);
  if (g == want)
    return true;
  report(c, op, cls, show(g), show(want));
  return false;
}
template <class A, class B>
bool want_s(ctx const &c, char const *op, A const &got, B const &want, char const *cls = "value")
{
  VF_COUNT("judged/model-comparisons");
  if (static_cast<ll>(got) == static_cast<ll>(want))
    return true;
  report(c, op, cls, show(static_cast<ll>(got)), show(static_cast<ll>(want)));
  return false;
}
inline bool want_b(ctx const &c, char const *op, bool got, bool want, char const *cls = "value")
{
  VF_COUNT("judged/model-comparisons");
  if (got == want)
    return true;
  report(c, op, cls, show(got), show(want));
  return false;
}
// an identity between two library results (compared element-wise on what was read back)
template <class L, class R>
bool ident_m(ctx const &c, char const *law, L const &lhs, R const &rhs)
{
  VF_COUNT("judged/identities");
  auto l = plain_m(lhs);
  auto r = plain_m(rhs);
  if (l == r)
    return true;
  report(c, law, "identity", "lhs " + show(l), "rhs " + show(r));
  return false;
}
template <class L, class R>
bool ident_v(ctx const &c, char const *law, L const &lhs, R const &rhs)
{
  VF_COUNT("judged/identities");
  auto l = plain_v(lhs);
  auto r = plain_v(rhs);
  if (l == r)
    return true;
  report(c, law, "identity", "lhs " + show(l), "rhs " + show(r));
  return false;
}
template <class A, class B>
bool ident_s(ctx const &c, char const *law, A const &lhs, B const &rhs)
{
  VF_COUNT("judged/identities");
  if (static_cast<ll>(lhs) == static_cast<ll>(rhs))
    return true;
  report(c, law, "identity", "lhs " + show(static_cast<ll>(lhs)), "rhs " + show(static_cast<ll>(rhs)));
  return false;
}

//@@PART2@@
