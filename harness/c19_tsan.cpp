// C19 (ThreadSanitizer build): many short seeded multi-thread rounds of set/get/object creation/level/enabled/log
// against one context. The harness shares nothing between the threads except the context (and, in the
// barrier-synchronised rounds, one barrier that only orders whole phases, never the operations inside a phase).
// TSan reports are written to log files (log_path) and judged by the driver's post-processor.
#include <c19_model.hpp>

#include <atomic>
#include <thread>

namespace
{
using namespace c19;

struct barrier_t
{
  std::atomic<unsigned> count{0}, phase{0};
  unsigned n;
  explicit barrier_t(unsigned k) : n(k) {}
  void wait()
  {
    unsigned p = phase.load();
    if (count.fetch_add(1) + 1 == n)
    {
      count.store(0);
      phase.fetch_add(1);
    }
    else
      while (phase.load() == p)
        std::this_thread::yield();
  }
};

void body()
{
  vf::require_bucket("log/tsan/rounds");
  vf::require_bucket("log/tsan/operations");
  std::string e = "log-tsan";
  if (!vf::entry_enabled(e))
    return;
  vf::set_entry(e);
  std::uint64_t rounds = vf::tier<std::uint64_t>(480, 8000) / vf::opts().nparts + 1;
  for (std::uint64_t r = 0; r < rounds; ++r)
  {
    if (!vf::begin_case("seed=%" PRIu64 " part=%u round=%" PRIu64, vf::opts().seed, vf::opts().part, r))
      continue;
    vf::sample_case(2);
    vf::rng g(vf::seed_for(e, r));
    unsigned nthreads = static_cast<unsigned>(g.below(5)) + 2; // 2..6
    unsigned nops = static_cast<unsigned>(g.below(150)) + 50;
    bool use_barrier = g.chance(1, 2);
    vf::note_distinct(vf::hash_mix(vf::seed_for(e, r), nthreads));
    // per-thread sinks are impossible (the sinks belong to the context); messages go to one set of string streams whose
    // use is serialised by the harness through the "only thread 0 logs" rule
    sinks_t sinks;
    l::context ctx{toopt(static_cast<int>(g.below(7))), make_streams(sinks)};
    int top = static_cast<int>(g.below(3));
    barrier_t bar(nthreads);
    std::vector<std::uint64_t> seeds(nthreads);
    for (auto &s : seeds)
      s = g.next();
    std::vector<std::thread> th;
    std::vector<std::uint64_t> done(nthreads, 0);
    for (unsigned t = 0; t < nthreads; ++t)
      th.emplace_back([&, t] {
        vf::rng lg(seeds[t]);
        std::vector<std::unique_ptr<l::object>> mine;
        for (unsigned i = 0; i < nops; ++i)
        {
          if (use_barrier && i % 4 == 0)
            bar.wait();
          else
            for (std::uint64_t s = lg.below(30); s > 0; --s)
              std::this_thread::yield();
          Loc hot{top};
          for (std::size_t d = lg.below(3); d > 0; --d)
            hot.push_back(static_cast<int>(lg.below(3)));
          // creation heavy at the start, then mixed
          unsigned k = static_cast<unsigned>(lg.below(i < nops / 4 ? 6 : 10));
          switch (k)
          {
          case 0:
          case 1:
          case 2:
          {
            Loc parent = hot;
            if (parent.size() == 3)
              parent.pop_back();
            mine.push_back(std::make_unique<l::object>(fcppt::make_ref(ctx), mkloc(parent),
                                                       l::parameters{l::name{names[lg.below(3)]}, l::format::optional_function{}}));
            if (mine.size() > 12)
              mine.erase(mine.begin());
          }
          break;
          case 3:
          case 6:
            ctx.set(mkloc(lg.chance(1, 4) ? random_loc(lg) : hot), toopt(static_cast<int>(lg.below(7))));
            break;
          case 4:
          case 7:
            (void)ctx.get(mkloc(hot));
            break;
          case 5:
            if (!mine.empty())
              mine.push_back(std::make_unique<l::object>(*mine[lg.below(mine.size())], l::parameters{l::name{names[lg.below(3)]}, l::format::optional_function{}}));
            break;
          default:
            if (!mine.empty())
            {
              l::object &o = *mine[lg.below(mine.size())];
              (void)o.level();
              (void)o.enabled(l::level::warning);
              if (t == 0)
                o.log(l::level::error, l::out << "x");
            }
            break;
          }
          ++done[t];
        }
      });
    for (auto &t : th)
      t.join();
    std::uint64_t ops = 0;
    for (auto d : done)
      ops += d;
    VF_COUNT("log/tsan/rounds");
    vf::count("log/tsan/operations", ops);
    vf::count("log/tsan/threads", nthreads);
    if (use_barrier)
      VF_COUNT("log/tsan/barrier-rounds");
  }
}
}

VF_MAIN(body)
